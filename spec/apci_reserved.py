"""
Reserved-bit oracle for C05 (trusted; written from KNX Application Layer 03.03.07 / Logical Tag
Extended as cited in the service docstrings, not from what the encoder emits).

mask(S, i, n): bits of octet i of an n-octet APDU of service class S that carry meaning.
Octet 0: only the two low bits belong to the APCI (the upper six are the TPCI).
Octet 1 of a 4-bit-APCI service: the low six bits are data for some services and reserved for others.
"""

from contracts.apci_common import FOUR_BIT
from xknx.telegram import apci as A

# 4-bit services whose low six bits of octet 1 carry data
SIX_BIT_DATA = {
    "ADCRead": 0x3F,
    "ADCResponse": 0x3F,
    "MemoryRead": 0x3F,
    "MemoryWrite": 0x3F,
    "MemoryResponse": 0x3F,
    "DeviceDescriptorRead": 0x3F,
    "DeviceDescriptorResponse": 0x3F,
}

# (class name, octet index) -> mask of significant bits, beyond the defaults
EXTRA = {
    # A_SystemNetworkParameter_*: 12 bit property id then 4 reserved bits (03.03.07 §3.3.8)
    ("SystemNetworkParameterRead", 5): 0xF0,
    ("SystemNetworkParameterResponse", 5): 0xF0,
    ("SystemNetworkParameterWrite", 5): 0xF0,
    # A_PropertyExtDescription_Response: writable flag, one reserved bit, 6 bit PDT (§3.4.3.2)
    ("PropertyExtDescriptionResponse", 13): 0xBF,
    # A_Authorize_Request: one reserved octet (00h) before the key (§3.5.5)
    ("AuthorizeRequest", 2): 0x00,
    # A_PropertyDescription_Response: 4 reserved bits before the 12 bit max_nr_of_elem (§3.4.3.4)
    ("PropertyDescriptionResponse", 6): 0x0F,
    # A_IndividualAddressSerialNumber_Response: serial(6) address(2) reserved(2) (§3.2.7)
    ("IndividualAddressSerialResponse", 10): 0x00,
    ("IndividualAddressSerialResponse", 11): 0x00,
    # A_IndividualAddressSerialNumber_Write: serial(6) address(2) reserved(4) (§3.2.8)
    ("IndividualAddressSerialWrite", 10): 0x00,
    ("IndividualAddressSerialWrite", 11): 0x00,
    ("IndividualAddressSerialWrite", 12): 0x00,
    ("IndividualAddressSerialWrite", 13): 0x00,
    # A_Link_Read: 4 reserved bits then 4 bit start index (§3.4.6.1)
    ("LinkRead", 3): 0x0F,
    # A_Link_Write: 6 reserved bits then d and s flags (§3.4.6.2)
    ("LinkWrite", 3): 0x03,
}


def mask(S, i, n):
    if i == 0:
        return 0x03
    name = S.__name__
    if i == 1:
        if S.CODE in FOUR_BIT:
            if name in ("GroupValueWrite", "GroupValueResponse"):
                return 0xFF if n == 2 else 0xC0
            return 0xC0 | SIX_BIT_DATA.get(name, 0)
        return 0xFF
    return EXTRA.get((name, i), 0xFF)
