"""Executable contracts for the cryptographic layer as the Data Secure state machine sees it."""

from pyvc.api import ghost, nondet, nondet_bytes
from xknx.exceptions import DataSecureError
from xknx.secure.data_secure_asdu import SecureData


def get_plain_apdu_contract(self, key, scf, address_fields_raw, address_type, frame_format, tpci):
    """SecureData.get_plain_apdu as its callers see it: the MAC check fails (DataSecureError) or some
    plain APDU comes back. (That it fails for every tampered input is C16; the bytes are C15/C19.)"""
    if nondet(2) == 0:
        raise DataSecureError("Data Secure MAC verification failed (contract)")
    ghost("mac_verified").append(1)
    return nondet_bytes(255)


SECURE_DATA_STUBS = [(SecureData, "get_plain_apdu", get_plain_apdu_contract)]


def init_from_plain_apdu_contract(key, apdu, scf, sequence_number, address_fields_raw, address_type, frame_format, tpci):
    """SecureData.init_from_plain_apdu as the state machine sees it: a SecureData carrying the given
    sequence number and some secured APDU and MAC (their content is C15/C19)."""
    return SecureData(
        sequence_number_bytes=sequence_number.to_bytes(6, "big"),
        secured_apdu=nondet_bytes(255),
        message_authentication_code=nondet_bytes(4),
    )


SECURE_DATA_STUBS.append((SecureData, "init_from_plain_apdu", staticmethod(init_from_plain_apdu_contract)))
