"""Facts about xknx.knxip read from the real package."""

import inspect

import xknx.knxip as K
from xknx.knxip.body import KNXIPBody


def body_classes():
    out = []
    seen = set()
    import xknx.knxip.knxip as M

    for name, obj in vars(M).items():
        if inspect.isclass(obj) and issubclass(obj, KNXIPBody) and not inspect.isabstract(obj) and getattr(obj, "SERVICE_TYPE", None) is not None and obj not in seen:
            seen.add(obj)
            out.append(obj)
    return sorted(out, key=lambda c: c.__name__)
