"""C18 - Secured group addresses never take plain data, and bad frames never crash."""

from contracts.c17_sequence import DS, FULL_FLAGS, SAPDU
from contracts.cemi_common import APCI_STUBS, AnyAPCI
from contracts.secure_common import SECURE_DATA_STUBS
from contracts.world import RecEvent, RecManagement, RecQueue, RecTelegramQueue, World
from pyvc.api import Bytes, Choice, Const, EnumOf, Int, Obj, assume, ghost, lemma
from xknx.cemi.cemi_frame import CEMIFrame, CEMILData
from xknx.cemi.cemi_handler import CEMIHandler
from xknx.cemi.const import CEMIMessageCode
from xknx.core.connection_manager import ConnectionManager
from xknx.exceptions import DataSecureError
from xknx.telegram.address import GroupAddress, IndividualAddress
from xknx.telegram.apci import SecureAPDU
from xknx.telegram.tpci import TAck, TConnect, TDataBroadcast, TDataConnected, TDataGroup, TDataIndividual, TDataTagGroup

PLAIN = Obj(AnyAPCI, enc=Bytes(min_len=2, max_len=255))
TPCI_ANY = Choice(Const(TDataGroup()), Const(TDataBroadcast()), Const(TDataTagGroup()), Const(TDataIndividual()), Obj(TDataConnected, sequence_number=Int(0, 15)), Const(TConnect()), Obj(TAck, sequence_number=Int(0, 15)))
LDATA = Obj(
    CEMILData,
    flags=FULL_FLAGS,
    src_addr=Obj(IndividualAddress, raw=Int(0, 0xFFFF)),
    dst_addr=Choice(Obj(GroupAddress, raw=Int(0, 0xFFFF)), Obj(IndividualAddress, raw=Int(0, 0xFFFF))),
    tpci=TPCI_ANY,
    payload=Choice(PLAIN, SAPDU, None),
)
XKNX = Obj(
    World,
    current_address=Obj(IndividualAddress, raw=Int(0, 0xFFFF)),
    telegrams=Const(RecQueue()),
    management=Const(RecManagement()),
    telegram_queue=Const(RecTelegramQueue()),
    connection_manager=Obj(ConnectionManager, cemi_count_incoming=Int(0, 10**9), cemi_count_incoming_error=Int(0, 10**9), undecoded_data_secure=Int(0, 10**9)),
)
HANDLER = Obj(CEMIHandler, xknx=XKNX, data_secure=Choice(None, DS), _l_data_confirmation_event=Const(RecEvent()))
STUBS = APCI_STUBS + SECURE_DATA_STUBS


@lemma("C18", params=dict(ds=DS, frame=LDATA), stubs=STUBS)
def plain_frame_to_secured_group_is_rejected(ds, frame):
    """(a) received_cemi: a plain APDU to a group address that has a key raises DataSecureError."""
    assume(not isinstance(frame.payload, SecureAPDU))
    assume(isinstance(frame.dst_addr, GroupAddress) and frame.dst_addr in ds._group_key_table)
    try:
        ds.received_cemi(frame)
    except DataSecureError:
        return
    assert False, "plain frame to a secured group address was accepted"


@lemma("C18", params=dict(ds=DS, frame=LDATA), stubs=STUBS)
def outgoing_to_secured_group_is_always_secured(ds, frame):
    """(b) outgoing_cemi: for a group address with a key the frame leaves with a SecureAPDU payload
    (or is refused); without a key, and for individual addresses, it is passed on unchanged."""
    assume(not isinstance(frame.payload, SecureAPDU))
    keyed = isinstance(frame.dst_addr, GroupAddress) and frame.dst_addr in ds._group_key_table
    try:
        out = ds.outgoing_cemi(frame)
    except DataSecureError:
        return  # sequence numbers exhausted: refused, nothing is sent
    if keyed:
        assert isinstance(out.payload, SecureAPDU)
    else:
        assert out is frame


@lemma("C18", params=dict(h=HANDLER, frame=LDATA, code=EnumOf(CEMIMessageCode)), stubs=STUBS)
def handle_cemi_frame_never_raises_and_routes_key_issues(h, frame, code):
    """(c) handle_cemi_frame returns normally for every link-layer frame - also for an authenticated
    frame whose decrypted content is malformed - and a plain frame to a secured group address reaches
    neither the telegram queue nor management, only the key-issue report."""
    keyed_plain = (
        h.data_secure is not None
        and not isinstance(frame.payload, SecureAPDU)
        and isinstance(frame.dst_addr, GroupAddress)
        and frame.dst_addr in h.data_secure._group_key_table
    )
    h.handle_cemi_frame(CEMIFrame(code=code, data=frame))
    if keyed_plain:
        assert len(ghost("queue")) == 0 and len(ghost("mgmt")) == 0
        if code is CEMIMessageCode.L_DATA_IND and isinstance(frame.tpci, TDataGroup):
            assert len(ghost("keyissue")) == 1
