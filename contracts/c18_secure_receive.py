"""C18 - Secured group addresses never take plain data, and bad frames never crash."""

from contracts.c17_sequence import DS, FULL_FLAGS, SAPDU
from contracts.cemi_common import APCI_STUBS, AnyAPCI
from contracts.secure_common import SECURE_DATA_STUBS
from contracts.world import RecEvent, RecManagement, RecQueue, RecTelegramQueue, World
from pyvc.api import Bytes, Choice, Const, EnumOf, Int, Obj, assume, ghost, lemma
from xknx.cemi.cemi_frame import CEMIFrame, CEMILData
from xknx.cemi.cemi_handler import CEMIHandler
from xknx.cemi.const import CEMIMessageCode
from xknx.core.connection_manager import ConnectionManager
from xknx.exceptions import DataSecureError
from xknx.telegram.address import GroupAddress, IndividualAddress
from xknx.telegram.apci import SecureAPDU
from xknx.telegram.tpci import TAck, TConnect, TDataBroadcast, TDataConnected, TDataGroup, TDataIndividual, TDataTagGroup

PLAIN = Obj(AnyAPCI, enc=Bytes(min_len=2, max_len=255))
TPCI_ANY = Choice(Const(TDataGroup()), Const(TDataBroadcast()), Const(TDataTagGroup()), Const(TDataIndividual()), Obj(TDataConnected, sequence_number=Int(0, 15)), Const(TConnect()), Obj(TAck, sequence_number=Int(0, 15)))
LDATA = Obj(
    CEMILData,
    flags=FULL_FLAGS,
    src_addr=Obj(IndividualAddress, raw=Int(0, 0xFFFF)),
    dst_addr=Choice(Obj(GroupAddress, raw=Int(0, 0xFFFF)), Obj(IndividualAddress, raw=Int(0, 0xFFFF))),
    tpci=TPCI_ANY,
    payload=Choice(PLAIN, SAPDU, None),
)
XKNX = Obj(
    World,
    current_address=Obj(IndividualAddress, raw=Int(0, 0xFFFF)),
    telegrams=Const(RecQueue()),
    management=Const(RecManagement()),
    telegram_queue=Const(RecTelegramQueue()),
    connection_manager=Obj(ConnectionManager, cemi_count_incoming=Int(0, 10**9), cemi_count_incoming_error=Int(0, 10**9), undecoded_data_secure=Int(0, 10**9)),
)
HANDLER = Obj(CEMIHandler, xknx=XKNX, data_secure=Choice(None, DS), _l_data_confirmation_event=Const(RecEvent()))
STUBS = APCI_STUBS + SECURE_DATA_STUBS


@lemma("C18", params=dict(ds=DS, frame=LDATA), stubs=STUBS)
def plain_frame_to_secured_group_is_rejected(ds, frame):
    """(a) received_cemi: a plain APDU to a group address that has a key raises DataSecureError."""
    assume(not isinstance(frame.payload, SecureAPDU))
    assume(isinstance(frame.dst_addr, GroupAddress) and frame.dst_addr in ds._group_key_table)
    try:
        ds.received_cemi(frame)
    except DataSecureError:
        return
    assert False, "plain frame to a secured group address was accepted"


@lemma("C18", params=dict(ds=DS, frame=LDATA), stubs=STUBS)
def outgoing_to_secured_group_is_always_secured(ds, frame):
    """(b) outgoing_cemi: for a group address with a key the frame leaves with a SecureAPDU payload
    (or is refused); without a key, and for individual addresses, it is passed on unchanged."""
    assume(not isinstance(frame.payload, SecureAPDU))
    keyed = isinstance(frame.dst_addr, GroupAddress) and frame.dst_addr in ds._group_key_table
    try:
        out = ds.outgoing_cemi(frame)
    except DataSecureError:
        return  # sequence numbers exhausted: refused, nothing is sent
    if keyed:
        assert isinstance(out.payload, SecureAPDU)
    else:
        assert out is frame


@lemma("C18", params=dict(h=HANDLER, frame=LDATA, code=EnumOf(CEMIMessageCode)), stubs=STUBS)
def handle_cemi_frame_never_raises_and_routes_key_issues(h, frame, code):
    """(c) handle_cemi_frame returns normally for every link-layer frame - also for an authenticated
    frame whose decrypted content is malformed - and a plain frame to a secured group address reaches
    neither the telegram queue nor management, only the key-issue report."""
    keyed_plain = (
        h.data_secure is not None
        and not isinstance(frame.payload, SecureAPDU)
        and isinstance(frame.dst_addr, GroupAddress)
        and frame.dst_addr in h.data_secure._group_key_table
    )
    h.handle_cemi_frame(CEMIFrame(code=code, data=frame))
    if keyed_plain:
        assert len(ghost("queue")) == 0 and len(ghost("mgmt")) == 0
        if code is CEMIMessageCode.L_DATA_IND and isinstance(frame.tpci, TDataGroup):
            assert len(ghost("keyissue")) == 1


# ------------------------------------------------------------------ which addresses "have a key": the keyring

from xknx.secure import data_secure as _data_secure_module  # noqa: E402


_G1, _G2, _S1 = GroupAddress(0x0A03), GroupAddress(0), IndividualAddress(0x1105)


class _Keyring:
    """Keyring by contract: the two tables Data Secure is initialised from (parsing the file is not part of
    this property)."""

    def __init__(self, keys, senders):
        self.keys, self.senders = keys, senders

    def get_data_secure_group_keys(self, receiver=None):
        return self.keys

    def get_data_secure_senders(self):
        return self.senders


@lemma(
    "C18",
    family=[dict(n_keys=k, n_senders=s) for k in (0, 1, 2) for s in (0, 1)],
    params=dict(h=Obj(CEMIHandler, xknx=XKNX, data_secure=None, _l_data_confirmation_event=Const(RecEvent())), start=Int(1, (1 << 48) - 1)),
    stubs=[(_data_secure_module, "_initial_sequence_number", lambda: ghost("start")[0])],
)
def every_key_of_the_keyring_is_in_force(n_keys, n_senders, h, start):
    """data_secure_init / DataSecure.init_from_keyring: Data Secure is switched off only for a keyring without
    any group key; otherwise - whatever the sender table holds, an empty one included - the handler's
    DataSecure uses exactly the keyring's key table, so every address with a key is treated as secured."""
    ghost("start").append(start)
    g1, g2 = _G1, _G2
    keys = {}
    if n_keys >= 1:
        keys[g1] = bytes(16)
    if n_keys == 2:
        keys[g2] = bytes(range(16))
    senders = {}
    if n_senders:
        senders[_S1] = 0
    h.data_secure_init(_Keyring(keys, senders))
    if n_keys == 0:
        assert h.data_secure is None
        return
    assert h.data_secure is not None
    assert h.data_secure._group_key_table is keys and h.data_secure._individual_address_table is senders
    assert g1 in h.data_secure._group_key_table and len(h.data_secure._group_key_table) == n_keys
