"""C35 - State updater reads exactly when its tracking policy says.

The statement is about when GroupValueRead telegrams are issued.  It is carried by the contracts of the
tracker's five transitions and its two coroutines, and of the updater's connection / registration
functions (task handles, semaphore, shield and the remote value's read as contract stubs):

  * a tracker has at most one live task; start() = one read, then (unless 'init') the update loop;
    the update loop sleeps the full interval before every read; a state update restarts the loop of an
    'expire' tracker only; stop() leaves no task  =>  read times per policy;
  * the updater starts every tracker once per change to CONNECTED, stops all on any other state,
    starts a newly registered tracker only while started, stops and forgets an unregistered one
    =>  once per (re)connection, never while disconnected or unregistered;
  * every read runs inside the shared semaphore created with 2 permits  =>  at most two in progress.

Time is not modelled: asyncio.sleep(d) is trusted to take at least d.
"""

import asyncio
import warnings

import xknx.core.state_updater as su_mod
from contracts.world import World
from pyvc.api import Bool, Choice, Const, EnumOf, Float, Int, LoopSpec, Obj, assume, ghost, lemma, nondet, run
from xknx.core import XknxConnectionState
from xknx.core.state_updater import MAX_UPDATE_INTERVAL, StateTrackerType, StateUpdater, TrackerOptions, _StateTracker
from xknx.remote_value import RemoteValueSwitch
from xknx.telegram import GroupAddress

warnings.filterwarnings("ignore", message="coroutine .* was never awaited")


class FakeTask:
    """asyncio.Task handle: live until cancelled; the coroutine it would run is kept for inspection."""

    def __init__(self, coro, cancelled=False):
        self.coro = coro
        self.cancelled = cancelled

    def cancel(self):
        self.cancelled = True
        ghost("cancelled").append(self)


def _create_task(coro, name=None):
    t = FakeTask(coro)
    ghost("created").append(t)
    return t


async def _sleep(delay, result=None):
    ghost("T").append(("sleep", delay))


async def _read():
    """The tracker's read_state awaitable (read_state_mutex of the updater, lemma below)."""
    ghost("T").append("read")
    if nondet(2):
        raise StopReading()  # (ends the native replay of the endless update loop)


class StopReading(Exception):
    pass


STUBS = [(asyncio, "create_task", _create_task), (asyncio, "sleep", _sleep)]
HANDLE = Obj(FakeTask, coro=None, cancelled=False)
TRACKER = Obj(_StateTracker, tracker_type=EnumOf(StateTrackerType), update_interval=Int(60, 86400), _read_state=Const(_read), _task=Choice(None, HANDLE))


# ------------------------------------------------------------------ one tracker


@lemma("C35", params=dict(tr=TRACKER), stubs=STUBS)
def a_started_tracker_reads_once_then_follows_its_policy(tr):
    """start(): a previous task is cancelled, exactly one task is created; that task reads once; an 'init'
    tracker then has nothing left that could read again; the others replace the task by the update loop
    (next lemma) - never two live tasks."""
    old = tr._task
    tr.start()
    assert old is None or old.cancelled
    assert len(ghost("created")) == 1 and tr._task is ghost("created")[0] and not tr._task.cancelled
    first = tr._task
    try:
        run(first.coro)
    except StopReading:
        return
    assert ghost("T") == ["read"]
    if tr.tracker_type is StateTrackerType.INIT:
        assert len(ghost("created")) == 1 and tr._task is first
    else:
        assert len(ghost("created")) == 2 and first.cancelled
        assert tr._task is ghost("created")[1] and not tr._task.cancelled


def _update_iteration_post(self):
    tr = ghost("T")
    return tr[-2] == ("sleep", self.update_interval) and tr[-1] == "read"


LoopSpec("_StateTracker._update_loop", 0, modifies=["ghost:T"], invariant=lambda: True, post=_update_iteration_post, only=["the_update_loop_sleeps_the_full_interval_before_every_read"])


@lemma("C35", params=dict(tr=TRACKER), stubs=STUBS)
def the_update_loop_sleeps_the_full_interval_before_every_read(tr):
    """reset(): the live task is cancelled and replaced by one running _update_loop; loop rule, any
    iteration: sleep(update_interval), then one read - so a read happens only after a full interval since
    the loop was (re)started or since its previous read; the loop never ends by itself."""
    old = tr._task
    tr.reset()
    assert old is None or old.cancelled
    assert len(ghost("created")) == 1 and tr._task is ghost("created")[0] and not tr._task.cancelled
    try:
        run(tr._task.coro)
    except StopReading:
        return
    assert False, "the update loop does not end by itself"


def _reset(self):
    """Contract of _StateTracker.reset (lemma above): the live task is replaced by a fresh update loop."""
    ghost("W").append("reset")


@lemma("C35", params=dict(tr=TRACKER), stubs=STUBS + [(_StateTracker, "reset", _reset)])
def a_state_update_restarts_only_an_expire_tracker(tr):
    """update_received(): 'expire' - reset(): the running task (the interval that was being waited, or the
    initial read) is replaced by a new update loop, i.e. a full interval without update is needed before the
    next read; 'every' and 'init' - nothing changes (the periodic schedule is kept, nothing is started)."""
    old = tr._task
    tr.update_received()
    assert ghost("created") == [] and ghost("cancelled") == [] and tr._task is old
    assert ghost("W") == (["reset"] if tr.tracker_type == StateTrackerType.EXPIRE else [])


@lemma("C35", params=dict(tr=TRACKER), stubs=STUBS)
def a_stopped_tracker_has_no_task(tr):
    old = tr._task
    tr.stop()
    assert tr._task is None and (old is None or old.cancelled) and ghost("created") == []


@lemma("C35", params=dict(kind=EnumOf(StateTrackerType), minutes=Choice(Int(1, 1440), Float(lo=1.0, hi=1440.0))), stubs=STUBS, float_mode="real")
def the_interval_is_the_configured_number_of_minutes(kind, minutes):
    tr = _StateTracker(read_state_awaitable=_read, tracker_options=TrackerOptions(kind, minutes))
    assert tr.tracker_type is kind and tr.update_interval == minutes * 60 and tr._task is None
    assert ghost("created") == []


# ------------------------------------------------------------------ the updater


class RecTracker:
    """_StateTracker by its contract above."""

    def __init__(self, name):
        self.name = name

    def start(self):
        ghost("W").append(("start", self.name))

    def stop(self):
        ghost("W").append(("stop", self.name))

    def update_received(self):
        ghost("W").append(("update", self.name))


class Sem:
    """asyncio.Semaphore by contract: at most `value` holders at a time (trusted)."""

    def __init__(self, value=1):
        self.value = value

    async def __aenter__(self):
        ghost("T").append("acquire")

    async def __aexit__(self, exc_type, exc, tb):
        ghost("T").append("release")
        return False


class RecConnectionManager:
    def __init__(self, state):
        self.state = state

    def register_connection_state_changed_cb(self, cb):
        ghost("W").append(("register_cb", cb))

    def unregister_connection_state_changed_cb(self, cb):
        ghost("W").append(("unregister_cb", cb))


class OutQueue:
    async def join(self):
        ghost("T").append("queue_idle")


class RecRemoteValue:
    """A remote value as the updater sees it."""

    group_address_state = GroupAddress(1)
    device_name = "d"
    feature_name = "f"

    async def read_state(self, wait_for_result=False):
        ghost("T").append(("read_state", wait_for_result))

    def __str__(self):
        return "rv"


async def _shield(aw):
    """asyncio.shield: the inner awaitable runs on whatever happens to the waiter; the waiter either gets
    its result or is cancelled while the inner one is still in progress (ghost 'cancel' decides)."""
    ghost("T").append("shield")
    await aw  # the read is on its way (GroupValueRead queued, ValueReader waiting)
    if ghost("cancel")[0]:
        raise asyncio.CancelledError()
    ghost("T").append("read_done")


def updater():
    return Obj(
        StateUpdater,
        xknx=Obj(World, connection_manager=Obj(RecConnectionManager, state=EnumOf(XknxConnectionState)), telegram_queue=Obj(World, outgoing_queue=Const(OutQueue()))),
        started=Bool(),
        _workers=None,
        _semaphore=Obj(Sem, value=2),
        default_use_updater=True,
        _default_tracker_option=Const(TrackerOptions(StateTrackerType.EXPIRE, 60)),
    )


@lemma("C35", family=[dict(n=0), dict(n=1), dict(n=3)], params=dict(u=updater(), state=EnumOf(XknxConnectionState)))
def trackers_start_once_per_connection_and_stop_with_it(n, u, state):
    """connection_state_change_callback: CONNECTED while stopped starts every registered tracker exactly
    once (a repeated CONNECTED does nothing); any other state while started stops every tracker - nothing
    reads while disconnected; otherwise nothing happens."""
    u._workers = {i: RecTracker(i) for i in range(n)}
    was = u.started
    u.connection_state_change_callback(state)
    w = ghost("W")
    if state == XknxConnectionState.CONNECTED:
        assert u.started
        assert w == ([] if was else [("start", i) for i in range(n)])
    else:
        assert not u.started
        assert w == ([("stop", i) for i in range(n)] if was else [])


@lemma("C35", params=dict(u=updater()))
def start_and_stop_follow_the_connection_state(u):
    """start(): subscribes to connection changes and starts the trackers only if connected right now;
    stop(): unsubscribes and stops every tracker."""
    u._workers = {i: RecTracker(i) for i in range(2)}
    connected = u.xknx.connection_manager.state == XknxConnectionState.CONNECTED
    u.started = False
    u.start()
    w = list(ghost("W"))
    assert w[0][0] == "register_cb" and w[0][1] == u.connection_state_change_callback
    assert w[1:] == ([("start", 0), ("start", 1)] if connected else []) and u.started == connected
    u.stop()
    assert ghost("W")[len(w) :] == [("unregister_cb", u.connection_state_change_callback), ("stop", 0), ("stop", 1)] and not u.started


@lemma("C35", params=dict(u=updater(), option=Choice(True, Const("init"), Const("every 10"), Const(TrackerOptions(StateTrackerType.EXPIRE, 5))), cancelled_at_shield=Bool()), stubs=STUBS + [(asyncio, "shield", _shield)])
def a_registered_value_is_read_under_the_semaphore_and_only_while_started(u, option, cancelled_at_shield):
    """register_remote_value: the tracker is stored under the value's identity with the parsed policy and is
    started at once only while the updater is started (else the next CONNECTED starts it). Its read: inside
    the shared semaphore, after the outgoing queue is idle, one read_state(wait_for_result=True) of this
    value; the permit is given back only when that read is no longer in progress - also when the tracker's
    task is cancelled (stop / reset) while it waits for the shielded read."""
    ghost("cancel").append(cancelled_at_shield)
    u._workers = {0: RecTracker(0)}
    rv = RecRemoteValue()
    u.register_remote_value(rv, option)
    tr = u._workers[id(rv)]
    assert isinstance(tr, _StateTracker) and tr._read_state is not None
    want = {True: (StateTrackerType.EXPIRE, 60), "init": (StateTrackerType.INIT, 60), "every 10": (StateTrackerType.PERIODICALLY, 10)}.get(option, (StateTrackerType.EXPIRE, 5))
    assert tr.tracker_type is want[0] and tr.update_interval == want[1] * 60
    assert len(u._workers) == 2 and ghost("W") == []
    if u.started:
        assert len(ghost("created")) == 1 and tr._task is ghost("created")[0]
    else:
        assert ghost("created") == [] and tr._task is None
    try:
        run(tr._read_state())
    except asyncio.CancelledError:
        assert cancelled_at_shield
    t = ghost("T")
    assert t[:4] == ["acquire", "queue_idle", "shield", ("read_state", True)] and t[-1] == "release"
    assert "read_done" in t and t.index("read_done") < t.index("release"), "the permit was given back while the read is still in progress"


@lemma("C35", params=dict(u=updater(), known=Bool()))
def an_unregistered_value_is_stopped_and_forgotten(u, known):
    """unregister_remote_value: the tracker is stopped and removed (no later start, update or read can reach
    it); a value that was never registered raises KeyError (RemoteValue.unregister_state_updater expects
    that) and touches nothing."""
    u._workers = {}
    rv, other = RecRemoteValue(), RecRemoteValue()
    u._workers[id(other)] = RecTracker("other")
    if known:
        u._workers[id(rv)] = RecTracker("mine")
    try:
        u.unregister_remote_value(rv)
    except KeyError:
        assert not known and ghost("W") == []
        return
    assert known and ghost("W") == [("stop", "mine")] and id(rv) not in u._workers and id(other) in u._workers
    u.update_received(rv)
    assert ghost("W") == [("stop", "mine")]


@lemma("C35", params=dict(u=updater(), known=Bool()))
def state_updates_reach_only_the_own_started_tracker(u, known):
    u._workers = {}
    rv, other = RecRemoteValue(), RecRemoteValue()
    u._workers[id(other)] = RecTracker("other")
    if known:
        u._workers[id(rv)] = RecTracker("mine")
    u.update_received(rv)
    assert ghost("W") == ([("update", "mine")] if known and u.started else [])


class RecSemaphore:
    def __init__(self, value=1):
        ghost("sem").append(value)
        self.value = value


@lemma("C35", params=dict(option=Choice(True, False)), stubs=[(asyncio, "Semaphore", RecSemaphore)])
def the_semaphore_admits_two_reads(option):
    """The constructor (as XKNX calls it: no parallel_reads argument): one semaphore with two permits,
    shared by all trackers (previous lemma) - at most two reads in progress."""
    u = StateUpdater(World(), option)
    assert ghost("sem") == [2] and u._semaphore.value == 2
    assert not u.started and u._workers == {}
    assert u.default_use_updater == option


# ------------------------------------------------------------------ the policy texts


@lemma(
    "C35",
    family=[
        dict(text="init", kind=StateTrackerType.INIT, minutes=60),
        dict(text="INIT 5", kind=StateTrackerType.INIT, minutes=5),
        dict(text="expire", kind=StateTrackerType.EXPIRE, minutes=60),
        dict(text="expire 30", kind=StateTrackerType.EXPIRE, minutes=30),
        dict(text="Every 10", kind=StateTrackerType.PERIODICALLY, minutes=10),
        dict(text="every 5000", kind=StateTrackerType.PERIODICALLY, minutes=1440),
        dict(text="every 0", kind=StateTrackerType.PERIODICALLY, minutes=1),
        dict(text="every x", kind=StateTrackerType.PERIODICALLY, minutes=60),
        dict(text="sometimes 3", kind=StateTrackerType.EXPIRE, minutes=60),
    ],
    params=dict(u=updater()),
)
def policy_texts_parse_to_the_documented_policy(text, kind, minutes, u):
    got = u.parse_tracker_options(text, "t")
    assert got.tracker_type is kind and got.update_interval_min == minutes


@lemma("C35", params=dict(u=updater(), minutes=Choice(Int(-10, 5000), Float(lo=-10.0, hi=5000.0)), kind=EnumOf(StateTrackerType), wrapped=Bool()), float_mode="real")
def numeric_intervals_are_clamped_to_one_minute_and_one_day(u, minutes, kind, wrapped):
    got = u.parse_tracker_options(TrackerOptions(kind, minutes) if wrapped else minutes, "t")
    assert got.tracker_type is (kind if wrapped else StateTrackerType.EXPIRE)
    want = MAX_UPDATE_INTERVAL if minutes > MAX_UPDATE_INTERVAL else (1 if minutes < 1 else minutes)
    assert got.update_interval_min == want


# ------------------------------------------------------------------ what the updater relies on in RemoteValue


class RecUpdater:
    default_use_updater = True

    def register_remote_value(self, rv, tracker_options=True):
        ghost("W").append(("register", tracker_options))

    def unregister_remote_value(self, rv):
        ghost("W").append("unregister")
        if nondet(2):
            raise KeyError(id(rv))


RV = Obj(
    RemoteValueSwitch,
    xknx=Obj(World, state_updater=Const(RecUpdater())),
    group_address=None,
    group_address_state=Choice(None, Obj(GroupAddress, raw=1)),
    passive_group_addresses=Const([]),
    device_name="d",
    feature_name="f",
    _value=None,
    _payload=None,
    telegram=None,
    after_update_cb=None,
    _sync_state=Choice(None, True, False, Const("every 10")),
    invert=False,
)


@lemma("C35", params=dict(rv=RV))
def only_values_with_a_state_address_and_sync_enabled_are_registered(rv):
    """RemoteValue.register_state_updater: registered (with its own policy or the default) only if a state
    address exists and synchronisation is not switched off; unregister never raises."""
    rv.register_state_updater()
    if rv.group_address_state is not None and rv._sync_state is not False:
        assert ghost("W") == [("register", True if rv._sync_state is None else rv._sync_state)]
    else:
        assert ghost("W") == []
    rv.unregister_state_updater()
    assert ghost("W")[-1] == "unregister"


ASSUMPTIONS = [
    "time is not modelled: asyncio.sleep(d) takes at least d; read times follow from the contracts (one read at start, then sleep(update_interval) before every further read, restart of the loop on a state update for 'expire')",
    "asyncio.create_task runs the coroutine it is given; a cancelled task does not continue; asyncio.Semaphore(2) admits at most two holders; asyncio.shield completes with the inner awaitable",
    "a tracker's task that cancels its own handle (reset() called from _start_init) still finishes the statement it is in (no await follows)",
    "RemoteValue.read_state sends one GroupValueRead for the state address and waits for the answer (ValueReader, C-numbered elsewhere: not part of this claim)",
]


# ------------------------------------------------------------------ what 'a state update' is: every accepted telegram

from xknx.dpt import DPTBinary  # noqa: E402
from xknx.telegram import Telegram, TelegramDirection  # noqa: E402
from xknx.telegram.apci import GroupValueResponse, GroupValueWrite  # noqa: E402


class RecUpdates(RecUpdater):
    def update_received(self, rv):
        ghost("W").append("update")


RV_STATE = Obj(
    RemoteValueSwitch,
    xknx=Obj(World, state_updater=Const(RecUpdates())),
    group_address=None,
    group_address_state=Obj(GroupAddress, raw=1),
    passive_group_addresses=Const([]),
    device_name="d",
    feature_name="f",
    _value=Choice(None, True, False),
    _payload=None,
    telegram=None,
    after_update_cb=None,
    _sync_state=True,
    invert=False,
)


@lemma("C35", params=dict(rv=RV_STATE, bit=Int(0, 1), response=Bool(), always=Bool()))
def every_accepted_state_telegram_restarts_the_expire_timer(rv, bit, response, always):
    """RemoteValue.process: every telegram for the value that decodes - a write or a response, also one
    that repeats the value already stored - is reported to the state updater exactly once ('a full interval
    without a state update' counts telegrams, not value changes)."""
    payload = (GroupValueResponse if response else GroupValueWrite)(DPTBinary(bit))
    t = Telegram(destination_address=GroupAddress(1), direction=TelegramDirection.INCOMING, payload=payload)
    assert rv.process(t, always_callback=always)
    assert ghost("W") == ["update"]
    assert rv.value == bool(bit)


# ------------------------------------------------------------------ a tracker stopped while it reads stays stopped


async def _read_cancelled():
    """The read is in progress when stop() cancels the tracker's task: the await ends with CancelledError."""
    ghost("T").append("read")
    raise asyncio.CancelledError()


@lemma("C35", params=dict(tr=Obj(_StateTracker, tracker_type=EnumOf(StateTrackerType), update_interval=Int(60, 86400), _read_state=Const(_read_cancelled), _task=Choice(None, HANDLE))), stubs=STUBS)
def a_tracker_stopped_during_its_first_read_stays_stopped(tr):
    """start(), then stop() (disconnect, unregistration) while the initial read is still in progress: the
    cancelled task ends there - it starts no update loop, so nothing reads while disconnected or for an
    unregistered value."""
    tr.start()
    first = tr._task
    tr.stop()
    assert first.cancelled and tr._task is None
    try:
        run(first.coro)
        assert False, "a cancelled read does not complete"
    except asyncio.CancelledError:
        pass
    assert ghost("T") == ["read"]
    assert len(ghost("created")) == 1 and tr._task is None
