"""C02 - Group address filters match exactly the addresses their pattern denotes."""

import itertools
import random
from fnmatch import fnmatchcase

from contracts.c01_addresses import GAFree, GALong, GAShort
from pyvc.api import Bool, Choice, Const, Int, ListOf, Obj, assume, lemma, standin
from xknx.telegram.address import GroupAddress, GroupAddressType, InternalGroupAddress
from xknx.telegram.address_filter import AddressFilter

MAX = 65535
RANGE = Obj(AddressFilter.Range, range_from=Int(0, MAX), range_to=Int(0, MAX))
LEVEL = Obj(AddressFilter.LevelFilter, ranges=Choice(ListOf(RANGE), ListOf(RANGE, RANGE), ListOf(RANGE, RANGE, RANGE)))
LEVEL2 = Obj(AddressFilter.LevelFilter, ranges=Choice(ListOf(RANGE), ListOf(RANGE, RANGE)))


def in_level(level, value):
    """The statement: the value lies in one of the ranges given for that level."""
    return any(r.range_from <= value <= r.range_to for r in level.ranges)


# ------------------------------------------------------------------ proved: matching on parsed filters


@lemma("C02", max_paths=20000, params=dict(f=Obj(AddressFilter, level_filters=ListOf(LEVEL2, LEVEL2, LEVEL2), internal_group_address_pattern=None), raw=Int(0, MAX)))
def three_level_match_is_levelwise_membership(f, raw):
    """3-level filter (1..2 ranges per level here, 1..3 in the other notations; any bounds) against any address in 3-level notation: it
    matches exactly when main, middle and sub each lie in one of the ranges of their level."""
    ga = GALong(raw)
    a, b, c = f.level_filters
    assert f.match(ga) == (in_level(a, raw >> 11) and in_level(b, (raw >> 8) & 7) and in_level(c, raw & 255))


@lemma("C02", params=dict(f=Obj(AddressFilter, level_filters=ListOf(LEVEL, LEVEL), internal_group_address_pattern=None), raw=Int(0, MAX)))
def two_level_match_is_levelwise_membership(f, raw):
    ga = GAShort(raw)
    a, b = f.level_filters
    assert f.match(ga) == (in_level(a, raw >> 11) and in_level(b, raw & 2047))


@lemma("C02", params=dict(f=Obj(AddressFilter, level_filters=ListOf(LEVEL), internal_group_address_pattern=None), raw=Int(0, MAX)))
def free_match_is_membership(f, raw):
    ga = GAFree(raw)
    a = f.level_filters[0]
    assert f.match(ga) == in_level(a, raw)


@lemma("C02", params=dict(r=Obj(AddressFilter.Range, range_from=Int(-5, 200000), range_to=Int(-5, 200000)), x=Int(0, MAX)))
def ranges_are_clamped_and_normalised(r, x):
    """Range normalisation after parsing, any two bounds: both are clamped to 0..65535 and a reversed pair
    is swapped, so the range matches exactly the values between the smaller and the larger clamped bound."""
    lo, hi = r.range_from, r.range_to
    r.range_to = r._adjust_range(r.range_to)
    r.range_from = r._adjust_range(r.range_from)
    r._flip_range_if_necessary()
    clo, chi = min(max(lo, 0), MAX), min(max(hi, 0), MAX)
    assert r.get_range() == (min(clo, chi), max(clo, chi))
    assert r.match(x) == (min(clo, chi) <= x <= max(clo, chi))


# ------------------------------------------------------------------ stand-in: pattern text -> filter (str.split / isdigit / int)

NUMS = [0, 1, 2, 7, 8, 31, 32, 255, 256, 2047, 2048, 65535, 70000]


def ref_ranges(part):
    """Reference semantics of one comma separated level written from the documented grammar."""
    out = []
    for item in part.split(","):
        if item == "*":
            out.append((0, MAX))
        elif "-" in item:
            lo, hi = item.split("-")
            lo = int(lo) if lo else 0
            hi = int(hi) if hi else MAX
            lo, hi = min(lo, MAX), min(hi, MAX)
            out.append((min(lo, hi), max(lo, hi)))
        else:
            v = min(int(item), MAX)
            out.append((v, v))
    return out


def _items(rnd):
    k = rnd.randrange(6)
    a, b = rnd.choice(NUMS), rnd.choice(NUMS)
    return ["*", str(a), f"{a}-{b}", f"-{b}", f"{a}-", f"{b}-{a}"][k]


def _patterns(tier, **fixed):
    rnd = random.Random(4711)
    n = 3000 if tier == "quick" else 60000
    for _ in range(n):
        levels = rnd.choice((1, 2, 3))
        pattern = "/".join(",".join(_items(rnd) for _ in range(rnd.choice((1, 1, 2, 3)))) for _ in range(levels))
        yield (pattern, levels)
    # every single item form with every pair of boundary numbers, at each level count
    for a, b in itertools.product(NUMS, NUMS):
        for item in (str(a), f"{a}-{b}", f"-{b}", f"{a}-", "*"):
            for levels in (1, 2, 3):
                yield ("/".join([item] * levels), levels)


ADDRS = sorted(set([0, 1, 2, 255, 256, 257, 2047, 2048, 2049, 4095, 4096, 32767, 32768, 65534, 65535] + [(m << 11) + (mi << 8) + s for m in (0, 1, 7, 8, 31) for mi in (0, 1, 7) for s in (0, 1, 2, 7, 8, 31, 32, 255)]))


@standin("C02", cases=_patterns, kind="enum-native", exhaustive=False, bound="3000 (quick) / 60000 (thorough) seeded random patterns of the documented grammar (1-3 levels, 1-3 comma items per level: n, a-b, -b, a-, *, reversed ranges; numbers around every level limit and beyond 65535) plus every single-item pattern over all pairs of 13 boundary numbers, each against 130 boundary addresses in the matching notation: AddressFilter(pattern).match(address) == reference membership")
def parsed_pattern_matches_reference(pattern, levels):
    fmt, cls = {3: (GroupAddressType.LONG, GALong), 2: (GroupAddressType.SHORT, GAShort), 1: (GroupAddressType.FREE, GAFree)}[levels]
    f = AddressFilter(pattern)
    ref = [ref_ranges(p) for p in pattern.split("/")]
    old = GroupAddress.address_format
    GroupAddress.address_format = fmt
    try:
        for raw in ADDRS:
            if levels == 3:
                vals = (raw >> 11, (raw >> 8) & 7, raw & 255)
            elif levels == 2:
                vals = (raw >> 11, raw & 2047)
            else:
                vals = (raw,)
            want = all(any(lo <= v <= hi for lo, hi in rs) for v, rs in zip(vals, ref))
            assert f.match(cls(raw)) == want, (pattern, raw, want)
            assert f.match(GroupAddress(raw)) == want, (pattern, raw, want)
            if raw:
                assert f.match(str(GroupAddress(raw))) == want, (pattern, raw, want)
    finally:
        GroupAddress.address_format = old


def _globs(tier, **fixed):
    names = ["test", "tast", "t", "tt", "TEST", "Test", "LivingRoom", "livingroom", "test1", "a-b", "1", "x" * 10]
    pats = ["i-test", "i-t?st", "i-t*t", "i-*", "i-?", "i_test", "itest", "i-[ab]-b", "i-t*", "i-*1", "i-Living*", "i-T?st", "i-TEST"]
    # a glob denotes whole names: neither a name with something in front of a match (in particular another
    # "i-" + match) nor one with something behind it
    names = names + ["ai-" + n for n in names] + ["i-" + n for n in names] + [n + "x" for n in names] + ["x" + n for n in names]
    for p in pats:
        for n in names:
            yield (p, n)


@standin("C02", cases=_globs, kind="enum-native", exhaustive=False, bound="13 internal-address glob patterns (lower and mixed case) x 60 names (12 base names, each also with a prefix, a suffix and an embedded \"i-\"): match == fnmatch of the normalised name against the normalised pattern; group addresses never match an internal pattern and vice versa")
def internal_globs_match_by_name(pattern, name):
    f = AddressFilter(pattern)
    addr = InternalGroupAddress("i-" + name)
    from fnmatch import fnmatch

    assert f.match(addr) == fnmatchcase(addr.raw, InternalGroupAddress(pattern).raw), (pattern, name)  # case-sensitive
    assert f.match(GroupAddress(1)) is False
    assert AddressFilter("1/*/2-5").match(addr) is False


# ------------------------------------------------------------------ a filter object has no memory


def _reuse_cases(tier, **fixed):
    pats = ["1/300-", "0-3/*,7", "5,9-12", "200-", "2/1000-2047", "*", "*/7", "1-2/*/3", "31/7/255", "0/0/0-1"]
    raws = [0, 1, 5, 7, 261, 2092, 2348, 5596, 65535, 2048 + 7, 0x0A03]
    for p in pats:
        for r in raws:
            yield (p, r)


@standin("C02", cases=_reuse_cases, kind="enum-native", exhaustive=False, bound="10 patterns (1-, 2- and 3-level) x 11 addresses: one filter object asked under every ordered pair of the three notations (and twice under the same one) answers - or refuses - each time exactly as a freshly built filter does: matching depends on pattern, address and configured notation only, not on earlier calls")
def a_filter_answers_like_a_fresh_one_whatever_it_was_asked_before(pattern, raw):
    import itertools as _it

    def ask(f, a):
        try:
            return ("match", f.match(a))
        except Exception as e:  # noqa: BLE001  (a 3-level pattern refuses other notations: the refusal must be the same too)
            return ("raise", type(e).__name__)

    old = GroupAddress.address_format
    try:
        for first, second in _it.product(list(GroupAddressType), repeat=2):
            GroupAddress.address_format = first
            f = AddressFilter(pattern)
            a = GroupAddress(raw)
            assert ask(f, a) == ask(AddressFilter(pattern), a), (pattern, raw, first)
            GroupAddress.address_format = second
            a2 = GroupAddress(raw)
            assert ask(f, a2) == ask(AddressFilter(pattern), a2), (pattern, raw, first, second, "depends on the earlier call")
            assert ask(f, a2) == ask(f, a2)
    finally:
        GroupAddress.address_format = old
