"""C26 - Heartbeat gives up exactly after four consecutive failures."""

import asyncio

from pyvc.api import LoopSpec, ghost, last_marker, lemma, nondet, run, since_last
from xknx.exceptions import CommunicationError
from xknx.io.const import HEARTBEAT_RATE
from xknx.io.data_connection import ConnectionHeartbeat

NONE, OK, FAIL, RAISE = "none", "ok", "fail", "raise"


class Peer:
    """The owner of the heartbeat: every outcome of a ConnectionStateRequest is possible each time."""

    async def send_connectionstate(self):
        k = nondet(4)
        if k == 0:
            ghost("T").append(NONE)
            return None
        if k == 1:
            ghost("T").append(OK)
            return (True, None)
        if k == 2:
            ghost("T").append(FAIL)
            return (False, "E_CONNECTION_ID" if nondet(2) else None)
        ghost("T").append(RAISE)
        raise CommunicationError("no connection")

    async def on_failure(self):
        ghost("T").append("on_failure")
        ghost("failures").append(1)


async def _sleep(delay, result=None):
    """Contract stub of asyncio.sleep: records the requested delay (time itself is not modelled)."""
    ghost("T").append(("sleep", delay))


# while True: the connection has not been declared lost so far; every iteration begins with the sleep
LoopSpec("ConnectionHeartbeat._run", 0, modifies=["ghost:T", "ghost:failures", "outcome", "success", "status"], invariant=lambda: len(ghost("failures")) == 0)


@lemma("C26", stubs=[(asyncio, "sleep", _sleep)], max_unroll=8)
def heartbeat_gives_up_after_four_failures():
    """Over any outcome history: in the iteration in which _run returns, exactly one heartbeat period
    was slept before the first request, at most four requests were made, and on_failure was awaited
    (once, last) iff all four failed or a request raised; a None outcome ends the heartbeat quietly.
    In every earlier iteration on_failure was not called (loop invariant) - a success anywhere sends
    the loop back to a fresh sleep with a fresh count."""
    peer = Peer()
    hb = ConnectionHeartbeat("test", peer.send_connectionstate, peer.on_failure)
    run(hb._run())
    t = ghost("T")
    assert last_marker(t, "sleep") == ("sleep", HEARTBEAT_RATE)
    assert HEARTBEAT_RATE == 120 - 5 * 10  # 70 s: connection timeout minus (3 repeats + 1) * 10 s + margin
    it = since_last(t, "sleep")
    gave_up = "on_failure" in it
    reqs = [x for x in it if x != "on_failure"]
    assert 1 <= len(reqs) <= 4
    assert it.count("on_failure") <= 1
    if gave_up:
        assert it[-1] == "on_failure"
    assert OK not in reqs  # a success never ends the heartbeat: the loop continues instead
    assert all(x == FAIL for x in reqs[:-1])  # only failures are repeated
    if reqs[-1] == NONE:
        assert not gave_up
    elif reqs[-1] == RAISE:
        assert gave_up
    else:
        assert reqs[-1] == FAIL and len(reqs) == 4 and gave_up


ASSUMPTIONS = [
    "asyncio is trusted behind the contract stubs: a cancelled task/future does not continue, asyncio.timeout cancels what it guards, locks are mutually exclusive, queues are FIFO, tasks switch only at awaits; interleavings inside one await are represented by 'the awaited object completes with any admissible value, times out, or the connection closes'",
]
