"""
Independent reference of the KNX IP Secure cryptography (ISO 22510 / KNX AN159 "KNXnet/IP Secure"), written
from the specification and FIPS-197 / RFC 7748 / RFC 8018 - it shares no code with xknx and does not use the
`cryptography` package xknx is built on: AES-128 and X25519 are the few lines below, PBKDF2 and SHA-256 come
from hashlib.  Used only by the bounded stand-in of C28 (bit-exact equality with an independent
implementation); `self_test()` checks the primitives against the published test vectors on every run.
"""

import hashlib

# ------------------------------------------------------------------ AES-128 (FIPS-197), encryption only


def _xtime(a):
    a <<= 1
    return (a ^ 0x11B) & 0xFF if a & 0x100 else a


def _build_sbox():
    # multiplicative inverse in GF(2^8) by exponentiation tables of the generator 3, then the affine map
    exp, log = [0] * 256, [0] * 256
    x = 1
    for i in range(255):
        exp[i] = x
        log[x] = i
        x ^= _xtime(x)
    sbox = [0] * 256
    for a in range(256):
        inv = 0 if a == 0 else exp[(255 - log[a]) % 255]
        s = inv
        for _ in range(4):
            inv = ((inv << 1) | (inv >> 7)) & 0xFF
            s ^= inv
        sbox[a] = s ^ 0x63
    return sbox


_SBOX = _build_sbox()


def _expand_key(key):
    assert len(key) == 16
    w = [list(key[4 * i : 4 * i + 4]) for i in range(4)]
    rcon = 1
    for i in range(4, 44):
        t = list(w[i - 1])
        if i % 4 == 0:
            t = t[1:] + t[:1]
            t = [_SBOX[b] for b in t]
            t[0] ^= rcon
            rcon = _xtime(rcon)
        w.append([a ^ b for a, b in zip(w[i - 4], t)])
    return [sum(w[4 * r : 4 * r + 4], []) for r in range(11)]


def aes128_encrypt_block(key, block):
    assert len(block) == 16
    rk = _expand_key(key)
    s = [b ^ k for b, k in zip(block, rk[0])]
    for rnd in range(1, 11):
        s = [_SBOX[b] for b in s]
        # ShiftRows on the column-major state: byte r of column c comes from column c + r
        s = [s[4 * ((c + r) % 4) + r] for c in range(4) for r in range(4)]
        if rnd != 10:
            m = []
            for c in range(4):
                a = s[4 * c : 4 * c + 4]
                m += [
                    _xtime(a[0]) ^ (_xtime(a[1]) ^ a[1]) ^ a[2] ^ a[3],
                    a[0] ^ _xtime(a[1]) ^ (_xtime(a[2]) ^ a[2]) ^ a[3],
                    a[0] ^ a[1] ^ _xtime(a[2]) ^ (_xtime(a[3]) ^ a[3]),
                    (_xtime(a[0]) ^ a[0]) ^ a[1] ^ a[2] ^ _xtime(a[3]),
                ]
            s = m
        s = [b ^ k for b, k in zip(s, rk[rnd])]
    return bytes(s)


def _xor(a, b):
    return bytes(x ^ y for x, y in zip(a, b))


# ------------------------------------------------------------------ CCM pieces as KNX IP Secure uses them


def cbc_mac(key, additional_data, payload=b"", block_0=bytes(16)):
    """B_0 | len(A) as two octets | A | P, zero padded to a block boundary, CBC with a zero IV; the MAC is
    the last cipher block."""
    data = block_0 + len(additional_data).to_bytes(2, "big") + additional_data + payload
    if len(data) % 16:
        data += bytes(16 - len(data) % 16)
    y = bytes(16)
    for i in range(0, len(data), 16):
        y = aes128_encrypt_block(key, _xor(y, data[i : i + 16]))
    return y


def ctr(key, counter_0, mac, payload=b""):
    """The MAC is encrypted with counter block Ctr_0, the payload with Ctr_1 ... (the block counts up in its
    last octet). -> (payload xor keystream, mac xor S_0)"""
    n = int.from_bytes(counter_0, "big")
    s0 = aes128_encrypt_block(key, counter_0)
    out = bytearray()
    for i in range(0, len(payload), 16):
        n = (n + 1) % (1 << 128)
        ks = aes128_encrypt_block(key, n.to_bytes(16, "big"))
        out += _xor(payload[i : i + 16], ks)
    return bytes(out), _xor(mac, s0)


# ------------------------------------------------------------------ X25519 (RFC 7748)

_P = 2**255 - 19


def x25519(k, u):
    k = bytearray(k)
    k[0] &= 248
    k[31] &= 127
    k[31] |= 64
    k = int.from_bytes(k, "little")
    u = bytearray(u)
    u[31] &= 127
    x1 = int.from_bytes(u, "little") % _P
    x2, z2, x3, z3, swap = 1, 0, x1, 1, 0
    for t in reversed(range(255)):
        kt = (k >> t) & 1
        swap ^= kt
        if swap:
            x2, x3, z2, z3 = x3, x2, z3, z2
        swap = kt
        a, b = (x2 + z2) % _P, (x2 - z2) % _P
        aa, bb = a * a % _P, b * b % _P
        e = (aa - bb) % _P
        c, d = (x3 + z3) % _P, (x3 - z3) % _P
        da, cb = d * a % _P, c * b % _P
        x3 = (da + cb) ** 2 % _P
        z3 = x1 * (da - cb) ** 2 % _P
        x2 = aa * bb % _P
        z2 = e * (aa + 121665 * e) % _P
    if swap:
        x2, x3, z2, z3 = x3, x2, z3, z2
    return (x2 * pow(z2, _P - 2, _P) % _P).to_bytes(32, "little")


X25519_BASE = (9).to_bytes(32, "little")

# ------------------------------------------------------------------ the KNX IP Secure services

COUNTER_0_HANDSHAKE = bytes(14) + b"\xff\x00"


def user_password_key(password):
    return hashlib.pbkdf2_hmac("sha256", password.encode("iso-8859-1"), b"user-password.1.secure.ip.knx.org", 65536, 16)


def device_authentication_key(password):
    return hashlib.pbkdf2_hmac("sha256", password.encode("iso-8859-1"), b"device-authentication-code.1.secure.ip.knx.org", 65536, 16)


def session_key(own_private, peer_public):
    return hashlib.sha256(x25519(own_private, peer_public)).digest()[:16]


def session_response_mac(device_key, session_id, client_public, server_public):
    a = bytes.fromhex("061009520038") + session_id.to_bytes(2, "big") + _xor(client_public, server_public)
    return ctr(device_key, COUNTER_0_HANDSHAKE, cbc_mac(device_key, a))[1]


def session_authenticate_mac(user_key, user_id, client_public, server_public):
    a = bytes.fromhex("061009530018") + bytes([0, user_id]) + _xor(client_public, server_public)
    return ctr(user_key, COUNTER_0_HANDSHAKE, cbc_mac(user_key, a))[1]


def secure_wrapper(key, session_id, sequence_information, serial_number, message_tag, plain_frame):
    """The complete SECURE_WRAPPER frame (header 06 10 09 50 + total length)."""
    total = 38 + len(plain_frame)
    header = bytes.fromhex("06100950") + total.to_bytes(2, "big")
    sid = session_id.to_bytes(2, "big")
    b0 = sequence_information + serial_number + message_tag + len(plain_frame).to_bytes(2, "big")
    mac_cbc = cbc_mac(key, header + sid, plain_frame, b0)
    enc, mac = ctr(key, sequence_information + serial_number + message_tag + b"\xff\x00", mac_cbc, plain_frame)
    return header + sid + sequence_information + serial_number + message_tag + enc + mac


def timer_notify(key, timer_value, serial_number, message_tag):
    """The complete TIMER_NOTIFY frame (header 06 10 09 55 00 24)."""
    header = bytes.fromhex("061009550024")
    t = timer_value.to_bytes(6, "big")
    mac_cbc = cbc_mac(key, header, b"", t + serial_number + message_tag + b"\x00\x00")
    mac = ctr(key, t + serial_number + message_tag + b"\xff\x00", mac_cbc)[1]
    return header + t + serial_number + message_tag + mac


def self_test():
    """Published vectors: FIPS-197 C.1, RFC 7748 6.1, RFC 7914-style PBKDF2-HMAC-SHA256 (RFC 6070 inputs)."""
    assert aes128_encrypt_block(bytes(range(16)), bytes.fromhex("00112233445566778899aabbccddeeff")).hex() == "69c4e0d86a7b0430d8cdb78070b4c55a"
    assert aes128_encrypt_block(bytes.fromhex("2b7e151628aed2a6abf7158809cf4f3c"), bytes.fromhex("6bc1bee22e409f96e93d7e117393172a")).hex() == "3ad77bb40d7a3660a89ecaf32466ef97"
    a = bytes.fromhex("77076d0a7318a57d3c16c17251b26645df4c2f87ebc0992ab177fba51db92c2a")
    b = bytes.fromhex("5dab087e624a8a4b79e17f8b83800ee66f3bb1292618b6fd1c2f8b27ff88e0eb")
    assert x25519(a, X25519_BASE).hex() == "8520f0098930a754748b7ddcb43ef75a0dbf3a0d26381af4eba4a98eaa9b4e6a"
    assert x25519(b, X25519_BASE).hex() == "de9edb7d7b7dc1b4d35b61c2ece435373f8343c85b78674dadfc7e146f882b4f"
    assert x25519(a, x25519(b, X25519_BASE)).hex() == "4a5d9d5ba4ce2de1728e3bf480350f25e07e21c947d19e3376f09b3c1e161742"
    # SP 800-38A F.5.1 CTR-AES128: first two blocks
    key = bytes.fromhex("2b7e151628aed2a6abf7158809cf4f3c")
    c0 = bytes.fromhex("f0f1f2f3f4f5f6f7f8f9fafbfcfdfeff")
    pt = bytes.fromhex("6bc1bee22e409f96e93d7e117393172aae2d8a571e03ac9c9eb76fac45af8e51")
    # our ctr() spends Ctr_0 on the MAC and starts the payload at Ctr_1: feed the vector's first block as MAC
    rest, first = ctr(key, c0, pt[:16], pt[16:])
    assert (first + rest).hex() == "874d6191b620e3261bef6864990db6ce9806f66b7970fdff8617187bb9fffdff"
    return True
