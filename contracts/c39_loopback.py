"""C39 - Device commands loop back to the state they requested."""

import asyncio
import colorsys
import itertools

from contracts.world import World
from pyvc.api import Bool, Choice, Const, EnumOf, Float, Int, Obj, assume, ghost, lemma, standin
from xknx.dpt import DPTArray, DPTBinary
from xknx.exceptions import ConversionError
from xknx.remote_value import RemoteValueScaling, RemoteValueStep, RemoteValueSwitch, RemoteValueUpDown
from xknx.telegram import GroupAddress, IndividualAddress, Telegram, TelegramDirection


class RecQueue:
    def put_nowait(self, t):
        ghost("queue").append(t)


class RecStateUpdater:
    def update_received(self, rv):
        ghost("state_updater").append(rv)


class RecCb:
    def __call__(self, value):
        ghost("callbacks").append(value)


def rv_fields(**extra):
    return dict(
        xknx=Obj(World, telegrams=Const(RecQueue()), current_address=Const(IndividualAddress(1)), state_updater=Const(RecStateUpdater())),
        group_address=Obj(GroupAddress, raw=1),
        group_address_state=None,
        passive_group_addresses=Const([]),
        device_name="d",
        feature_name="f",
        _value=None,
        _payload=None,
        telegram=None,
        after_update_cb=Const(RecCb()),
        _sync_state=None,
        **extra,
    )


def loop_back(rv, v):
    """set(v), then hand the queued telegram back as the outgoing telegram the telegram queue processes."""
    rv.set(v)
    q = ghost("queue")
    assert len(q) == 1
    t = q[0]
    t.direction = TelegramDirection.OUTGOING
    assert rv.process(t)
    return rv.value


# ------------------------------------------------------------------ proved: the remote values with their own codecs


@lemma("C39", params=dict(rv=Obj(RemoteValueSwitch, invert=Bool(), **rv_fields()), v=Bool()))
def switch_loops_back_also_when_inverted(rv, v):
    """RemoteValueSwitch (switches, lights, binary outputs), inverted or not: after set(v) and processing
    of its own outgoing telegram it reports v; the wire bit is v xor invert."""
    assert loop_back(rv, v) == v
    assert ghost("queue")[0].payload.value == DPTBinary(1 if v != rv.invert else 0)
    assert ghost("callbacks") == [v]


@lemma("C39", params=dict(rv=Obj(RemoteValueUpDown, invert=Bool(), **rv_fields()), up=Bool()))
def up_down_loops_back_also_when_inverted(rv, up):
    if up:
        rv.up()
    else:
        rv.down()
    t = ghost("queue")[0]
    assert rv.process(t)
    assert rv.value == (RemoteValueUpDown.Direction.UP if up else RemoteValueUpDown.Direction.DOWN)


@lemma("C39", params=dict(rv=Obj(RemoteValueScaling, range_from=Int(-500, 500), range_to=Int(-500, 500), **rv_fields()), v=Float(lo=-500.0, hi=500.0)), float_mode="real")
def scaled_values_loop_back_to_the_nearest_step(rv, v):
    """RemoteValueScaling (brightness 0..255, position 0..100 and 100..0 when inverted, speed ...), any
    range (also descending) and any value it accepts: the reported value is an integer within half a wire
    step (range/255) plus the half unit of the final rounding of the request."""
    lo, hi = rv.range_from, rv.range_to
    assume(lo != hi)
    try:
        got = loop_back(rv, v)
    except ConversionError:
        assume(False)
    width = hi - lo if hi > lo else lo - hi
    assert isinstance(got, int)
    assert abs(got - v) * 510 <= width + 255
    assert (lo <= got <= hi) or (hi <= got <= lo)


from xknx.dpt import DPT2ByteFloat, DPTTemperature, DPTValue1Count  # noqa: E402
from xknx.remote_value.remote_value_setpoint_shift import RemoteValueSetpointShift  # noqa: E402

TEMP_PAYLOAD = DPTArray((0x0C, 0x1A))


def _temp_to_knx(cls, value):
    """Contract of DPTTemperature.to_knx (C09: encodes the value it is given to the nearest 0.01 K step):
    records what it is handed."""
    ghost("temp_to_knx").append((cls, value))
    return TEMP_PAYLOAD


def _temp_from_knx(cls, payload):
    """Contract of DPTTemperature.from_knx (C09: decodes exactly): hands back what the lemma chose."""
    ghost("temp_from_knx").append((cls, payload))
    return ghost("temp_decoded")[0]


TEMP_STUBS = [(DPT2ByteFloat, "to_knx", classmethod(_temp_to_knx)), (DPT2ByteFloat, "from_knx", classmethod(_temp_from_knx))]


@lemma("C39", params=dict(rv=Obj(RemoteValueSetpointShift, _internal_dpt_class=Const(DPTTemperature), setpoint_shift_step=Float(lo=0.01, hi=5.0), **rv_fields()), v=Float(lo=-700.0, hi=700.0), t=Float(lo=-700.0, hi=700.0)), stubs=TEMP_STUBS, float_mode="real")
def setpoint_shift_as_temperature_difference_is_passed_through(rv, v, t):
    """DPT 9.002 mode: the requested offset reaches the two-octet float codec unchanged (whatever the
    configured step is - the step only scales the count of DPT 6.010), and a received payload is reported as
    the codec decodes it; together with C09 (the codec returns the nearest 0.01 K step) the device reports the
    request to the codec's resolution."""
    ghost("temp_decoded").append(t)
    p = rv.to_knx(v)
    assert p is TEMP_PAYLOAD and ghost("temp_to_knx") == [(DPTTemperature, v)]
    got = rv.from_knx(p)
    assert ghost("temp_from_knx") == [(DPTTemperature, TEMP_PAYLOAD)]
    assert got == t


@lemma("C39", family=[dict(step=s_) for s_ in (0.05, 0.1, 0.125, 0.2, 0.25, 0.5, 1.0)], dynamic_params=lambda fixed: dict(rv=Obj(RemoteValueSetpointShift, _internal_dpt_class=Const(DPTValue1Count), setpoint_shift_step=Const(fixed["step"]), **rv_fields()), v=Float(lo=-200.0, hi=200.0)), float_mode="real")
def setpoint_shift_as_count_loops_back_to_the_nearest_step(step, rv, v):
    """DPT 6.010 mode: an accepted offset is reported as a whole number of steps within half a step of the
    request; offsets beyond -128..127 steps are refused, not wrapped."""
    try:
        got = loop_back(rv, v)
    except ConversionError:
        assert v <= -127.5 * step or v >= 126.5 * step
        return
    assert abs(got - v) * 2 <= step
    assert -128 * step <= got <= 127 * step


# ------------------------------------------------------------------ stand-in: whole devices on a real XKNX object


def _drain(xknx):
    """What TelegramQueue does with outgoing telegrams after sending them: devices process them."""
    n = 0
    while not xknx.telegrams.empty():
        t = xknx.telegrams.get_nowait()
        xknx.telegrams.task_done()
        if t is not None:
            xknx.devices.process(t)
            n += 1
    return n


def _run(coro):
    return asyncio.new_event_loop().run_until_complete(coro)


def _device_cases(tier, **fixed):
    dense = tier == "thorough"
    for invert in (False, True):
        for v in (True, False, True, True, False):
            yield ("switch", invert, v)
        for p in range(0, 101, 1 if dense else 3):
            yield ("cover_position", invert, p)
            yield ("cover_angle", invert, p)
    for b in range(0, 256, 1 if dense else 5):
        yield ("light_brightness", False, b)
    for s in range(0, 101, 1 if dense else 3):
        yield ("fan_percent", False, s)
    for s in range(0, 4):
        yield ("fan_step", False, s)
    for step in (0.05, 0.1, 0.125, 0.2, 0.25, 0.5, 1.0):
        for k in range(-127, 128, 1 if dense else 3):
            if abs(k * step) > 20:  # beyond setpoint_shift_min/max the device clamps the request by design
                continue
            yield ("climate_shift", step, round(k * step, 2))
            yield ("climate_target_via_shift", step, round(21 + k * step, 2))
    for step in (0.1, 0.5, 1.0):
        for k in range(-2000, 2001, 1 if dense else 7):  # DPT 9.002 resolves 0.01 K whatever the step is
            yield ("climate_shift_9002", step, k / 100)
    for t in itertools.chain(range(-2000, 6000, 7 if dense else 131), (2137, 2138, -27300, 67076000 // 100)):
        yield ("numeric_temperature", False, t / 100)
    for v in range(0, 101, 5):
        yield ("numeric_percent", False, v)
    for v in (0, 1, 255, 256, 65535):
        yield ("raw_2byte", False, v)
    for r, g, b in itertools.product((0, 1, 127, 255), repeat=3):
        yield ("light_rgb", False, (r, g, b))
        yield ("light_rgb_individual", False, (r, g, b))
    for r, g, b, w in ((0, 0, 0, 0), (255, 0, 128, 0), (1, 2, 3, 4), (0, 255, 0, 255), (255, 255, 255, 255)):
        yield ("light_rgbw", False, (r, g, b, w))
        yield ("light_rgbw_individual", False, (r, g, b, w))
    for v in range(0, 256, 1 if dense else 5):
        yield ("light_tunable_white", False, v)
    for v in (0, 1, 2000, 2700, 4000, 6500, 65535):
        yield ("light_color_temperature", False, v)
    for x, y, br in itertools.product((0.0, 0.25, 0.5, 1.0), (0.0, 0.3, 1.0), (0, 1, 128, 255)):
        yield ("light_xyy", False, ((x, y), br))
    for v in (True, False, True):
        yield ("fan_oscillation", False, v)
        yield ("climate_swing", False, v)
    for s_ in range(0, 101, 1 if dense else 7):
        yield ("climate_fan_percent", False, s_)
    for s_ in range(0, 4):
        yield ("climate_fan_step", False, s_)


@standin("C39", cases=_device_cases, kind="enum-native", exhaustive=False, bound="real devices on a real XKNX object (no interface): Switch and Cover (position, angle) plain and inverted, Light brightness / RGB and RGBW (combined and per-channel addresses, components incl. 0) / tunable white / colour temperature / xyY colour, Fan percent, 3-step mode and oscillation, Climate fan speed and swing, Climate setpoint shift and target temperature through a setpoint shift (steps 0.05/0.1/0.125/0.2/0.25/0.5/1.0, every shift of -127..127 steps within +-20 K; as DPT 9.002 every 0.01 K (thorough) or 0.07 K (quick) within +-20 K at steps 0.1/0.5/1.0), NumericValue temperature / percent, RawValue; every 1st (thorough) or 3rd-5th (quick) value of each integer range; the setter's telegrams are processed as outgoing and the reported state compared with the request (equal, or within half a step of the datapoint)")
def device_reports_what_was_requested(kind, opt, v):
    from xknx import XKNX
    from xknx.devices import Climate, Cover, Fan, Light, NumericValue, RawValue, Switch
    from xknx.devices.climate import SetpointShiftMode

    async def body():
        xknx = XKNX()
        if kind == "switch":
            d = Switch(xknx, "s", group_address="1/1/1", invert=opt)
            xknx.devices.async_add(d)
            await (d.set_on() if v else d.set_off())
            assert _drain(xknx) == 1
            assert d.state is v, (kind, opt, v, d.state)
        elif kind == "cover_position":
            d = Cover(xknx, "c", group_address_position="1/1/2", invert_position=opt)
            xknx.devices.async_add(d)
            await d.set_position(v)
            assert _drain(xknx) >= 1
            assert d.position_target.value == v, (kind, opt, v, d.position_target.value)
        elif kind == "cover_angle":
            d = Cover(xknx, "c", group_address_angle="1/1/3", invert_angle=opt)
            xknx.devices.async_add(d)
            await d.set_angle(v)
            assert _drain(xknx) >= 1
            assert d.current_angle() == v, (kind, opt, v, d.current_angle())
        elif kind == "light_brightness":
            d = Light(xknx, "l", group_address_switch="1/1/4", group_address_brightness="1/1/5")
            xknx.devices.async_add(d)
            await d.set_brightness(v)
            assert _drain(xknx) >= 1
            assert d.current_brightness == v, (kind, v, d.current_brightness)
        elif kind == "light_rgb":
            d = Light(xknx, "l", group_address_switch="1/1/4", group_address_color="1/1/6")
            xknx.devices.async_add(d)
            await d.set_color(v)
            assert _drain(xknx) >= 1
            assert d.current_color[0] == v, (kind, v, d.current_color)
        elif kind == "light_rgb_individual":
            d = Light(xknx, "l", group_address_switch_red="1/1/4", group_address_brightness_red="1/1/5", group_address_switch_green="1/1/6", group_address_brightness_green="1/1/7", group_address_switch_blue="1/1/8", group_address_brightness_blue="1/1/9")
            xknx.devices.async_add(d)
            await d.set_color(v)
            assert _drain(xknx) == 3
            assert d.current_color == (v, None), (kind, v, d.current_color)
        elif kind == "light_rgbw":
            d = Light(xknx, "l", group_address_switch="1/1/4", group_address_rgbw="1/1/6")
            xknx.devices.async_add(d)
            await d.set_color(v[:3], v[3])
            assert _drain(xknx) >= 1
            assert d.current_color == (v[:3], v[3]), (kind, v, d.current_color)
        elif kind == "light_rgbw_individual":
            d = Light(xknx, "l", group_address_switch_red="1/1/4", group_address_brightness_red="1/1/5", group_address_switch_green="1/1/6", group_address_brightness_green="1/1/7", group_address_switch_blue="1/1/8", group_address_brightness_blue="1/1/9", group_address_switch_white="1/1/10", group_address_brightness_white="1/1/11")
            xknx.devices.async_add(d)
            await d.set_color(v[:3], v[3])
            assert _drain(xknx) == 4
            assert d.current_color == (v[:3], v[3]), (kind, v, d.current_color)
        elif kind == "fan_percent":
            d = Fan(xknx, "f", group_address_speed="1/1/7")
            xknx.devices.async_add(d)
            await d.set_speed(v)
            assert _drain(xknx) >= 1
            assert d.current_speed == v, (kind, v, d.current_speed)
        elif kind == "fan_step":
            d = Fan(xknx, "f", group_address_speed="1/1/7", max_step=3)
            xknx.devices.async_add(d)
            await d.set_speed(v)
            assert _drain(xknx) >= 1
            assert d.current_speed == v, (kind, v, d.current_speed)
        elif kind == "light_tunable_white":
            d = Light(xknx, "l", group_address_switch="1/1/4", group_address_tunable_white="1/1/8")
            xknx.devices.async_add(d)
            await d.set_tunable_white(v)
            assert _drain(xknx) >= 1
            assert d.current_tunable_white == v, (kind, v, d.current_tunable_white)
        elif kind == "light_color_temperature":
            d = Light(xknx, "l", group_address_switch="1/1/4", group_address_color_temperature="1/1/9")
            xknx.devices.async_add(d)
            await d.set_color_temperature(v)
            assert _drain(xknx) >= 1
            assert d.current_color_temperature == v, (kind, v, d.current_color_temperature)
        elif kind == "light_xyy":
            from xknx.dpt.dpt_242 import XYYColor

            d = Light(xknx, "l", group_address_switch="1/1/4", group_address_xyy_color="1/1/10")
            xknx.devices.async_add(d)
            await d.set_xyy_color(XYYColor(color=v[0], brightness=v[1]))
            assert _drain(xknx) >= 1
            got = d.current_xyy_color
            assert got is not None and got.brightness == v[1], (kind, v, got)
            assert abs(got.color[0] - v[0][0]) <= 1 / 65535 and abs(got.color[1] - v[0][1]) <= 1 / 65535, (kind, v, got)
        elif kind == "fan_oscillation":
            d = Fan(xknx, "f", group_address_speed="1/1/7", group_address_oscillation="1/1/11")
            xknx.devices.async_add(d)
            await d.set_oscillation(v)
            assert _drain(xknx) >= 1
            assert d.current_oscillation is v, (kind, v, d.current_oscillation)
        elif kind == "climate_swing":
            d = Climate(xknx, "k", group_address_swing="1/2/5")
            xknx.devices.async_add(d)
            await d.set_swing(v)
            assert _drain(xknx) >= 1
            assert d.current_swing is v, (kind, v, d.current_swing)
        elif kind == "climate_fan_percent":
            d = Climate(xknx, "k", group_address_fan_speed="1/2/6")
            xknx.devices.async_add(d)
            await d.set_fan_speed(v)
            assert _drain(xknx) >= 1
            assert d.current_fan_speed == v, (kind, v, d.current_fan_speed)
        elif kind == "climate_fan_step":
            from xknx.devices.fan import FanSpeedMode

            d = Climate(xknx, "k", group_address_fan_speed="1/2/6", fan_speed_mode=FanSpeedMode.STEP)
            xknx.devices.async_add(d)
            await d.set_fan_speed(v)
            assert _drain(xknx) >= 1
            assert d.current_fan_speed == v, (kind, v, d.current_fan_speed)
        elif kind == "climate_shift_9002":
            d = Climate(xknx, "k", group_address_setpoint_shift="1/2/2", setpoint_shift_mode=SetpointShiftMode.DPT9002, temperature_step=opt, setpoint_shift_min=-20, setpoint_shift_max=20)
            xknx.devices.async_add(d)
            await d.set_setpoint_shift(v)
            assert _drain(xknx) >= 1
            assert abs(d.setpoint_shift - v) <= 0.005 + 1e-9, (kind, opt, v, d.setpoint_shift)
        elif kind in ("climate_shift", "climate_target_via_shift"):
            step = opt
            d = Climate(xknx, "k", group_address_target_temperature_state="1/2/1", group_address_setpoint_shift="1/2/2", setpoint_shift_mode=SetpointShiftMode.DPT6010, temperature_step=step, setpoint_shift_min=-20, setpoint_shift_max=20)
            xknx.devices.async_add(d)
            # the thermostat has reported target 21.0 at shift 0: base temperature 21.0
            from xknx.dpt import DPTTemperature, DPTValue1Count
            from xknx.telegram.apci import GroupValueWrite

            for ga, payload in (("1/2/1", DPTTemperature.to_knx(21.0)), ("1/2/2", DPTValue1Count.to_knx(0))):
                xknx.devices.process(Telegram(destination_address=GroupAddress(ga), direction=TelegramDirection.INCOMING, payload=GroupValueWrite(payload)))
            assert d.base_temperature == 21.0
            want = v if kind == "climate_shift" else round(v - 21.0, 2)
            if kind == "climate_shift":
                await d.set_setpoint_shift(v)
            else:
                await d.set_target_temperature(v)
            assert _drain(xknx) >= 1
            got = d.setpoint_shift
            assert abs(got - want) <= step / 2 + 1e-9, (kind, step, v, want, got)
        elif kind == "numeric_temperature":
            d = NumericValue(xknx, "n", group_address="1/3/1", value_type="temperature")
            xknx.devices.async_add(d)
            try:
                await d.set(v)
            except ConversionError:
                return
            assert _drain(xknx) == 1
            got = d.resolve_state()
            e = 0
            while abs(v) * 100 > 2047 * (1 << e):
                e += 1
            assert abs(got - v) <= 0.005 * (1 << e) + 1e-9, (kind, v, got)
        elif kind == "numeric_percent":
            d = NumericValue(xknx, "n", group_address="1/3/2", value_type="percent")
            xknx.devices.async_add(d)
            await d.set(v)
            assert _drain(xknx) == 1
            assert d.resolve_state() == v, (kind, v, d.resolve_state())
        elif kind == "raw_2byte":
            d = RawValue(xknx, "r", payload_length=2, group_address="1/3/3")
            xknx.devices.async_add(d)
            await d.set(v)
            assert _drain(xknx) == 1
            assert d.resolve_state() == v, (kind, v, d.resolve_state())

    _run(body())


# ------------------------------------------------------------------ commands that send only what changed: histories
# Light.set_hs_color compares the request with the reported state and sends only the component that differs - the
# result of a command then depends on the command before it.


def _hs_histories(tier, **fixed):
    hues = (0, 1, 17, 18, 19, 120, 359, 360) if tier == "quick" else tuple(range(0, 361, 1))
    sats = (0, 50, 60, 100)
    if tier == "quick":
        for h1, s1, h2, s2 in itertools.product(hues, sats, hues, sats):
            yield ((h1, s1), (h2, s2))
    else:
        # every hue against its neighbours (the comparison that decides what is sent) and a far one
        for h1 in hues:
            for h2 in {max(0, h1 - 2), max(0, h1 - 1), h1, min(360, h1 + 1), min(360, h1 + 2), (h1 + 180) % 361}:
                for s1, s2 in itertools.product(sats, repeat=2):
                    yield ((h1, s1), (h2, s2))


@standin("C39", cases=_hs_histories, kind="enum-native", exhaustive=False, bound="Light with hue and saturation addresses, every history of two set_hs_color commands over 8 hues (neighbouring ones included) x 4 saturations (quick) / every hue 0..360 against its neighbours within 2 and one far hue x 4 saturations (thorough), looped back after each command: the light reports the nearest representable hue and saturation of the latest request")
def the_latest_hs_colour_is_reported_whatever_was_set_before(first, second):
    from xknx import XKNX
    from xknx.devices import Light
    from xknx.dpt import DPTAngle, DPTScaling

    async def body():
        xknx = XKNX()
        d = Light(xknx, "l", group_address_switch="1/1/4", group_address_hue="1/1/12", group_address_saturation="1/1/13")
        xknx.devices.async_add(d)
        for h, s_ in (first, second):
            await d.set_hs_color((h, s_))
            assert _drain(xknx) >= 1, ("nothing sent", first, second)
            want = (DPTAngle.from_knx(DPTAngle.to_knx(h)), DPTScaling.from_knx(DPTScaling.to_knx(s_)))
            assert d.current_hs_color == want, (first, second, "after", (h, s_), "reported", d.current_hs_color, "expected", want)

    _run(body())


# ------------------------------------------------------------------ loop back with a datapoint type configured for the address
# With a group address -> DPT table the telegram queue decodes the outgoing telegram eagerly and a remote value
# whose dpt_class is that type takes the decoded value instead of its own from_knx. That this is the same value
# is C38's lemma (a remote value's own decoder is its datapoint type's decoder - in particular RemoteValueScaling,
# which scales by its own range, declares none); it is an obligation of this property too.

from contracts import c38_eager_decoding as _c38  # noqa: E402
from pyvc.api import rely_on  # noqa: E402

rely_on("C39", _c38.own_decoder_is_the_datapoint_types_decoder)
