"""C34 - Telegram callbacks see exactly the telegrams they subscribed to."""

from contracts.world import Holder
from pyvc.api import Bool, Choice, Const, EnumOf, Int, ListOf, ListOfAny, LoopSpec, Obj, ghost, lemma
from xknx.core.telegram_queue import TelegramQueue
from xknx.telegram import Telegram, TelegramDirection
from xknx.telegram.address import GroupAddress, IndividualAddress, InternalGroupAddress


class StubFilter:
    """AddressFilter stand-in: whether it matches the telegram's destination is a free boolean
    (what a pattern matches is C02)."""

    def __init__(self, result):
        self.result = result

    def match(self, address):
        return self.result


class Recorder:
    """A user callback: records that it was called; `raises` makes it fail with an arbitrary Exception."""

    def __init__(self, raises):
        self.raises = raises

    def __call__(self, telegram):
        ghost("called").append(self)
        if self.raises:
            raise RuntimeError("user callback failed")


FILTER = Obj(StubFilter, result=Bool())
GA = Obj(GroupAddress, raw=Int(0, 0xFFFF))
CALLBACK = Obj(
    TelegramQueue.Callback,
    callback=Obj(Recorder, raises=Bool()),
    _match_all=Bool(),
    _match_outgoing=Bool(),
    address_filters=Choice(ListOf(), ListOf(FILTER), ListOf(FILTER, FILTER)),
    group_addresses=Choice(ListOf(), ListOf(GA), ListOf(GA, GA)),
)
DST = Choice(GA, Obj(IndividualAddress, raw=Int(0, 0xFFFF)), Obj(InternalGroupAddress, raw=Const("i-test")))
TELEGRAM = Obj(Telegram, destination_address=DST, direction=EnumOf(TelegramDirection), payload=None, source_address=Obj(IndividualAddress, raw=Int(0, 0xFFFF)), tpci=None, decoded_data=None, data_secure=None)


def subscribed(cb, telegram):
    """The statement: outgoing telegrams only if asked for; everything if no filter/addresses were
    given; otherwise a group or internal destination matched by a filter or listed."""
    if telegram.direction == TelegramDirection.OUTGOING and not cb._match_outgoing:
        return False
    if cb._match_all:
        return True
    if not isinstance(telegram.destination_address, (GroupAddress, InternalGroupAddress)):
        return False
    return any(f.result for f in cb.address_filters) or any(telegram.destination_address == g for g in cb.group_addresses)


@lemma("C34", params=dict(cb=CALLBACK, telegram=TELEGRAM))
def is_within_filter_means_subscribed(cb, telegram):
    assert cb.is_within_filter(telegram) == subscribed(cb, telegram)


# the loop over the registered callbacks, for a list of any length: one arbitrary callback is called
# exactly once iff it subscribed to the telegram, whether or not it raises; nothing escapes
LoopSpec(
    "TelegramQueue._run_telegram_received_cbs",
    0,
    modifies=[],
    invariant=lambda: True,
    post=lambda callback, telegram: (ghost("called") == [callback.callback]) if subscribed(callback, telegram) else (ghost("called") == []),
)

TQ = Obj(TelegramQueue, telegram_received_cbs=ListOfAny(CALLBACK), xknx=Obj(Holder))


@lemma("C34", params=dict(tq=TQ, telegram=TELEGRAM))
def every_subscribed_callback_is_called_once(tq, telegram):
    """For any number of registered callbacks: the loop visits each once in registration order (Python's
    for), and for an arbitrary one the body calls it exactly once iff it subscribed; an exception raised
    by a callback is contained, so the remaining callbacks (and, in process_telegram_*, device
    processing) still run."""
    tq._run_telegram_received_cbs(telegram)


class RecDevices:
    def process(self, telegram):
        ghost("devices").append(telegram)


TQ2 = Obj(TelegramQueue, telegram_received_cbs=ListOfAny(CALLBACK), xknx=Obj(Holder, devices=Const(RecDevices())))


@lemma("C34", params=dict(tq=TQ2, telegram=TELEGRAM))
def devices_are_processed_whatever_callbacks_do(tq, telegram):
    """process_telegram_incoming: after the callbacks (any number, raising or not) device processing
    still runs, exactly once."""
    from pyvc.api import run

    run(tq.process_telegram_incoming(telegram))
    assert ghost("devices") == [telegram]
