"""C34 - Telegram callbacks see exactly the telegrams they subscribed to."""

from contracts.world import Holder
from pyvc.api import Bool, Choice, Const, EnumOf, Int, ListOf, ListOfAny, LoopSpec, Obj, ghost, lemma
from xknx.core.telegram_queue import TelegramQueue
from xknx.telegram import Telegram, TelegramDirection
from xknx.telegram.address import GroupAddress, IndividualAddress, InternalGroupAddress


class StubFilter:
    """AddressFilter stand-in: whether it matches the telegram's destination is a free boolean
    (what a pattern matches is C02)."""

    def __init__(self, result):
        self.result = result

    def match(self, address):
        return self.result


class Recorder:
    """A user callback: records that it was called; `raises` makes it fail with an arbitrary Exception."""

    def __init__(self, raises):
        self.raises = raises

    def __call__(self, telegram):
        ghost("called").append(self)
        if self.raises:
            raise RuntimeError("user callback failed")


FILTER = Obj(StubFilter, result=Bool())
GA = Obj(GroupAddress, raw=Int(0, 0xFFFF))
CALLBACK = Obj(
    TelegramQueue.Callback,
    callback=Obj(Recorder, raises=Bool()),
    _match_all=Bool(),
    _match_outgoing=Bool(),
    address_filters=Choice(ListOf(), ListOf(FILTER), ListOf(FILTER, FILTER)),
    group_addresses=Choice(ListOf(), ListOf(GA), ListOf(GA, GA)),
)
DST = Choice(GA, Obj(IndividualAddress, raw=Int(0, 0xFFFF)), Obj(InternalGroupAddress, raw=Const("i-test")))
TELEGRAM = Obj(Telegram, destination_address=DST, direction=EnumOf(TelegramDirection), payload=None, source_address=Obj(IndividualAddress, raw=Int(0, 0xFFFF)), tpci=None, decoded_data=None, data_secure=None)


def subscribed(cb, telegram):
    """The statement: outgoing telegrams only if asked for; everything if no filter/addresses were
    given; otherwise a group or internal destination matched by a filter or listed."""
    if telegram.direction == TelegramDirection.OUTGOING and not cb._match_outgoing:
        return False
    if cb._match_all:
        return True
    if not isinstance(telegram.destination_address, (GroupAddress, InternalGroupAddress)):
        return False
    return any(f.result for f in cb.address_filters) or any(telegram.destination_address == g for g in cb.group_addresses)


@lemma("C34", params=dict(cb=CALLBACK, telegram=TELEGRAM))
def is_within_filter_means_subscribed(cb, telegram):
    assert cb.is_within_filter(telegram) == subscribed(cb, telegram)


# the loop over the registered callbacks, for a list of any length: one arbitrary callback is called
# exactly once iff it subscribed to the telegram, whether or not it raises; nothing escapes
LoopSpec(
    "TelegramQueue._run_telegram_received_cbs",
    0,
    modifies=[],
    invariant=lambda: True,
    post=lambda callback, telegram: (ghost("called") == [callback.callback]) if subscribed(callback, telegram) else (ghost("called") == []),
)

TQ = Obj(TelegramQueue, telegram_received_cbs=ListOfAny(CALLBACK), xknx=Obj(Holder))


@lemma("C34", params=dict(tq=TQ, telegram=TELEGRAM))
def every_subscribed_callback_is_called_once(tq, telegram):
    """For any number of registered callbacks: the loop visits each once in registration order (Python's
    for), and for an arbitrary one the body calls it exactly once iff it subscribed; an exception raised
    by a callback is contained, so the remaining callbacks (and, in process_telegram_*, device
    processing) still run."""
    tq._run_telegram_received_cbs(telegram)


class RecDevices:
    def process(self, telegram):
        ghost("devices").append(telegram)


TQ2 = Obj(TelegramQueue, telegram_received_cbs=ListOfAny(CALLBACK), xknx=Obj(Holder, devices=Const(RecDevices())))


@lemma("C34", params=dict(tq=TQ2, telegram=TELEGRAM))
def devices_are_processed_whatever_callbacks_do(tq, telegram):
    """process_telegram_incoming: after the callbacks (any number, raising or not) device processing
    still runs, exactly once."""
    from pyvc.api import run

    run(tq.process_telegram_incoming(telegram))
    assert ghost("devices") == [telegram]


# ------------------------------------------------------------------ stand-in: callbacks with real address filters

from fnmatch import fnmatchcase  # noqa: E402

from pyvc.api import standin  # noqa: E402
from xknx.telegram.address_filter import AddressFilter  # noqa: E402


def _real_filter_cases(tier, **fixed):
    group_patterns = ["1/2/3", "1/2/*", "1/*/3-5", "*/*/*", "2-3/0-1/255", "1/2/-3", "1/2/3-"]
    internal_patterns = ["i-test", "i-t?st", "i-Living*", "i-TEST", "i-*"]
    groups = [GroupAddress(r) for r in ((1 << 11) + (2 << 8) + 3, (1 << 11) + (2 << 8) + 4, (1 << 11) + (7 << 8) + 5, (2 << 11) + 255, (3 << 11) + (1 << 8) + 255, 1)]
    internals = [InternalGroupAddress(n) for n in ("i-test", "i-tast", "i-LivingRoom", "i-livingroom", "i-TEST", "i-Test")]
    for p in group_patterns + internal_patterns:
        for dst in groups + internals:
            for outgoing in (False, True):
                for match_outgoing in (False, True):
                    yield (p, dst, outgoing, match_outgoing)


def _ref_level(part, v):
    for item in part.split(","):
        if item == "*":
            return True
        if "-" in item:
            lo, hi = item.split("-")
            lo, hi = (int(lo) if lo else 0), (int(hi) if hi else 65535)
            if min(lo, hi) <= v <= max(lo, hi):
                return True
        elif int(item) == v:
            return True
    return False


@standin("C34", cases=_real_filter_cases, kind="enum-native", exhaustive=True, bound="12 filter patterns (3-level group patterns with ranges/wildcards; internal globs in lower and mixed case) x 12 destinations (6 group, 6 internal addresses differing in case) x direction x match_for_outgoing: a callback registered with the real AddressFilter is called iff the reference semantics of the pattern says so")
def callback_with_a_real_filter_sees_exactly_its_telegrams(pattern, dst, outgoing, match_outgoing):
    calls = []
    cb = TelegramQueue.Callback(calls.append, address_filters=[AddressFilter(pattern)], match_for_outgoing_telegrams=match_outgoing)
    t = Telegram(destination_address=dst, direction=TelegramDirection.OUTGOING if outgoing else TelegramDirection.INCOMING)
    if pattern.startswith("i"):
        want = isinstance(dst, InternalGroupAddress) and fnmatchcase(dst.raw, InternalGroupAddress(pattern).raw)
    else:
        parts = pattern.split("/")
        want = isinstance(dst, GroupAddress) and _ref_level(parts[0], dst.raw >> 11) and _ref_level(parts[1], (dst.raw >> 8) & 7) and _ref_level(parts[2], dst.raw & 255)
    if outgoing and not match_outgoing:
        want = False
    assert cb.is_within_filter(t) == bool(want), (pattern, str(dst), outgoing, match_outgoing)


# ------------------------------------------------------------------ registration: what "gave none" means


@lemma("C34", params=dict(filters=Choice(None, ListOf(), ListOf(FILTER)), addresses=Choice(None, ListOf(), ListOf(GA)), outgoing=Bool(), tq=Obj(TelegramQueue, telegram_received_cbs=Choice(ListOf(), ListOf(CALLBACK)), xknx=Obj(Holder))))
def a_callback_matches_everything_only_if_it_gave_neither_filters_nor_addresses(filters, addresses, outgoing, tq):
    """register_telegram_received_cb / Callback.__init__: the callback matches all telegrams exactly when
    neither address filters nor group addresses were given (None); an explicit list - also an empty one,
    which the owner may fill later - restricts it to that list. The lists are kept as given (not copied),
    the callback is appended once, returned, and unregistering removes exactly it."""
    before = list(tq.telegram_received_cbs)
    rec = Recorder(False)
    cb = tq.register_telegram_received_cb(rec, address_filters=filters, group_addresses=addresses, match_for_outgoing=outgoing)
    assert cb._match_all == (filters is None and addresses is None)
    assert cb._match_outgoing == outgoing and cb.callback is rec
    assert (cb.address_filters is filters) if filters is not None else (cb.address_filters == [])
    assert (cb.group_addresses is addresses) if addresses is not None else (cb.group_addresses == [])
    assert tq.telegram_received_cbs == before + [cb]
    tq.unregister_telegram_received_cb(cb)
    assert tq.telegram_received_cbs == before
