"""C16 - Tampered Data Secure frames are never delivered."""

from contracts.c15_data_secure_roundtrip import CRYPTO, FIELDS, KEY, SCF, TPCI, _secure
from pyvc.api import Bytes, EnumOf, Int, assume, lemma
from xknx.cemi.flags import CEMIAddressType, CEMIFrameFormat
from xknx.exceptions import DataSecureError
from xknx.secure.data_secure_asdu import SecureData, SecurityALService, SecurityControlField

FIELD_NAMES = ["key", "scf_service", "scf_system_broadcast", "scf_tool_access", "seq", "addr", "at", "ff", "tpci", "apdu", "mac"]


@lemma("C16", family=[dict(field=f) for f in FIELD_NAMES], params=dict(FIELDS, key2=KEY, svc2=EnumOf(SecurityALService), seq2=Int(0, (1 << 48) - 1), addr2=Bytes(length=4), at2=EnumOf(CEMIAddressType), ff2=EnumOf(CEMIFrameFormat), tpci2=TPCI, apdu2=Bytes(min_len=0, max_len=6), mac2=Bytes(length=4)), stubs=CRYPTO, max_paths=20000)
def tampering_with_a_protected_part_is_rejected(field, key, apdu, scf, seq, addr, at, ff, tpci, key2, svc2, seq2, addr2, at2, ff2, tpci2, apdu2, mac2):
    """One protected part at a time is replaced by any other value - the key, the security control field,
    the sequence number, source/destination address, address type, extended frame format, the transport
    PDU's encoding, the secured APDU octets (also their number) or the MAC: get_plain_apdu raises
    DataSecureError for both algorithms. (Ideal MAC / CTR model: contracts/crypto_model.py.)"""
    sd = _secure(key, apdu, scf, seq, addr, at, ff, tpci)
    rx = SecureData(sequence_number_bytes=sd.sequence_number_bytes, secured_apdu=sd.secured_apdu, message_authentication_code=sd.message_authentication_code)
    if field == "key":
        assume(key2 != key)
        key = key2
    elif field == "scf_service":
        assume(svc2 != scf.service)
        scf = SecurityControlField(algorithm=scf.algorithm, service=svc2, system_broadcast=scf.system_broadcast, tool_access=scf.tool_access)
    elif field == "scf_system_broadcast":
        scf = SecurityControlField(algorithm=scf.algorithm, service=scf.service, system_broadcast=not scf.system_broadcast, tool_access=scf.tool_access)
    elif field == "scf_tool_access":
        scf = SecurityControlField(algorithm=scf.algorithm, service=scf.service, system_broadcast=scf.system_broadcast, tool_access=not scf.tool_access)
    elif field == "seq":
        assume(seq2 != seq)
        rx.sequence_number_bytes = seq2.to_bytes(6, "big")
    elif field == "addr":
        assume(addr2 != addr)
        addr = addr2
    elif field == "at":
        assume(at2 != at)
        at = at2
    elif field == "ff":
        assume(ff2 != ff)
        ff = ff2
    elif field == "tpci":
        assume(tpci2.to_knx() != tpci.to_knx())
        tpci = tpci2
    elif field == "apdu":
        assume(apdu2 != sd.secured_apdu)
        rx.secured_apdu = apdu2
    else:
        assume(mac2 != sd.message_authentication_code)
        rx.message_authentication_code = mac2
    try:
        rx.get_plain_apdu(key=key, scf=scf, address_fields_raw=addr, address_type=at, frame_format=ff, tpci=tpci)
    except DataSecureError:
        return
    assert False, "a tampered frame was accepted"


@lemma("C16", params=dict(FIELDS, scf2=SCF), stubs=CRYPTO)
def changing_the_algorithm_is_rejected(key, apdu, scf, seq, addr, at, ff, tpci, scf2):
    """Receiving with the other algorithm bit (encrypted frame read as authentication-only or vice versa)
    is rejected as well."""
    assume(scf2.algorithm != scf.algorithm)
    sd = _secure(key, apdu, scf, seq, addr, at, ff, tpci)
    try:
        sd.get_plain_apdu(key=key, scf=scf2, address_fields_raw=addr, address_type=at, frame_format=ff, tpci=tpci)
    except DataSecureError:
        return
    assert False, "a frame read with the other algorithm was accepted"


# ------------------------------------------------------------------ what the receiver feeds into the check

from contracts.c17_sequence import DS, SAPDU  # noqa: E402
from contracts.cemi_common import APCI_STUBS  # noqa: E402
from pyvc.api import Bool, Choice, Const, Obj, ghost  # noqa: E402
from xknx.cemi.cemi_frame import CEMILData  # noqa: E402
from xknx.cemi.flags import CEMIFlags, CEMIFrameType, CEMIPriority  # noqa: E402
from xknx.telegram.address import GroupAddress, IndividualAddress  # noqa: E402
from xknx.telegram.tpci import TDataBroadcast, TDataGroup, TDataTagGroup  # noqa: E402


def _record_get_plain_apdu(self, key, scf, address_fields_raw, address_type, frame_format, tpci):
    ghost("checked").append((self, key, scf, address_fields_raw, address_type, frame_format, tpci))
    return b"\x00\x80"


FLAGS = Obj(
    CEMIFlags,
    priority=EnumOf(CEMIPriority),
    repeat_on_error=Bool(),
    system_broadcast=Bool(),
    acknowledge_request=Bool(),
    confirm_error=Bool(),
    hop_count=Int(0, 7),
    frame_type=EnumOf(CEMIFrameType),
    frame_format=EnumOf(CEMIFrameFormat),
)
RX_FRAME = Obj(
    CEMILData,
    flags=FLAGS,
    src_addr=Obj(IndividualAddress, raw=Int(0, 0xFFFF)),
    dst_addr=Obj(GroupAddress, raw=Int(0, 0xFFFF)),
    tpci=Choice(Const(TDataGroup()), Const(TDataBroadcast()), Const(TDataTagGroup())),
    payload=SAPDU,
)


@lemma("C16", params=dict(ds=DS, frame=RX_FRAME), stubs=APCI_STUBS + [(SecureData, "get_plain_apdu", _record_get_plain_apdu)])
def the_check_sees_every_protected_part_and_no_unprotected_bit(ds, frame):
    """DataSecure.received_cemi, any frame: what is handed to SecureData.get_plain_apdu is the received
    secured data itself, the key stored for the destination group address, the received security control
    field, source | destination address octets, the address type, the extended frame format and the
    transport PDU - every protected part, so a change to any of them changes the check's input (lemmas
    above) - and nothing else: priority, repeat flag, hop count, frame type, acknowledge and confirm bits
    do not appear, so they cannot affect acceptance."""
    try:
        ds.received_cemi(frame)
    except DataSecureError:
        pass
    for sd, key, scf, addr, at, ff, tpci in ghost("checked"):
        assert sd is frame.payload.secured_data and scf is frame.payload.scf
        assert key == ds._group_key_table[frame.dst_addr]
        assert addr == frame.src_addr.to_knx() + frame.dst_addr.to_knx()
        assert at == CEMIAddressType.GROUP
        assert ff == frame.flags.frame_format and tpci is frame.tpci
    assert len(ghost("checked")) <= 1


ASSUMPTIONS = [
    "ideal-cipher model of AES-CBC-MAC / AES-CTR (contracts/crypto_model.py): no MAC collisions (also not on 32 transmitted bits), CTR decryption inverse to encryption under the same key and counter block and unrelated otherwise; 2^-32 / 2^-128 events treated as impossible",
]


# ------------------------------------------------------------------ what the lemmas above rely on: the parsed SCF is the received octet

from xknx.secure.data_secure_asdu import SecurityControlField as _SCF  # noqa: E402


@lemma("C16", params=dict(octet=Int(0, 255)))
def the_parsed_security_control_field_stands_for_the_received_octet(octet):
    """The receiver authenticates the *parsed* security control field (re-serialized in block 0 / the MAC
    input). That protects the received octet only if parsing loses nothing: every octet is refused
    (reserved algorithm / service: ValueError, turned into a parse error by APCI.from_knx) or parses to a
    field that serializes to exactly this octet - so a changed bit is either refused or changes the MAC
    input."""
    try:
        scf = _SCF.from_knx(octet)
    except ValueError:
        return
    assert scf.to_knx() == bytes([octet])


# ... and the parsed transport control stands for the received octet (C03, every octet and destination kind):
# the receiver authenticates tpci.to_knx() of what TPCI.resolve returned

from contracts import c03_tpci as _c03  # noqa: E402
from pyvc.api import rely_on  # noqa: E402

rely_on("C16", _c03.decode_then_encode)
