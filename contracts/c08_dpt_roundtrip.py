"""C08 - Every decoded datapoint value re-encodes to a payload with the same meaning."""

from contracts.dpt_common import dpt_classes, float_classes, int_classes_no_text, text_classes
from pyvc.api import ByteTuple, Choice, Int, Obj, lemma
from xknx.dpt import DPTArray, DPTBinary
from xknx.exceptions import ConversionError, CouldNotParseTelegram

PAYLOAD = Choice(Obj(DPTBinary, value=Int(0, 0x3F)), Obj(DPTArray, value=ByteTuple()))


def same_value(a, b):
    """Equality of decoded values; two NaNs count as the same value."""
    if isinstance(a, float) and isinstance(b, float) and a != a and b != b:
        return True
    return a == b


@lemma("C08", params=dict(payload=PAYLOAD), family=lambda: [dict(T=c) for c in int_classes_no_text()])
def decode_encode_decode(T, payload):
    """Whatever a type decodes, its own encoder accepts, and the new payload decodes to the same value."""
    try:
        v = T.from_knx(payload)
    except (CouldNotParseTelegram, ConversionError):
        return
    q = T.to_knx(v)
    assert same_value(T.from_knx(q), v)


# ----------------------------------------------------------------------------- text types (stand-in)

import os  # noqa: E402
import random  # noqa: E402

from pyvc.api import standin  # noqa: E402


def _text_cases(tier, T):
    """Every octet value in every position over three backgrounds, plus seeded random payloads."""
    rnd = random.Random(int(os.environ.get("VERIF_SEED", "0") or 0))
    if True:
        n = T.payload_length
        for bg in (0x00, 0x41, 0xE9):
            for pos in range(n):
                for val in range(256):
                    p = [bg] * n
                    p[pos] = val
                    yield (T, tuple(p))
        for _ in range(2000 if tier == "quick" else 50000):
            yield (T, tuple(rnd.choice((0, 0x20, 0x41, 0x7F, 0x80, 0xFF, rnd.randrange(256))) for _ in range(n)))


@standin("C08", cases=_text_cases, family=lambda: [dict(T=c) for c in text_classes()], kind="enum-native", exhaustive=False, bound="text types DPT 4.xxx / 16.xxx: each octet value in each position over 3 backgrounds + seeded random payloads; not all 256**14 payloads")
def text_roundtrip(T, octets):
    """Decoded text re-encodes and decodes to itself, except that characters the type cannot decode
    (U+FFFD) come back as '?' - the documented replacement."""
    v = T.from_knx(DPTArray(octets))
    q = T.to_knx(v)
    assert T.from_knx(q) == v.replace("�", "?"), (T.__name__, octets, v)


# ----------------------------------------------------------------------------- float codecs (stand-ins)


def _roundtrip(T, octets):
    p = DPTArray(octets)
    try:
        v = T.from_knx(p)
    except (CouldNotParseTelegram, ConversionError):
        return
    q = T.to_knx(v)
    assert same_value(T.from_knx(q), v), (T.__name__, octets, v, q)


def _small_float_classes():
    return [c for c in float_classes() if c.payload_type is DPTArray and c.payload_length <= 2]


def _all_payloads(tier, T):
    n = T.payload_length
    for x in range(256**n):
        yield (T, tuple(x.to_bytes(n, "big")))


@standin("C08", cases=_all_payloads, family=lambda: [dict(T=c) for c in _small_float_classes()], kind="enum-native", exhaustive=True, bound="all 256 / 65536 payloads of the float-computing 1 and 2 octet types (DPT 5.001, 5.003, 8.xxx, 9.xxx)")
def small_float_roundtrip(T, octets):
    _roundtrip(T, octets)


def _float32_patterns(tier, rnd):
    mant = [0, 1, 2, 3, 0x7FFFFF, 0x7FFFFE, 0x400000, 0x400001, 0x3FFFFF, 0x200000, 0x555555, 0x2AAAAA, 0x000100, 0x7F0000]
    mant += [1 << k for k in range(23)]
    mant += [rnd.randrange(1 << 23) for _ in range(24 if tier == "quick" else 400)]
    for sign in (0, 1):
        for exp in range(256):
            for m in mant:
                yield ((sign << 31) | (exp << 23) | m).to_bytes(4, "big")
    for _ in range(20000 if tier == "quick" else 2000000):
        yield rnd.randrange(1 << 32).to_bytes(4, "big")


def _dpt14_cases(tier):
    from xknx.dpt.dpt_14 import DPT4ByteFloat

    rnd = random.Random(int(os.environ.get("VERIF_SEED", "0") or 0))
    # one implementation serves all 84 classes: checked here, then exercised once
    for c in float_classes():
        if c.__module__.endswith("dpt_14"):
            assert c.from_knx.__func__ is DPT4ByteFloat.from_knx.__func__ and c.to_knx.__func__ is DPT4ByteFloat.to_knx.__func__, c
    for b in _float32_patterns(tier, rnd):
        yield (DPT4ByteFloat, tuple(b))


@standin("C08", cases=_dpt14_cases, kind="enum-native", exhaustive=False, bound="DPT 14.xxx (one shared body, round(x, 7-ceil(log10|x|)) has no encoding): every sign/exponent with 60+ mantissa patterns + seeded random 32 bit payloads; not all 2**32")
def dpt14_roundtrip(T, octets):
    _roundtrip(T, octets)


def _six_octet_cases(tier, T):
    """DPT 242.600 / 243.600 / 249.600: each 16 bit field exhaustively, the others from a sample set."""
    rnd = random.Random(int(os.environ.get("VERIF_SEED", "0") or 0))
    n = T.payload_length
    samples = [0, 1, 0x7FFF, 0x8000, 0xFFFE, 0xFFFF, 0x1234]
    for field_at in range(0, n - 1, 2):
        for val in range(65536):
            for other in samples[: (3 if tier == "quick" else len(samples))]:
                p = list(other.to_bytes(2, "big") * (n // 2 + 1))[:n]
                p[field_at : field_at + 2] = val.to_bytes(2, "big")
                for flags in (0x00, 0x01, 0x02, 0x03, 0x07, 0xFF):
                    p[n - 1] = flags
                    yield (T, tuple(p))
    for _ in range(20000):
        yield (T, tuple(rnd.randrange(256) for _ in range(n)))


@standin("C08", cases=_six_octet_cases, family=lambda: [dict(T=c) for c in float_classes() if c.payload_type is DPTArray and c.payload_length > 4], kind="enum-native", exhaustive=False, bound="DPT 242/243/249.600 (round(x, 5) / round(x, 1) have no encoding): every value of each 16 bit field with the other fields from a sample set and all validity-flag patterns + seeded random payloads")
def six_octet_roundtrip(T, octets):
    _roundtrip(T, octets)


# ------------------------------------------------------------------ partially valid colours: the merge that carries the last valid fields

from pyvc.api import Choice as _Choice, Int as _Int  # noqa: E402
from xknx.dpt.dpt_242 import XYYColor as _XYY  # noqa: E402
from xknx.dpt.dpt_251 import RGBWColor as _RGBW  # noqa: E402

_CH = _Choice(None, _Int(0, 255))


@lemma("C08", params=dict(r1=_CH, g1=_CH, b1=_CH, w1=_CH, r2=_CH, g2=_CH, b2=_CH, w2=_CH))
def rgbw_merge_takes_every_valid_field_also_zero(r1, g1, b1, w1, r2, g2, b2, w2):
    """RGBWColor.__or__ (what RemoteValueColorRGBW / Light use to keep the last valid channels of DPT 251.600
    between telegrams): every field of the newer value that is valid - 0 included - replaces the older one,
    an invalid (None) field keeps it; so a fully valid payload decodes, merges and re-encodes to the same
    meaning whatever came before."""
    m = _RGBW(r1, g1, b1, w1) | _RGBW(r2, g2, b2, w2)
    assert m.red == (r2 if r2 is not None else r1)
    assert m.green == (g2 if g2 is not None else g1)
    assert m.blue == (b2 if b2 is not None else b1)
    assert m.white == (w2 if w2 is not None else w1)
    if None not in (r2, g2, b2, w2):
        assert m == _RGBW(r2, g2, b2, w2)


@lemma("C08", params=dict(x1=_Choice(None, _Int(0, 65535)), br1=_CH, x2=_Choice(None, _Int(0, 65535)), br2=_CH))
def xyy_merge_takes_every_valid_field_also_zero(x1, br1, x2, br2):
    """XYYColor.__or__ likewise (DPT 242.600; the colour is a pair, here (x, x))."""
    c1 = None if x1 is None else (x1, x1)
    c2 = None if x2 is None else (x2, x2)
    m = _XYY(c1, br1) | _XYY(c2, br2)
    assert m.color == (c2 if c2 is not None else c1)
    assert m.brightness == (br2 if br2 is not None else br1)
