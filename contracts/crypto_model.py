"""
Symbolic ("ideal") model of the AES constructions used by KNX Secure, as executable contract stubs.

 * CBC-MAC  H(key, additional_data, payload, block_0): an unknown function without collisions on the
   calls observed in one run - equal arguments give the equal tag, different arguments a different tag
   (also different in its first 4 octets, the part Data Secure transmits).
 * CTR      with one key and counter block the keystream is fixed: decrypting exactly what was encrypted
   gives the plaintext back, decrypting anything else of the same length gives something else; with
   another key or counter block the result is unrelated (and, idealised, never a valid tag).

Nothing about AES itself is assumed beyond these algebraic facts; they are the usual Dolev-Yao style
idealisation (2^-32 / 2^-128 collision probabilities are treated as 0) and are listed as assumptions.
"""

from pyvc.api import assume, ghost, nondet_bytes


def _fresh(n, avoid):
    b = nondet_bytes(n)
    assume(len(b) == n)
    for a in avoid:
        if len(a) >= 4 and n >= 4:
            assume(b[:4] != a[:4])
        elif len(a) == n:
            assume(b != a)
    return b


def mac_cbc(key, additional_data, payload=b"", block_0=bytes(16)):
    args = (bytes(key), bytes(additional_data), bytes(payload), bytes(block_0))
    table = ghost("H")
    for a, out in table:
        if a == args:
            return out
    out = _fresh(16, [o for _, o in table] + list(ghost("tags")))
    table.append((args, out))
    ghost("tags").append(out)
    return out


def encrypt_ctr(key, counter_0, mac_cbc, payload=b""):
    payload = bytes(payload)
    table = ghost("CTR")
    mac_out = _fresh(len(mac_cbc), list(ghost("tags")))  # (an encrypted tag is pseudo-random: never a valid tag of something else)
    ghost("tags").append(mac_out)
    enc_out = nondet_bytes(len(payload))
    assume(len(enc_out) == len(payload))
    table.append((bytes(key), bytes(counter_0), bytes(mac_cbc), payload, mac_out, enc_out))
    return enc_out, mac_out


def decrypt_ctr(key, counter_0, mac, payload=b""):
    payload = bytes(payload)
    for k, c0, mac_plain, plain, mac_out, enc_out in ghost("CTR"):
        if k == key and c0 == counter_0 and len(mac) == len(mac_out) and len(payload) == len(enc_out):
            if mac == mac_out:
                mac_tr = mac_plain
            else:
                mac_tr = _fresh(len(mac), [mac_plain] + list(ghost("tags")))
                ghost("tags").append(mac_tr)
            if payload == enc_out:
                dec = plain
            else:
                dec = nondet_bytes(len(payload))
                assume(len(dec) == len(payload) and dec != plain)
            return dec, mac_tr
    # another key / counter block: unrelated keystream
    mac_tr = _fresh(len(mac), list(ghost("tags")))
    ghost("tags").append(mac_tr)
    dec = nondet_bytes(len(payload))
    assume(len(dec) == len(payload))
    return dec, mac_tr
