"""C45 - MCP tools return JSON-native results and invert each other."""

import asyncio
import dataclasses
import itertools
import json
import os
import random

from contracts.dpt_common import dpt_classes
from pyvc.api import Bool, Bytes, Choice, Const, EnumOf, Float, Int, TupleOf, lemma, standin
from xknx.dpt import DPTArray, DPTBinary
from xknx.dpt.dpt_1 import Switch
from xknx.dpt.dpt_20 import HVACOperationMode
from xknx.exceptions import ConversionError, CouldNotParseTelegram
from xknx.mcp import tools
from xknx.mcp.types import DecodeDptPayloadInput, DptFilter, EncodeDptPayloadInput


@lemma("C45", params=dict(items=Bytes(), limit=Int(), offset=Int(0, 10**6)))
def paginate_step(items, limit, offset):
    """One page of any sequence (slicing is the same for every sequence type; octets stand for the
    items): the window is the contiguous run starting at `offset`; `limit_reached` says exactly whether
    items remain after it; and a page that announces more is not empty - so following
    next_offset = offset + len(window) from 0 visits every index exactly once and terminates."""
    window, more = tools._paginate(items, limit, offset)
    n, k = len(items), len(window)
    assert bytes(window) == bytes(items[offset : offset + k])
    assert more == (offset + k < n)
    if more:
        assert k > 0


def json_native(v):
    if v is None or isinstance(v, (bool, int, float, str)):
        return True
    if isinstance(v, list):
        return all(json_native(x) for x in v)
    if isinstance(v, dict):
        return all(isinstance(k, str) and json_native(x) for k, x in v.items())
    return False


SCALAR = Choice(None, Bool(), Int(), Float(finite=False), Const("text"))
VALUE = Choice(
    None,
    Bool(),
    Int(),
    Float(finite=False),
    Const("text"),
    EnumOf(Switch),
    EnumOf(HVACOperationMode),
    TupleOf(Int(), Int(), Int()),
    TupleOf(Float(), Float()),
    TupleOf(TupleOf(Int(), EnumOf(Switch)), Const(None)),
)


@lemma("C45", params=dict(value=VALUE))
def jsonify_returns_json_native(value):
    """_jsonify over the scalar / enum / (nested) tuple shapes transcoders return: only None, bool,
    int, float, str, list and str-keyed dict come out (complex values: see the stand-in below)."""
    assert json_native(tools._jsonify(value))


# ----------------------------------------------------------------------------- stand-ins over the DPT registry


def _payload_samples(T, rnd, count):
    if T.payload_type is DPTBinary:
        for v in range(1 << T.payload_length):
            yield v
        return
    n = T.payload_length
    fixed = [bytes(n), b"\xff" * n, b"\x01" * n, b"\x7f" * n, b"\x80" * n]
    for b in fixed:
        yield list(b)
    if n <= 1:
        for v in range(256):
            yield [v]
        return
    # field boundaries: every octet at one of its extremes (a zero field next to set validity bits is the case a
    # truthiness test in a parser of the JSON form mistakes for "missing")
    if n <= 8:
        for combo in itertools.product((0x00, 0xFF) if (n > 6 or count < 100) else (0x00, 0x01, 0xFF), repeat=n):
            yield list(combo)
    for _ in range(count):
        yield [rnd.randrange(256) for _ in range(n)]


def _tool_cases(tier):
    rnd = random.Random(int(os.environ.get("VERIF_SEED", "0") or 0))
    for T in dpt_classes():
        for p in _payload_samples(T, rnd, 60 if tier == "quick" else 2000):
            yield (T, p)


@standin("C45", cases=_tool_cases, kind="enum-native", exhaustive=False, bound="every registered DPT x (all binary payloads / all 1 octet payloads / 5 fixed + every octet at 0x00/0xFF (thorough, up to 6 octets: 0x00/0x01/0xFF) for types up to 8 octets + seeded random payloads for longer types)")
def decode_encode_decode_through_the_tools(T, payload):
    """decode_dpt_payload gives a JSON-serialisable result; feeding its value (after a JSON round trip)
    to encode_dpt_payload and decoding again returns the same value."""
    name = T.dpt_number_str() if T.has_distinct_dpt_numbers() else T.value_type
    if name is None:
        return
    try:
        d = asyncio.run(tools.decode_dpt_payload(DecodeDptPayloadInput(payload=payload, value_type=name)))
    except (ConversionError, CouldNotParseTelegram):
        return
    text = json.dumps(dataclasses.asdict(d), allow_nan=True)
    value = json.loads(text)["value"]
    e = asyncio.run(tools.encode_dpt_payload(EncodeDptPayloadInput(value=value, value_type=name)))
    json.dumps(dataclasses.asdict(e))
    d2 = asyncio.run(tools.decode_dpt_payload(DecodeDptPayloadInput(payload=e.payload, value_type=name)))
    a, b = json.loads(json.dumps(dataclasses.asdict(d2)))["value"], value
    if isinstance(b, str):
        b = b.replace("�", "?")  # documented character replacement of the text types
    assert a == b or (a != a and b != b), (name, payload, value, e.payload, a)


def _listing_cases(tier):
    rnd = random.Random(int(os.environ.get("VERIF_SEED", "0") or 0))
    mains = sorted({c.dpt_main_number for c in dpt_classes()})
    texts = [None, "", "temp", "%", "9.", "percent", "xyz-no-match", "1"]
    for main in [None] + mains:
        for text in texts:
            for limit in (1, 2, 3, 7, 50, 200, 1000, -1):
                yield (main, text, limit)
    for _ in range(200 if tier == "quick" else 5000):
        yield (rnd.choice([None] + mains), rnd.choice(texts), rnd.choice([-5, 1, 2, 5, 13, 64, 300]))


@standin("C45", cases=_listing_cases, kind="enum-native", exhaustive=False, bound="list_dpts over every main number x 8 text filters x 8 page sizes + seeded random combinations; describe_dpt over all listed types")
def listing_pages_cover_every_type_once(main, text, limit):
    full = asyncio.run(tools.list_dpts(DptFilter(main=main, text=text, limit=-1)))
    expected = [d.dpt + "|" + str(d.value_type) for d in full.dpts]
    seen = []
    offset = 0
    for _ in range(len(expected) + 2):
        page = asyncio.run(tools.list_dpts(DptFilter(main=main, text=text, limit=limit, offset=offset)))
        json.dumps(dataclasses.asdict(page))
        seen.extend(d.dpt + "|" + str(d.value_type) for d in page.dpts)
        assert page.total_count == len(expected)
        if page.next_offset is None:
            break
        assert page.next_offset > offset
        offset = page.next_offset
    assert seen == expected, (main, text, limit)
    for d in full.dpts[:3]:
        json.dumps(dataclasses.asdict(asyncio.run(tools.describe_dpt(d.dpt))))
