"""C42 - Timed resets and press counters behave as configured."""

import asyncio
import time
import warnings

import xknx.devices.binary_sensor as bs_mod
import xknx.devices.switch as sw_mod
from contracts.world import Holder, World
from pyvc.api import Bool, Choice, Const, Float, Int, Obj, assume, ghost, lemma, nondet, run
from xknx.core import Task
from xknx.devices import BinarySensor, Switch
from xknx.devices.device import Device
from xknx.telegram import GroupAddress, Telegram
from xknx.telegram.apci import GroupValueResponse, GroupValueWrite

warnings.filterwarnings("ignore", message="coroutine .* was never awaited")


def _clock():
    return ghost("now")[-1]


class RecRegistry:
    """task_registry stand-in; start_task's contract is C36: the running instance is replaced by a new
    one, which sleeps wait_before_start and then runs the target once."""

    def start_task(self, task):
        ghost("started").append(task)

    def remove_task(self, task):
        ghost("removed").append(task)


def _after_update(self, *args):
    ghost("updates").append((self._count_set_on, self._count_set_off) if isinstance(self, BinarySensor) else None)


class StubRemoteValue:
    """RemoteValueSwitch stand-in with the part of RemoteValue.process's contract used here: a telegram
    is either not for this value / not decodable (False, nothing happens) or accepted: the decoded value
    is stored and - when it changed, was unknown or always_callback - handed to after_update_cb."""

    def __init__(self, accepted, decoded, value, telegram, after_update_cb):
        self.accepted, self.decoded, self.value, self.telegram, self.after_update_cb = accepted, decoded, value, telegram, after_update_cb

    def process(self, telegram, always_callback=False):
        if not self.accepted:
            return False
        if self.value is None or always_callback or self.value != self.decoded:
            self.value = self.decoded
            self.telegram = telegram
            if self.after_update_cb is not None:
                self.after_update_cb(self.decoded)
        return True

    def off(self):
        ghost("switched").append(False)

    def on(self):
        ghost("switched").append(True)


class Handle:
    """asyncio.Task handle of a task instance: running (done() False) or finished."""

    def __init__(self, finished):
        self.finished = finished

    def done(self):
        return self.finished

    def cancel(self):
        ghost("cancelled").append(self)


TIMEOUT = Float(lo=0.001, hi=100000.0)
COUNT = Int(0, 1000000)
XK = Obj(World, task_registry=Const(RecRegistry()))
WRITE = Obj(Telegram, destination_address=Const(GroupAddress(1)), direction=None, payload=Obj(GroupValueWrite, value=None), source_address=None, tpci=None, decoded_data=None, data_secure=None)
RESPONSE = Obj(Telegram, destination_address=Const(GroupAddress(1)), direction=None, payload=Obj(GroupValueResponse, value=None), source_address=None, tpci=None, decoded_data=None, data_secure=None)


def sensor_spec(context):
    return Obj(
        BinarySensor,
        xknx=XK,
        name="s",
        device_updated_cbs=Const([]),
        ignore_internal_state=Const(True) if context else Bool(),
        always_callback=Bool(),
        state=Choice(None, True, False),
        _context_timeout=TIMEOUT if context else None,
        _count_set_on=COUNT,
        _count_set_off=COUNT,
        _last_set=Choice(None, Float(lo=0.0, hi=4.0e9)),
        _reset_task=Choice(None, Obj(Task, name="reset", target=None, restart_after_reconnect=False, wait_before_start=TIMEOUT, wait_for_connection=False, repeat_after=None, _task=Choice(None, Obj(Handle, finished=Bool())), xknx=None)),
        _context_task=Obj(Task, name="context", target=None, restart_after_reconnect=False, wait_before_start=TIMEOUT, wait_for_connection=False, repeat_after=None, _task=Choice(None, Obj(Handle, finished=Bool())), xknx=None) if context else None,
        remote_value=Obj(StubRemoteValue, accepted=Bool(), decoded=Bool(), value=Choice(None, True, False), telegram=Choice(None, WRITE, RESPONSE), after_update_cb=None),
    )


STUBS = [(time, "time", _clock), (Device, "after_update", _after_update)]

# ------------------------------------------------------------------ press counter


@lemma("C42", params=dict(s=sensor_spec(True), now=Float(lo=0.0, hi=4.0e9), state=Bool()), stubs=STUBS, float_mode="real")
def counter_follows_the_reference_model(s, now, state):
    """bump_and_get_counter(state) at clock reading `now` (not before the previous telegram), any counter
    state. Reference: a telegram continues the current context iff a previous one exists and arrived less
    than context_timeout ago; then the count of its own state grows by one (the other count is kept);
    otherwise a new context starts with count 1 for its state and 0 for the other. The time of this
    telegram becomes the reference for the next one."""
    assume(s._last_set is None or s._last_set <= now)
    ghost("now").append(now)
    last, on, off = s._last_set, s._count_set_on, s._count_set_off
    r = s.bump_and_get_counter(state)
    within = last is not None and now - last < s._context_timeout
    if within:
        assert s._count_set_on == (on + 1 if state else on)
        assert s._count_set_off == (off if state else off + 1)
    else:
        assert s._count_set_on == (1 if state else 0)
        assert s._count_set_off == (0 if state else 1)
    assert r == (s._count_set_on if state else s._count_set_off)
    assert s._last_set == now
    s.state = state
    assert s.counter == r


@lemma("C42", params=dict(s=sensor_spec(True), now=Float(lo=0.0, hi=4.0e9), state=Bool()), stubs=STUBS, float_mode="real")
def every_telegram_is_counted_and_restarts_the_context_window(s, now, state):
    """A sensor with context timeout: each state telegram (GroupValueWrite is always a new event) sets the
    state, bumps the counter once and restarts the context task - whose target (_counter_task) reports
    the count and then resets it; no direct callback happens before the window has passed."""
    assume(s._last_set is None or s._last_set <= now)
    assume(s.remote_value.telegram is not None and isinstance(s.remote_value.telegram.payload, GroupValueWrite))
    ghost("now").append(now)
    on, off = s._count_set_on, s._count_set_off
    s._set_internal_state(state)
    assert s.state == state
    assert ghost("started") == [s._context_task]
    assert ghost("updates") == []
    assert s._count_set_on + s._count_set_off >= 1
    assert (s._count_set_on, s._count_set_off) != (on, off) or (on, off) in ((1, 0), (0, 1))
    run(s._counter_task(s._context_timeout))
    assert len(ghost("updates")) == 2 and ghost("updates")[1] == (0, 0) and ghost("updates")[0] != (0, 0)
    assert s._count_set_on == 0 and s._count_set_off == 0


# ------------------------------------------------------------------ reset after


@lemma("C42", params=dict(s=sensor_spec(False), t=Choice(WRITE, RESPONSE)), stubs=STUBS)
def sensor_reset_timer_restarts_on_every_on(s, t):
    """BinarySensor without context, whether or not a reset timer is already running: an accepted 'on'
    telegram (write or response) starts the reset task exactly once - start_task replaces a running
    instance, so the timer restarts (C36) - an 'off' or a telegram that is not accepted starts nothing."""
    s.remote_value.after_update_cb = s._set_internal_state
    assume(s.state == s.remote_value.value)
    if isinstance(t.payload, GroupValueWrite):
        s.process_group_write(t)
    else:
        s.process_group_response(t)
    rv = s.remote_value
    if rv.accepted and s._reset_task is not None and s.state:
        assert ghost("started") == [s._reset_task]
    else:
        assert ghost("started") == []
    if rv.accepted and isinstance(t.payload, GroupValueWrite):
        assert s.state == rv.decoded


class FakeRV(StubRemoteValue):
    """Constructor-compatible stand-in for RemoteValueSwitch(...)."""

    def __init__(self, xknx, group_address=None, group_address_state=None, sync_state=True, invert=False, device_name=None, after_update_cb=None):
        StubRemoteValue.__init__(self, True, True, None, None, after_update_cb)


async def _sleep(delay, result=None):
    ghost("slept").append(delay)


@lemma("C42", params=dict(reset_after=TIMEOUT), stubs=STUBS + [(bs_mod, "RemoteValueSwitch", FakeRV), (asyncio, "sleep", _sleep)])
def sensor_reset_task_waits_reset_after_then_reports_off(reset_after):
    """The constructor wires the reset task: its instance coroutine sleeps exactly reset_after seconds and
    then sets the state to off (and calls back); one run, no repetition."""
    xk = World()
    xk.task_registry = RecRegistry()
    s = BinarySensor(xk, "s", group_address_state=None, reset_after=reset_after)
    assert s._context_task is None and s._reset_task is not None
    s.state = True
    s._reset_task.xknx = xk
    run(s._reset_task._start_internal())
    assert ghost("slept") == [reset_after]
    assert s.state is False and len(ghost("updates")) == 1


@lemma("C42", params=dict(reset_after=TIMEOUT, accepted=Bool(), decoded=Bool(), raw=Int(0, 1)), stubs=STUBS + [(sw_mod, "RemoteValueSwitch", FakeRV), (asyncio, "sleep", _sleep)])
def switch_reset_task_waits_reset_after_then_switches_off(reset_after, accepted, decoded, raw):
    """Switch: an accepted 'on' write starts the reset task once (restart = C36), anything else starts
    nothing; the task sleeps exactly reset_after and then switches off. 'On' is the decoded value of the
    switch, whatever bit the telegram carries (an inverted switch receives 'on' as 0)."""
    xk = World()
    xk.task_registry = RecRegistry()
    sw = Switch(xk, "sw", group_address=None, reset_after=reset_after)
    sw.switch.accepted, sw.switch.decoded = accepted, decoded
    t = Telegram(destination_address=GroupAddress(1), payload=GroupValueWrite(DPTBinary(raw)))
    sw.process_group_write(t)
    if accepted and decoded:
        assert ghost("started") == [sw._reset_task]
    else:
        assert ghost("started") == []
    sw._reset_task.xknx = xk
    run(sw._reset_task._start_internal())
    assert ghost("slept") == [reset_after] and ghost("switched") == [False]


ASSUMPTIONS = [
    "asyncio is trusted behind the contract stubs: a cancelled task/future does not continue, asyncio.timeout cancels what it guards, locks are mutually exclusive, queues are FIFO, tasks switch only at awaits; interleavings inside one await are represented by 'the awaited object completes with any admissible value, times out, or the connection closes'",
    "TaskRegistry.start_task replaces the running instance and the instance sleeps wait_before_start before its target (C36)",
]


# ------------------------------------------------------------------ what the lemmas above rely on: RemoteValue.process

from xknx.dpt import DPTBinary  # noqa: E402
from xknx.remote_value import RemoteValueSwitch  # noqa: E402
from xknx.telegram import TelegramDirection  # noqa: E402


class RecStateUpdater:
    def update_received(self, rv):
        ghost("state_updater").append(rv)


class RecCb:
    def __call__(self, value):
        ghost("cb").append(value)


RVS = Obj(
    RemoteValueSwitch,
    xknx=Obj(World, state_updater=Const(RecStateUpdater())),
    group_address=None,
    group_address_state=Obj(GroupAddress, raw=1),
    passive_group_addresses=Const([]),
    device_name="d",
    feature_name="f",
    invert=Bool(),
    _value=Choice(None, True, False),
    _payload=None,
    telegram=None,
    after_update_cb=Const(RecCb()),
    _sync_state=None,
)


@lemma("C42", params=dict(rv=RVS, bit=Int(0, 1), dst=Int(1, 2), response=Bool(), always=Bool()))
def remote_value_process_follows_the_stub_contract(rv, bit, dst, response, always):
    """The contract StubRemoteValue offers, proved for the real RemoteValueSwitch.process: a telegram for
    another address is not accepted and changes nothing; an accepted one stores the decoded value (bit
    xor invert) and calls after_update_cb exactly once when the value was unknown, changed, or
    always_callback is set - and not otherwise."""
    payload = (GroupValueResponse if response else GroupValueWrite)(DPTBinary(bit))
    t = Telegram(destination_address=GroupAddress(dst), direction=TelegramDirection.INCOMING, payload=payload)
    before = rv._value
    accepted = rv.process(t, always_callback=always)
    decoded = bool(bit) != rv.invert
    if dst != 1:
        assert not accepted and rv._value == before and ghost("cb") == []
        return
    assert accepted and rv._value == decoded
    if before is None or always or before != decoded:
        assert ghost("cb") == [decoded] and rv.telegram is t
    else:
        assert ghost("cb") == []
