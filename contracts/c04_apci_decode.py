"""C04 - Application-layer decoding is total with declared errors only."""

import struct

from contracts.apci_common import recognised, service_classes
from pyvc.api import Bytes, lemma
from xknx.exceptions import ConversionError, UnsupportedAPCIService
from xknx.telegram.apci import APCI


@lemma("C04", params=dict(raw=Bytes()), family=lambda: [dict(S=c) for c in service_classes()])
def service_decode_raises_only_declared(S, raw):
    """Each service parser lets only the four exception kinds escape that the dispatcher converts."""
    try:
        S.from_knx(raw)
    except (ConversionError, IndexError, struct.error, ValueError):
        pass


@lemma("C04", params=dict(raw=Bytes()), family=[dict(service=s << 6) for s in range(16)] + [dict(service=-1)])
def dispatcher_total(raw, service):
    """APCI.from_knx returns a service object or raises ConversionError / UnsupportedAPCIService;
    unsupported only for codes no service class exists for; short input is a conversion error."""
    if service == -1:
        if len(raw) >= 2:
            return
    else:
        if len(raw) < 2 or ((raw[0] * 256 + raw[1]) & 0x03C0) != service:
            return
    try:
        r = APCI.from_knx(raw)
    except UnsupportedAPCIService:
        assert len(raw) >= 2
        apci = (raw[0] * 256 + raw[1]) & 0x03FF
        assert not recognised(apci)
        return
    except ConversionError:
        return
    assert len(raw) >= 2
    assert isinstance(r, APCI)
