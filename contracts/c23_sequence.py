"""C23 - Server-sent tunnel and management frames are delivered once, in order."""

from contracts.world import RecCallback, RecTransport
from pyvc.api import Bytes, Choice, Const, Int, Obj, ghost, lemma
from xknx.io.data_connection import IncomingSequenceCounter, SequenceVerdict
from xknx.io.device_management import DeviceManagement
from xknx.io.tunnel import UDPTunnel
from xknx.knxip import DeviceConfigurationAck, DeviceConfigurationRequest, TunnellingAck, TunnellingRequest

def counter(expected):
    """A counter as the code builds it (real constructor - whatever fields it has), at a given expected
    value: the verdict is a function of `expected` and the received counter only."""
    c = IncomingSequenceCounter()
    c.expected = expected
    return c


@lemma("C23", params=dict(e0=Int(0, 255), n=Int(0, 255)))
def evaluate_contract(e0, n):
    """Total on [0,255]^2; the expected counter wraps at 256; the verdict depends on nothing but the
    expected and the received counter."""
    c = counter(e0)
    old = c.expected
    v = c.evaluate(n)
    if n == old:
        assert v is SequenceVerdict.EXPECTED and c.expected == (old + 1) % 256
    elif n == (old - 1) % 256:
        assert v is SequenceVerdict.REPEATED and c.expected == old
    else:
        assert v is SequenceVerdict.OUT_OF_ORDER and c.expected == old
    assert 0 <= c.expected <= 255


@lemma("C23", params=dict(e0=Int(0, 255), used=Const(True)), family=[dict(how="constructor"), dict(how="reset")])
def a_fresh_connection_expects_zero_and_repeats_255(how, e0, used):
    """Every established connection starts at 0 (constructor / reset()); on it counter 255 is the frame just
    before the expected one (acknowledged again, not passed up) and 0 the expected one - whether or not
    anything has been accepted on this connection yet."""
    if how == "constructor":
        c = IncomingSequenceCounter()
    else:
        c = counter(e0)
        c.evaluate(e0)
        c.reset()
    assert c.expected == 0
    assert c.evaluate(255) is SequenceVerdict.REPEATED and c.expected == 0
    assert c.evaluate(1) is SequenceVerdict.OUT_OF_ORDER and c.expected == 0
    assert c.evaluate(0) is SequenceVerdict.EXPECTED and c.expected == 1


def _rec_schedule(self, seconds=2):
    ghost("reconnect_scheduled").append(1)


def _rec_cancel(self):
    ghost("reconnect_cancelled").append(1)


TUNNEL = Obj(
    UDPTunnel,
    _sequence=None,
    transport=Const(RecTransport()),
    _data_endpoint_addr=Const(("10.0.0.1", 3671)),
    cemi_received_callback=Const(RecCallback("up")),
    _invalid_sequence_number_reconnect_task=None,
    _reconnect_task=None,
)
TREQ = Obj(TunnellingRequest, communication_channel_id=Int(0, 255), sequence_counter=Int(0, 255), raw_cemi=Bytes())


@lemma(
    "C23",
    params=dict(t=TUNNEL, req=TREQ, e0=Int(0, 255)),
    stubs=[(UDPTunnel, "_invalid_sequence_number_reconnect_schedule", _rec_schedule), (UDPTunnel, "_cancel_invalid_sequence_number_reconnect_schedule", _rec_cancel)],
)
def udp_tunnel_request_step(t, req, e0):
    """One received TunnellingRequest with counter c against expected counter e (any e, any c):
    c == e: acknowledged with its own counter and channel, cEMI passed up once, e advances mod 256;
    c == e-1: acknowledged again, not passed up; otherwise neither, e unchanged.
    By induction over the request history (any losses, duplicates, reordering are just other c's) the
    frames passed up are exactly those carrying the running expected counter, each once, in order."""
    t._sequence = counter(e0)
    e = t._sequence.expected
    c = req.sequence_counter
    t._tunnelling_request_received(req)
    sent = ghost("sent")
    up = ghost("up")
    if c == e:
        assert len(sent) == 1 and len(up) == 1
        assert bytes(up[0]) == bytes(req.raw_cemi)
        assert t._sequence.expected == (e + 1) % 256
    elif c == (e - 1) % 256:
        assert len(sent) == 1 and len(up) == 0
        assert t._sequence.expected == e
    else:
        assert len(sent) == 0 and len(up) == 0
        assert t._sequence.expected == e
    if len(sent) == 1:
        ack = sent[0].body
        assert isinstance(ack, TunnellingAck)
        assert ack.sequence_counter == c and ack.communication_channel_id == req.communication_channel_id


DM = Obj(
    DeviceManagement,
    _sequence=None,
    transport=Const(RecTransport()),
    communication_channel=Int(0, 255),
    data_endpoint_addr=Const(("10.0.0.1", 3671)),
    cemi_received_callback=Const(RecCallback("up")),
)
DREQ = Obj(DeviceConfigurationRequest, communication_channel_id=Int(0, 255), sequence_counter=Int(0, 255), raw_cemi=Bytes())


@lemma("C23", params=dict(d=DM, req=DREQ, e0=Int(0, 255)))
def device_management_request_step(d, req, e0):
    """Same step contract for device configuration requests; a request for another communication
    channel is neither acknowledged nor passed up and leaves the counter alone."""
    d._sequence = counter(e0)
    e = d._sequence.expected
    c = req.sequence_counter
    own = req.communication_channel_id == d.communication_channel
    d._device_configuration_request_received(req)
    sent = ghost("sent")
    up = ghost("up")
    if own and c == e:
        assert len(sent) == 1 and len(up) == 1 and bytes(up[0]) == bytes(req.raw_cemi)
        assert d._sequence.expected == (e + 1) % 256
    elif own and c == (e - 1) % 256:
        assert len(sent) == 1 and len(up) == 0 and d._sequence.expected == e
    else:
        assert len(sent) == 0 and len(up) == 0 and d._sequence.expected == e
    if len(sent) == 1:
        ack = sent[0].body
        assert isinstance(ack, DeviceConfigurationAck)
        assert ack.sequence_counter == c and ack.communication_channel_id == d.communication_channel


# ------------------------------------------------------------------ every established connection starts counting at 0

from contracts import c24_tunnel_send as _c24  # noqa: E402
from pyvc.api import run  # noqa: E402
from xknx.io.tunnel import _Tunnel as _TunnelBase  # noqa: E402


@lemma("C23", params=dict(t=_c24._connect_spec(UDPTunnel), new_channel=Int(0, 255)), stubs=[(_TunnelBase, "_connect_request", _c24._connect_request)])
def a_new_udp_connection_resets_the_incoming_counter(t, new_channel):
    """UDPTunnel.connect() over the real setup_tunnel, with and without route-back, whatever the counter of
    the previous connection was: the incoming counter is reset exactly once, before the ConnectRequest is
    answered - the server's first frame on the new connection carries 0."""
    ghost("new_channel").append(new_channel)
    run(t.connect())
    tr = ghost("T")
    assert tr.count("incoming_reset") == 1
    assert tr.index("incoming_reset") < tr.index("connect_request")


# ------------------------------------------------------------------ start() / stop() of the device management handler
# device_management_request_step holds for any expected counter; which counter a connection has is decided by
# start(): it may reset it only when it begins to listen (a new connection), never for a connection that is
# already being served.


class RegTransport(RecTransport):
    """transport.register_callback / unregister_callback by contract: recorded; the handle identifies the registration."""

    def register_callback(self, callback, service_types=None):
        ghost("registered").append((callback, service_types))
        return ("handle", len(ghost("registered")))

    def unregister_callback(self, handle):
        ghost("unregistered").append(handle)


@lemma("C23", params=dict(e0=Int(0, 255), history=Choice("start", "start_start", "start_stop_start", "stop")))
def start_resets_the_counter_only_when_it_begins_to_listen(e0, history):
    """DeviceManagement.start()/stop() on the real object: the first start() registers one handler and expects
    counter 0; a second start() on the started instance changes nothing - in particular the counter the
    running connection has reached (e0) stays; stop() unregisters exactly that handler; a start() after stop()
    begins a new connection at 0 with a new registration."""
    d = DeviceManagement(RegTransport(), 7, cemi_received_callback=RecCallback("up"), data_endpoint=("10.0.0.1", 3671))
    reg, unreg = ghost("registered"), ghost("unregistered")
    if history == "stop":
        d.stop()
        assert reg == [] and unreg == [] and d._callback is None
        return
    d.start()
    assert len(reg) == 1 and d._callback == ("handle", 1) and d._sequence.expected == 0
    d._sequence.expected = e0  # the connection has been served for a while
    if history == "start_start":
        d.start()
        assert len(reg) == 1 and unreg == [] and d._callback == ("handle", 1)
        assert d._sequence.expected == e0
    elif history == "start_stop_start":
        d.stop()
        assert unreg == [("handle", 1)] and d._callback is None
        d.start()
        assert len(reg) == 2 and d._callback == ("handle", 2) and d._sequence.expected == 0
