"""
Executable contract of KNXIPFrame.from_knx as the transports see it (proved by C20 for the real parser):
  * raises only CouldNotParseKNXIP (IncompleteKNXIPFrame is one); IncompleteKNXIPFrame only for a proper
    prefix of a frame: fewer than 6 octets, or a readable header announcing more octets than present -
    and always for fewer than 6 octets and for a well-formed header announcing more octets than present
  * otherwise returns (frame, rest) with rest == data[total_length:], 6 <= total_length <= len(data),
    total_length read from octets 4..5
"""

from pyvc.api import nondet
from xknx.exceptions import CouldNotParseKNXIP, IncompleteKNXIPFrame
from xknx.knxip import KNXIPFrame


class ParsedFrame:
    """Stands for a successfully parsed KNXIPFrame: identified by the octets it was parsed from."""

    def __init__(self, octets):
        self.octets = octets


def _known_service(v):
    from xknx.knxip.knxip_enum import KNXIPServiceType

    return any(v == m.value for m in KNXIPServiceType)


def knxipframe_from_knx_contract(data):
    if len(data) < 6:
        raise IncompleteKNXIPFrame("incomplete (contract)")  # always: a header fragment is never malformed
    if data[0] != 6:
        raise CouldNotParseKNXIP("wrong header length (contract)")
    total = data[4] * 256 + data[5]
    well_formed_header = data[1] == 0x10 and total >= 6 and _known_service(data[2] * 256 + data[3])
    if len(data) < total:
        if well_formed_header or nondet(2) == 0:
            raise IncompleteKNXIPFrame("incomplete (contract)")
        raise CouldNotParseKNXIP("malformed (contract)")
    if total < 6 or not well_formed_header or nondet(2) == 0:
        raise CouldNotParseKNXIP("malformed (contract)")
    return ParsedFrame(bytes(data[:total])), data[total:]


KNXIP_STUBS = [(KNXIPFrame, "from_knx", staticmethod(knxipframe_from_knx_contract))]
