"""C01 - Addresses survive text and wire round trips in every notation."""

import itertools
import random

from pyvc.api import Choice, Const, Int, Obj, lemma, standin
from xknx.exceptions import CouldNotParseAddress
from xknx.telegram.address import GroupAddress, GroupAddressType, IndividualAddress, InternalGroupAddress, parse_device_group_address


class GALong(GroupAddress):
    """GroupAddress with the 3-level notation configured (the class attribute XKNX sets globally)."""

    __slots__ = ()
    address_format = GroupAddressType.LONG


class GAShort(GroupAddress):
    __slots__ = ()
    address_format = GroupAddressType.SHORT


class GAFree(GroupAddress):
    __slots__ = ()
    address_format = GroupAddressType.FREE


RAW = Int(0, 0xFFFF)

# ------------------------------------------------------------------ proved: the integer side


@lemma("C01", family=[dict(cls=c) for c in (IndividualAddress, GALong, GAShort, GAFree)], params=dict(raw=RAW))
def two_octets_round_trip(cls, raw):
    """Every 16 bit address serializes to exactly two octets (big endian) that parse back to an equal
    address of the same class - real to_knx / from_knx / __init__ / __eq__ / __hash__."""
    a = cls(raw)
    w = a.to_knx()
    assert len(w) == 2 and w[0] == raw >> 8 and w[1] == raw & 0xFF
    b = cls.from_knx(w)
    assert b == a and b.raw == raw and type(b) is cls


@lemma("C01", params=dict(raw=RAW))
def individual_levels_partition_the_16_bits(raw):
    """area.main.line of an individual address are within 0..15 / 0..15 / 0..255 and recombine to the
    address: the text form loses nothing."""
    a = IndividualAddress(raw)
    assert 0 <= a.area <= 15 and 0 <= a.main <= 15 and 0 <= a.line <= 255
    assert (a.area << 12) + (a.main << 8) + a.line == raw
    assert a.is_device == (a.line != 0) and a.is_line == (not a.is_device)


@lemma("C01", params=dict(raw=RAW))
def group_levels_partition_the_16_bits(raw):
    """The levels rendered in each notation are within the ranges the parser accepts and recombine to the
    address (3-level: 5+3+8 bits, 2-level: 5+11 bits, free: 16 bits)."""
    a = GALong(raw)
    assert 0 <= a.main <= 31 and 0 <= a.middle <= 7 and 0 <= a.sub <= 255
    assert (a.main << 11) + (a.middle << 8) + a.sub == raw
    b = GAShort(raw)
    assert 0 <= b.main <= 31 and b.middle is None and 0 <= b.sub <= 2047
    assert (b.main << 11) + b.sub == raw
    c = GAFree(raw)
    assert c.main is None and c.middle is None and c.sub == raw


@lemma("C01", params=dict(raw=Choice(Int(-70000, -1), Int(0x10000, 200000))))
def out_of_range_integers_are_refused(raw):
    for cls in (IndividualAddress, GroupAddress):
        try:
            cls(raw)
            assert False
        except CouldNotParseAddress:
            pass


# ------------------------------------------------------------------ stand-in: the text side (regular expressions, str formatting)


def _all_addresses(tier, **fixed):
    for raw in range(0x10000):
        yield (raw,)


@standin("C01", cases=_all_addresses, kind="enum-native", exhaustive=True, bound="all 65536 addresses x {individual, group 3-level, group 2-level, group free}: str() -> constructor -> same raw, repr() evaluates back, parse_device_group_address agrees (0 refused)")
def text_round_trip(raw):
    ia = IndividualAddress(raw)
    assert IndividualAddress(str(ia)) == ia and IndividualAddress(str(ia)).raw == raw
    assert eval(repr(ia), {"IndividualAddress": IndividualAddress}) == ia
    for fmt in (GroupAddressType.LONG, GroupAddressType.SHORT, GroupAddressType.FREE):
        old = GroupAddress.address_format
        GroupAddress.address_format = fmt
        try:
            ga = GroupAddress(raw)
            text = str(ga)
            back = GroupAddress(text)
            assert back == ga and back.raw == raw, (raw, fmt, text)
            assert eval(repr(ga), {"GroupAddress": GroupAddress}) == ga
            if raw:
                assert parse_device_group_address(text) == ga
        finally:
            GroupAddress.address_format = old


ALPHABET = "0123456789/.-_ i*x+\n"


def _texts(tier, **fixed):
    n = 4 if tier == "quick" else 5
    for k in range(0, n + 1):
        for t in itertools.product(ALPHABET[: (9 + 8 if k < n else 13)], repeat=k):
            yield ("".join(t),)
    rnd = random.Random(20240922)
    parts = ["0", "1", "7", "8", "15", "16", "31", "32", "255", "256", "2047", "2048", "65535", "65536", "00", "007", "0255", "99999", "", " 1", "1 ", "+1", "-1", "1.0", "١"]
    for _ in range(20000 if tier == "quick" else 200000):
        k = rnd.choice((1, 2, 3, 4))
        sep = rnd.choice(("/", ".", "/", ".", "-", ""))
        yield (sep.join(rnd.choice(parts) for _ in range(k)),)
    for t in ("i", "i-", "i_", "i- ", "i-a", "I_a b", "ia", "i--", "i-\t", "i" + "x" * 50):
        yield (t,)
    # digit strings longer than int() converts by default (4300), alone and in every level position
    for n in (4300, 4301, 10000):
        d = "1" * n
        for t in (d, "0" * n, "0" * n + "1", d + "/1/1", "1/" + d + "/1", "1/1/" + d, d + ".1.1", "1." + d + ".1", "1.1." + d, d + "/1", "1/" + d):
            yield (t,)
    # objects that are no text: accepted ones (ints - bool is an int) must render in every notation to text
    # that parses back; everything else is refused with the parse error
    for obj in (True, False, 0, 1, 65535, 65536, -1, None, 1.0, 1.5, b"1", b"1/1/1", [1], (1, 1, 1), {"a": 1}, object(), float("nan")):
        yield (obj,)
    # characters for which str.isdigit() is true but int() fails, and digits of other scripts
    for ch in "\u00b2\u00b3\u00b9\u2070\u2074\u2080\u2460\u2474\u2488\u24ea\u0661\u0967\uff11\u1369\u3007\u4e00":
        for t in (ch, ch + ch, "1" + ch, ch + "/1/1", "1/" + ch + "/1", "1/1/" + ch, "1." + ch + ".1", ch + ".1.1", "1.1." + ch, "i" + ch):
            yield (t,)


@standin("C01", cases=_texts, kind="enum-native", exhaustive=False, bound="all texts up to 4 (quick) / 5 (thorough) characters over a 13..17 character alphabet (digits / . - _ space i * x + newline), plus 2*10^4 / 2*10^5 seeded structured near-misses (level values around every limit, leading zeros, signs, blanks) and 16 non-ASCII digit-like characters in every level position, digit strings of 4300 / 4301 / 10000 characters in every level position, and 17 objects that are no text (bool, None, floats, bytes, containers); accepted group addresses are rendered and re-parsed in all three notations")
def any_text_parses_canonically_or_is_refused(text):
    for cls in (IndividualAddress, GroupAddress, InternalGroupAddress):
        try:
            a = cls(text)
        except CouldNotParseAddress:
            continue
        if cls is GroupAddress:
            saved = GroupAddress.address_format
            try:
                for fmt in GroupAddressType:  # the notation is a class attribute: every rendering must parse back
                    GroupAddress.address_format = fmt
                    assert cls(str(a)) == a and str(cls(str(a))) == str(a), (cls.__name__, text, fmt, str(a))
            finally:
                GroupAddress.address_format = saved
        b = cls(str(a))
        assert b == a and str(b) == str(a), (cls.__name__, text, str(a))
    try:
        a = parse_device_group_address(text)
    except CouldNotParseAddress:
        return
    assert parse_device_group_address(str(a)) == a, (text, str(a))


# ------------------------------------------------------------------ integers and octet strings beyond any text limit
# CPython refuses to convert integers of more than 4300 digits to text - also inside an error message that is being
# built. The refusal of such a value must still be the parse error (the symbolic lemmas treat message text as opaque,
# so this is a native stand-in).


def _oversized(tier, **fixed):
    for v in (10**4299, 10**4300, -(10**4300), 10**5000, -(10**5000), 1 << 20000, -(1 << 20000), 2**64, -(2**64), 65536, -1):
        yield ("int", v)
    for n in (0, 1, 3, 4, 100, 2000, 5000):
        yield ("octets", b"\xff" * n)
        yield ("octets", b"\x00" * n)


@standin("C01", cases=_oversized, kind="enum-native", exhaustive=False, bound="11 integers outside 0..65535 up to 20000 bits (below and above CPython's 4300-digit text limit) through the three constructors and parse_device_group_address, and from_knx of 0..5000 octets: two octets are accepted; any other number of octets gives the address of that 16-bit value or CouldNotParseAddress, never another exception")
def oversized_values_are_refused_with_the_parse_error(kind, v):
    if kind == "int":
        for f in (IndividualAddress, GroupAddress, InternalGroupAddress, parse_device_group_address):
            try:
                f(v)
            except CouldNotParseAddress:
                continue
            assert False, (getattr(f, "__name__", f), "accepted an integer outside 0..65535")
        return
    for cls in (IndividualAddress, GroupAddress):
        try:
            a = cls.from_knx(v)
        except CouldNotParseAddress:
            assert len(v) != 2
            continue
        assert 0 <= a.raw <= 0xFFFF and a.raw == int.from_bytes(v, "big")
