"""C44 - Address programming never creates an address conflict."""

import warnings

import sys

import xknx.management.procedures  # noqa: F401
from contracts.world import Holder, World
from pyvc.api import Bool, Bytes, Choice, Const, Int, ListOf, Obj, assume, ghost, lemma, nondet, run
from xknx.exceptions import ManagementConnectionError, ManagementConnectionRefused, ManagementConnectionTimeout
from xknx.management.procedures.device.dm_authorize import FREE_ACCESS_KEY, dmp_authorize2_r_co, dmp_authorize_r_co
from xknx.management.procedures.network.nm_individual_address_check import nm_individual_address_check, nm_individual_address_check_conn
from xknx.management.procedures.network.nm_individual_address_read import nm_individual_address_read
from xknx.management.procedures.network.nm_individual_address_serial_number_read import nm_individual_address_serial_number_read
from xknx.management.procedures.network.nm_individual_address_serial_number_write import nm_individual_address_serial_number_write
from xknx.management.procedures.network.nm_individual_address_write import nm_individual_address_write
from xknx.telegram import IndividualAddress, Telegram, apci

# (the package re-exports functions under the names of its submodules: take the modules from sys.modules)
snw_mod = sys.modules["xknx.management.procedures.network.nm_individual_address_serial_number_write"]
iaw_mod = sys.modules["xknx.management.procedures.network.nm_individual_address_write"]

warnings.filterwarnings("ignore", message="coroutine .* was never awaited")

ADDR = Obj(IndividualAddress, raw=Int(0, 0xFFFF))

# ------------------------------------------------------------------ the bus, as seen through xknx.management


class BroadcastCtx:
    """management.broadcast() context: receive() yields the broadcast telegrams that arrive within the
    timeout (the lemma supplies them)."""

    async def __aenter__(self):
        ghost("T").append("bc_open")
        return self

    async def __aexit__(self, exc_type, exc, tb):
        ghost("T").append("bc_close")
        return False

    async def receive(self, timeout=3):
        ghost("T").append(("receive", timeout))
        for t in ghost("bus"):
            yield t


class ConnCtx:
    """management.connection(address): T_Connect / T_Disconnect around the body; connecting may be refused; if
    the peer closed the connection in between, leaving the context raises ManagementConnectionRefused (C43:
    disconnect_closes_and_releases_everything, connection_context_opens_once_and_always_closes)."""

    def __init__(self, address):
        self.address = address

    async def __aenter__(self):
        ghost("T").append(("connect", self.address))
        if ghost("refuse_connect")[-1]:
            raise ManagementConnectionRefused("refused")
        return Conn(self.address)

    async def __aexit__(self, exc_type, exc, tb):
        ghost("T").append(("disconnect", self.address))
        if ghost("peer_closed") and ghost("peer_closed")[-1]:
            raise ManagementConnectionRefused("Management connection disconnected by the peer.")
        return False


class Conn:
    """An open P2P connection (its own behaviour is C43): request() answers, times out or is refused."""

    def __init__(self, address):
        self.address = address

    async def request(self, payload):
        ghost("T").append(("request", self.address, payload))
        k = ghost("answer")[-1]
        if k == 1:
            raise ManagementConnectionTimeout("timeout")
        if k == 2:
            raise ManagementConnectionRefused("refused")
        if k == 3:
            raise ManagementConnectionError("other")
        return ghost("response")[-1]

    async def send_data(self, payload, wait_for_ack=True):
        ghost("T").append(("send_data", self.address, payload, wait_for_ack))


class Mgmt:
    def broadcast(self):
        return BroadcastCtx()

    def connection(self, address, rate_limit=20):
        return ConnCtx(address)

    async def send_broadcast(self, payload):
        ghost("T").append(("broadcast", payload))


XK = Obj(World, management=Const(Mgmt()))


def bc_telegram(payload):
    return Obj(Telegram, destination_address=None, direction=None, payload=payload, source_address=ADDR, tpci=None, decoded_data=None, data_secure=None)


IA_RESPONSE = bc_telegram(Choice(Obj(apci.IndividualAddressResponse), Obj(apci.IndividualAddressRead), None))


# ------------------------------------------------------------------ NM_IndividualAddress_Read


@lemma("C44", params=dict(xk=XK, t1=IA_RESPONSE, t2=IA_RESPONSE, t3=IA_RESPONSE, n=Choice(0, 1, 2, 3), strict=Bool()))
def address_read_reports_exactly_the_devices_in_programming_mode(xk, t1, t2, t3, n, strict):
    """nm_individual_address_read, any up to three broadcast telegrams within the window: one
    IndividualAddressRead is broadcast inside an open broadcast context; the result is exactly the source
    addresses of the IndividualAddressResponse telegrams, in order; with raise_if_multiple a second
    responder raises ManagementConnectionError; the context is always closed."""
    bus = [t1, t2, t3][:n]
    ghost("bus").extend(bus)
    want = [t.source_address for t in bus if isinstance(t.payload, apci.IndividualAddressResponse)]
    r = None
    try:
        r = run(nm_individual_address_read(xk, raise_if_multiple=strict))
    except ManagementConnectionError:
        pass
    tr = ghost("T")
    assert tr[0] == "bc_open" and tr[-1] == "bc_close"
    assert tr[1][0] == "broadcast" and isinstance(tr[1][1], apci.IndividualAddressRead) and tr[2] == ("receive", 3)
    if strict and len(want) > 1:
        assert r is None
    else:
        assert r == want


# ------------------------------------------------------------------ NM_IndividualAddress_Check


@lemma("C44", params=dict(xk=XK, a=ADDR, refuse=Bool(), answer=Choice(0, 1, 2), peer_closed=Bool()))
def address_check_tells_whether_the_address_is_occupied(xk, a, refuse, answer, peer_closed):
    """nm_individual_address_check: True iff the device answers the descriptor read or refuses /
    disconnects (occupied) - also a device that closes the connection without acknowledging anything, which
    shows only when the context is left; False only on a timeout with the connection still open; the
    connection it opened is closed again."""
    ghost("refuse_connect").append(refuse)
    ghost("peer_closed").append(peer_closed)
    ghost("answer").append(answer)
    ghost("response").append(Telegram(destination_address=IndividualAddress(1), payload=apci.DeviceDescriptorResponse(descriptor=0, value=1)))
    r = run(nm_individual_address_check(xk, a))
    tr = ghost("T")
    assert tr[0][0] == "connect" and tr[0][1] == a
    if refuse:
        assert r is True and len(tr) == 1
    else:
        assert tr[-1] == ("disconnect", tr[0][1])
        assert r == (answer != 1 or peer_closed)
        assert tr[1][0] == "request" and isinstance(tr[1][2], apci.DeviceDescriptorRead)


# ------------------------------------------------------------------ NM_IndividualAddress_Write


async def _check_contract(xknx, individual_address):
    ghost("T").append(("check", individual_address))
    return ghost("found")[-1]


async def _read_contract(xknx, timeout=3, raise_if_multiple=False):
    """Contract of nm_individual_address_read (lemma above)."""
    ghost("T").append(("read", raise_if_multiple))
    devs = ghost("pgm")[-1]
    if raise_if_multiple and len(devs) > 1:
        raise ManagementConnectionError("More than one KNX device is in programming mode.")
    return list(devs)


WRITE_STUBS = [(iaw_mod, "nm_individual_address_check", _check_contract), (iaw_mod, "nm_individual_address_read", _read_contract)]


@lemma("C44", params=dict(xk=XK, a=ADDR, found=Bool(), pgm=Choice(ListOf(), ListOf(ADDR), ListOf(ADDR, ADDR)), answer=Choice(0, 1, 2, 3), refuse=Bool()), stubs=WRITE_STUBS)
def address_write_never_creates_a_conflict(xk, a, found, pgm, answer, refuse):
    """nm_individual_address_write on any bus (address occupied or not, zero / one / two devices in
    programming mode with any addresses, the new device answering, timing out or refusing): an
    IndividualAddressWrite is broadcast only if no device occupies the address and exactly one device is
    in programming mode - at most once, with the requested address; if the address is occupied by another
    device than the one in programming mode, or none / several are in programming mode, it fails with
    ManagementConnectionError before anything is written or restarted; a restart is sent only over a
    connection to the requested address and only after that device answered."""
    ghost("found").append(found)
    ghost("pgm").append(pgm)
    ghost("answer").append(answer)
    ghost("refuse_connect").append(refuse)
    ghost("response").append(Telegram(destination_address=IndividualAddress(1), payload=apci.DeviceDescriptorResponse(descriptor=0, value=1)))
    ok = True
    try:
        run(nm_individual_address_write(xk, a))
    except ManagementConnectionError:
        ok = False
    tr = ghost("T")
    writes = [x for x in tr if isinstance(x, tuple) and x[0] == "broadcast"]
    restarts = [x for x in tr if isinstance(x, tuple) and x[0] == "send_data"]
    connects = [x for x in tr if isinstance(x, tuple) and x[0] == "connect"]
    assert tr[0] == ("check", a) or (tr[0][0] == "check" and tr[0][1] == a)
    safe = len(pgm) == 1 and (not found or pgm[0] == a)
    if not safe:
        assert not ok and writes == [] and restarts == [] and connects == []
        return
    if found:
        assert writes == []
    else:
        assert len(writes) == 1 and isinstance(writes[0][1], apci.IndividualAddressWrite) and writes[0][1].address == a
    assert len(connects) == 1 and connects[0][1] == a
    for r in restarts:
        assert r[1] == a and isinstance(r[2], apci.Restart)
    assert len(restarts) <= 1
    if restarts:
        i = tr.index(restarts[0])
        assert tr[i - 1][0] == "request" and answer in (0, 2)
    if ok:
        assert len(restarts) == 1


# ------------------------------------------------------------------ serial number procedures

SERIAL = Bytes(length=6)
SN_TELEGRAM = bc_telegram(Choice(Obj(apci.IndividualAddressSerialResponse, serial=SERIAL, address=ADDR), Obj(apci.IndividualAddressResponse), None))


@lemma("C44", params=dict(xk=XK, serial=SERIAL, t1=SN_TELEGRAM, t2=SN_TELEGRAM, n=Choice(0, 1, 2)))
def serial_read_uses_only_responses_with_the_requested_serial(xk, serial, t1, t2, n):
    """nm_individual_address_serial_number_read: returns the source address of the first
    IndividualAddressSerialResponse carrying exactly the requested serial number; other serial numbers and
    other telegrams are ignored; None if there is none."""
    bus = [t1, t2][:n]
    ghost("bus").extend(bus)
    r = run(nm_individual_address_serial_number_read(xk, serial))
    match = [t for t in bus if isinstance(t.payload, apci.IndividualAddressSerialResponse) and t.payload.serial == serial]
    tr = ghost("T")
    assert isinstance(tr[1][1], apci.IndividualAddressSerialRead) and tr[1][1].serial == serial and tr[-1] == "bc_close"
    if match:
        assert r is match[0].source_address
    else:
        assert r is None


async def _serial_read_contract(xknx, serial, timeout=3):
    ghost("T").append(("serial_read", serial))
    return ghost("readback")[-1]


@lemma("C44", params=dict(xk=XK, serial=SERIAL, a=ADDR, readback=Choice(None, ADDR)), stubs=[(snw_mod, "nm_individual_address_serial_number_read", _serial_read_contract)])
def serial_write_succeeds_only_if_read_back(xk, serial, a, readback):
    """nm_individual_address_serial_number_write: one IndividualAddressSerialWrite for (serial, address),
    then the address is read back by the same serial number; success only if the device with that serial
    number reports exactly the written address."""
    ghost("readback").append(readback)
    ok = True
    try:
        run(nm_individual_address_serial_number_write(xk, serial, a))
    except ManagementConnectionError:
        ok = False
    tr = ghost("T")
    assert tr[0][0] == "broadcast" and isinstance(tr[0][1], apci.IndividualAddressSerialWrite)
    assert tr[0][1].serial == serial and tr[0][1].address == a
    assert tr[1] == ("serial_read", serial) and len(tr) == 2
    assert ok == (readback is not None and readback == a)


# ------------------------------------------------------------------ DMP_Authorize2


class AuthConn:
    """A device answering A_Authorize_Request(key) with the access level it grants for that key (a
    function of the key: levels[0] for the free access key, levels[1] otherwise)."""

    def __init__(self, free_level, client_level):
        self.free_level, self.client_level = free_level, client_level

    async def request(self, payload):
        ghost("T").append(payload.key)
        level = self.free_level if payload.key == FREE_ACCESS_KEY else self.client_level
        return Telegram(destination_address=IndividualAddress(1), payload=apci.AuthorizeResponse(level=level))


@lemma("C44", params=dict(free=Int(0, 15), client=Int(0, 15), key=Int(0, 0xFFFFFFFE)))
def authorize2_returns_the_better_level(free, client, key):
    """dmp_authorize2_r_co against a device granting `free` for the free access key and `client` for the
    client key: the result is the better (numerically lower) of the two levels, and the level in effect at
    the end (the last key sent) is the one returned; the client key is not sent when free access already
    grants level 0."""
    conn = AuthConn(free, client)
    r = run(dmp_authorize2_r_co(conn, key))
    assert r == min(free, client)
    keys = ghost("T")
    assert keys[0] == FREE_ACCESS_KEY
    last_level = free if keys[-1] == FREE_ACCESS_KEY else client
    assert last_level == r
    if free == 0:
        assert keys == [FREE_ACCESS_KEY]
    else:
        assert keys[1] == key and len(keys) <= 3


ASSUMPTIONS = [
    "asyncio is trusted behind the contract stubs: a cancelled task/future does not continue, asyncio.timeout cancels what it guards, locks are mutually exclusive, queues are FIFO, tasks switch only at awaits; interleavings inside one await are represented by 'the awaited object completes with any admissible value, times out, or the connection closes'",
    "the bus is represented by contract stubs of xknx.management with bounded numbers of simultaneous responders (<= 3 broadcast answers, <= 2 devices in programming mode)",
]


# ------------------------------------------------------------------ the connection context the procedures rely on (C43)
from contracts import c43_management as _c43  # noqa: E402
from pyvc.api import rely_on  # noqa: E402

rely_on("C44", _c43.connection_context_opens_once_and_always_closes)
rely_on("C44", _c43.disconnect_closes_and_releases_everything)
