"""C07 - Datapoint decoding is total with declared errors only."""

from contracts.dpt_common import dpt_classes
from pyvc.api import ByteTuple, Choice, Int, Obj, lemma
from xknx.dpt import DPTArray, DPTBinary
from xknx.exceptions import ConversionError, CouldNotParseTelegram

PAYLOAD = Choice(Obj(DPTBinary, value=Int(0, 0x3F)), Obj(DPTArray, value=ByteTuple()))


@lemma("C07", params=dict(payload=PAYLOAD), family=lambda: [dict(T=c) for c in dpt_classes()])
def dpt_from_knx_declared_errors(T, payload):
    """Any 6 bit value and any octet array of any length: a value, or one of the two declared errors."""
    try:
        T.from_knx(payload)
    except (CouldNotParseTelegram, ConversionError):
        pass


# ----------------------------------------------------------------------------- eager decoding in the consumer

from xknx.core.group_address_dpt import GroupAddressDPT  # noqa: E402
from xknx.telegram import GroupAddress, Telegram  # noqa: E402
from xknx.telegram.apci import GroupValueResponse, GroupValueWrite  # noqa: E402
from pyvc.api import Bool  # noqa: E402


@lemma("C07", params=dict(payload=PAYLOAD, response=Bool(), seen_before=Bool(), others_failed=Bool()), family=lambda: [dict(T=c) for c in dpt_classes()])
def set_decoded_data_never_raises(T, payload, response, seen_before, others_failed):
    """The call the telegram consumer makes *before* its own error handling: for a group address
    configured with any transcoder T and any payload - and whatever decoding errors this or other addresses
    had before - it returns normally; decoded_data is then either
    unset (decoding failed with a declared error, address remembered) or (T, value)."""
    table = GroupAddressDPT()
    dst = GroupAddress(0x0901)
    table._ga_dpts[dst.raw] = T
    if seen_before:
        table.ga_decoding_error.add(dst)
    if others_failed:
        # the table's state after any history: other addresses may have had decoding errors before
        table.ga_decoding_error.add(GroupAddress(0x0902))
        table.ga_decoding_error.add(GroupAddress(0x7FFF))
    apci = GroupValueResponse(payload) if response else GroupValueWrite(payload)
    telegram = Telegram(destination_address=dst, payload=apci)
    table.set_decoded_data(telegram)
    if telegram.decoded_data is None:
        assert dst in table.ga_decoding_error
    else:
        assert telegram.decoded_data.transcoder is T
