"""C07 - Datapoint decoding is total with declared errors only."""

from contracts.dpt_common import dpt_classes
from pyvc.api import ByteTuple, Choice, Int, Obj, lemma
from xknx.dpt import DPTArray, DPTBinary
from xknx.exceptions import ConversionError, CouldNotParseTelegram

PAYLOAD = Choice(Obj(DPTBinary, value=Int(0, 0x3F)), Obj(DPTArray, value=ByteTuple()))


@lemma("C07", params=dict(payload=PAYLOAD), family=lambda: [dict(T=c) for c in dpt_classes()])
def dpt_from_knx_declared_errors(T, payload):
    """Any 6 bit value and any octet array of any length: a value, or one of the two declared errors."""
    try:
        T.from_knx(payload)
    except (CouldNotParseTelegram, ConversionError):
        pass
