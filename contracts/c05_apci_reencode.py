"""C05 - Decoded application PDUs re-encode to the same octets (reserved bits aside)."""

from contracts.apci_common import dispatches_to, service_classes
from pyvc.api import Bytes, forall_range, lemma
from spec.apci_reserved import mask
from xknx.exceptions import ConversionError
from xknx.telegram.apci import APCI


@lemma("C05", params=dict(raw=Bytes()), family=lambda: [dict(S=c) for c in service_classes()])
def decode_then_encode(S, raw):
    if len(raw) < 2 or not dispatches_to(S, raw):
        return
    try:
        o = APCI.from_knx(raw)
    except ConversionError:
        return
    assert type(o) is S
    try:
        w = o.to_knx()
    except Exception:
        return  # cannot be encoded again: outside the statement
    n = len(raw)
    assert len(w) == n
    assert forall_range(n, lambda i: (w[i] & mask(S, i, n)) == (raw[i] & mask(S, i, n)))
    assert o.calculated_length() == len(w) - 1
    assert APCI.from_knx(bytes(w)) == o


@lemma("C05", params=dict(raw=Bytes(min_len=2)), family=[dict(service=s << 6) for s in range(16)])
def dispatch_table_complete(raw, service):
    """Whatever the dispatcher returns is of a class that `dispatches_to` selects (so the per-class
    lemma above covers every accepted APDU)."""
    if ((raw[0] * 256 + raw[1]) & 0x03C0) != service:
        return
    try:
        o = APCI.from_knx(raw)
    except ConversionError:
        return
    assert dispatches_to(type(o), raw)
