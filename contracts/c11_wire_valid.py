"""C11 - Any value accepted for sending becomes a wire-valid telegram."""

import xknx.tools.group_communication as gc
from contracts.c09_numeric_range import int_numeric
from contracts.world import World
from pyvc.api import Bool, Bytes, ByteTuple, Choice, Const, Float, Int, ListOf, Obj, TupleOf, assume, ghost, lemma
from xknx.dpt import DPTArray, DPTBinary
from xknx.exceptions import ConversionError
from xknx.remote_value import RemoteValueScaling
from xknx.remote_value.remote_value import RemoteValue
from xknx.remote_value.remote_value_raw import RemoteValueRaw
from xknx.telegram import GroupAddress, IndividualAddress, Telegram
from xknx.telegram.apci import GroupValueResponse, GroupValueWrite


def wire_valid(p):
    """A payload the APCI encoder can put on the wire: 6 bit value, or 1..14 octets 0..255 each."""
    if isinstance(p, DPTBinary):
        return isinstance(p.value, int) and 0 <= p.value <= 63
    if isinstance(p, DPTArray):
        return 1 <= len(p.value) <= 14 and all(isinstance(o, int) and 0 <= o <= 255 for o in p.value)
    return False


@lemma("C11", params=dict(p=Choice(Obj(DPTBinary, value=Int(0, 63)), Obj(DPTArray, value=ByteTuple(min_len=1, max_len=14))), response=Bool()))
def wire_valid_payloads_serialize(p, response):
    """What 'wire-valid' buys: GroupValueWrite / GroupValueResponse of such a payload always serializes
    (2 + n octets, or 2 octets for the 6 bit form)."""
    apci = GroupValueResponse(p) if response else GroupValueWrite(p)
    raw = apci.to_knx()
    assert len(raw) == (2 if isinstance(p, DPTBinary) else 2 + len(p.value))


class RecQueue:
    def put_nowait(self, t):
        ghost("queue").append(t)


SCALING = Obj(RemoteValueScaling, xknx=Obj(World, telegrams=Const(RecQueue()), current_address=Const(IndividualAddress(1))), group_address=Obj(GroupAddress, raw=1), group_address_state=None, passive_group_addresses=Const([]), device_name="d", feature_name="f", range_from=Int(-1000, 1000), range_to=Int(-1000, 1000), _value=None, _payload=None, telegram=None, after_update_cb=None, _sync_state=None)


@lemma("C11", params=dict(rv=SCALING, v=Float(lo=-1.0e6, hi=1.0e6), response=Bool()), float_mode="real")
def scaled_values_are_refused_or_wire_valid(rv, v, response):
    """RemoteValueScaling.set (brightness, position, speed ... of the devices), any configured range and
    any value: either ConversionError at the call and nothing queued, or exactly one telegram whose
    payload is one octet 0..255."""
    assume(rv.range_from != rv.range_to)
    try:
        rv.set(v, response=response)
    except ConversionError:
        assert ghost("queue") == []
        return
    q = ghost("queue")
    assert len(q) == 1 and isinstance(q[0].payload, GroupValueResponse if response else GroupValueWrite)
    assert wire_valid(q[0].payload.value) and len(q[0].payload.value.value) == 1


@lemma("C11", params=dict(v=Choice(Int(-5, 300), TupleOf(Int(-5, 300)), TupleOf(Int(-5, 300), Int(-5, 300)), ListOf(Int(-5, 300), Int(-5, 300), Int(-5, 300)), Bytes(min_len=1, max_len=3), Float(lo=-5.0, hi=300.0)), response=Bool()))
def raw_helper_values_are_refused_or_wire_valid(v, response):
    """group_value_write / group_value_response without a value type (the MCP write tool's raw mode): an
    int becomes the 6 bit form, a tuple / list / bytes the octet form - or ConversionError and nothing is
    queued; a queued payload is always wire-valid."""
    xk = World()
    xk.telegrams = RecQueue()
    try:
        if response:
            gc.group_value_response(xk, GroupAddress(1), v)
        else:
            gc.group_value_write(xk, GroupAddress(1), v)
    except ConversionError:
        assert ghost("queue") == []
        return
    q = ghost("queue")
    assert len(q) == 1 and wire_valid(q[0].payload.value)


@lemma("C11", family=lambda: [dict(T=c) for c in int_numeric()], params=dict(v=Int(-(1 << 70), 1 << 70)))
def integer_transcoders_give_wire_valid_payloads(T, v):
    """Every integer datapoint type (what RemoteValueSensor / the value_type helpers delegate to): to_knx
    of any integer is ConversionError or a wire-valid DPTArray."""
    try:
        p = T.to_knx(v)
    except ConversionError:
        return
    assert wire_valid(p)


RAW = Obj(RemoteValueRaw, xknx=Obj(World, telegrams=Const(RecQueue()), current_address=Const(IndividualAddress(1))), group_address=Obj(GroupAddress, raw=1), group_address_state=None, passive_group_addresses=Const([]), device_name="d", feature_name="f", payload_length=Choice(0, 1, 2, 3, 4), _value=None, _payload=None, telegram=None, after_update_cb=None, _sync_state=None)


@lemma("C11", params=dict(rv=RAW, v=Int(-(1 << 40), 1 << 40)))
def raw_remote_values_are_refused_or_wire_valid(rv, v):
    """RemoteValueRaw.set: any integer, any configured payload length: ConversionError and nothing
    queued, or one telegram with a wire-valid payload of exactly that length."""
    try:
        rv.set(v)
    except ConversionError:
        assert ghost("queue") == []
        return
    q = ghost("queue")
    assert len(q) == 1 and wire_valid(q[0].payload.value)
    p = q[0].payload.value
    assert isinstance(p, DPTBinary) if rv.payload_length == 0 else len(p.value) == rv.payload_length


from xknx.dpt import DPTAngle, DPTScaling  # noqa: E402


@lemma("C11", family=[dict(T=DPTScaling), dict(T=DPTAngle)], params=dict(v=Float(lo=-1000.0, hi=1000.0)), float_mode="real")
def scaled_transcoders_are_refused_or_wire_valid(T, v):
    """DPT 5.001 / 5.003 (value_type 'percent' / 'angle' of the helpers, RemoteValueNumeric and the MCP
    tool), any real value - in particular the non-integers just outside the range: ConversionError or one
    octet 0..255."""
    try:
        p = T.to_knx(v)
    except ConversionError:
        return
    assert wire_valid(p) and len(p.value) == 1
