"""C11 - Any value accepted for sending becomes a wire-valid telegram."""

import xknx.tools.group_communication as gc
from contracts.c09_numeric_range import int_numeric
from contracts.world import World
from pyvc.api import Bool, Bytes, ByteTuple, Choice, Const, Float, Int, ListOf, Obj, TupleOf, assume, ghost, lemma
from xknx.dpt import DPTArray, DPTBinary
from xknx.exceptions import ConversionError
from xknx.remote_value import RemoteValueScaling
from xknx.remote_value.remote_value import RemoteValue
from xknx.remote_value.remote_value_raw import RemoteValueRaw
from xknx.telegram import GroupAddress, IndividualAddress, Telegram
from xknx.telegram.apci import GroupValueResponse, GroupValueWrite


def wire_valid(p):
    """A payload that can be put on the wire: 6 bit value, or 1..253 octets 0..255 each (APCI octet + data
    fit the 254 octets of one frame, C14)."""
    if isinstance(p, DPTBinary):
        return isinstance(p.value, int) and 0 <= p.value <= 63
    if isinstance(p, DPTArray):
        return 1 <= len(p.value) <= 253 and all(isinstance(o, int) and 0 <= o <= 255 for o in p.value)
    return False


@lemma("C11", params=dict(p=Choice(Obj(DPTBinary, value=Int(0, 63)), Obj(DPTArray, value=ByteTuple(min_len=1, max_len=14))), response=Bool()))
def wire_valid_payloads_serialize(p, response):
    """What 'wire-valid' buys: GroupValueWrite / GroupValueResponse of such a payload always serializes
    (2 + n octets, or 2 octets for the 6 bit form)."""
    apci = GroupValueResponse(p) if response else GroupValueWrite(p)
    raw = apci.to_knx()
    assert len(raw) == (2 if isinstance(p, DPTBinary) else 2 + len(p.value))


class RecQueue:
    def put_nowait(self, t):
        ghost("queue").append(t)


SCALING = Obj(RemoteValueScaling, xknx=Obj(World, telegrams=Const(RecQueue()), current_address=Const(IndividualAddress(1))), group_address=Obj(GroupAddress, raw=1), group_address_state=None, passive_group_addresses=Const([]), device_name="d", feature_name="f", range_from=Int(-1000, 1000), range_to=Int(-1000, 1000), _value=None, _payload=None, telegram=None, after_update_cb=None, _sync_state=None)


@lemma("C11", params=dict(rv=SCALING, v=Float(lo=-1.0e6, hi=1.0e6), response=Bool()), float_mode="real")
def scaled_values_are_refused_or_wire_valid(rv, v, response):
    """RemoteValueScaling.set (brightness, position, speed ... of the devices), any configured range and
    any value: either ConversionError at the call and nothing queued, or exactly one telegram whose
    payload is one octet 0..255."""
    assume(rv.range_from != rv.range_to)
    try:
        rv.set(v, response=response)
    except ConversionError:
        assert ghost("queue") == []
        return
    q = ghost("queue")
    assert len(q) == 1 and isinstance(q[0].payload, GroupValueResponse if response else GroupValueWrite)
    assert wire_valid(q[0].payload.value) and len(q[0].payload.value.value) == 1


@lemma("C11", params=dict(v=Choice(Int(-5, 300), TupleOf(), ListOf(), TupleOf(Int(-5, 300)), TupleOf(Int(-5, 300), Int(-5, 300)), ListOf(Int(-5, 300), Int(-5, 300), Int(-5, 300)), Bytes(min_len=0, max_len=3), Bytes(min_len=252, max_len=256), Float(lo=-5.0, hi=300.0), Obj(DPTArray, value=TupleOf()), Obj(DPTArray, value=TupleOf(Int(-5, 300), Int(-5, 300))), Obj(DPTArray, value=TupleOf(Float(lo=0.0, hi=2.0))), Obj(DPTBinary, value=Int(0, 63))), response=Bool()), max_unroll=300)
def raw_helper_values_are_refused_or_wire_valid(v, response):
    """group_value_write / group_value_response without a value type (the MCP write tool's raw mode): an
    int becomes the 6 bit form, a tuple / list / bytes (also empty, also longer than a frame) or a
    pre-built DPTArray (also with octets that are none) the octet form - or ConversionError and nothing is
    queued; a queued payload is always wire-valid."""
    xk = World()
    xk.telegrams = RecQueue()
    try:
        if response:
            gc.group_value_response(xk, GroupAddress(1), v)
        else:
            gc.group_value_write(xk, GroupAddress(1), v)
    except ConversionError:
        assert ghost("queue") == []
        return
    q = ghost("queue")
    assert len(q) == 1 and wire_valid(q[0].payload.value)


@lemma("C11", family=lambda: [dict(T=c) for c in int_numeric()], params=dict(v=Int(-(1 << 70), 1 << 70)))
def integer_transcoders_give_wire_valid_payloads(T, v):
    """Every integer datapoint type (what RemoteValueSensor / the value_type helpers delegate to): to_knx
    of any integer is ConversionError or a wire-valid DPTArray."""
    try:
        p = T.to_knx(v)
    except ConversionError:
        return
    assert wire_valid(p)


RAW = Obj(RemoteValueRaw, xknx=Obj(World, telegrams=Const(RecQueue()), current_address=Const(IndividualAddress(1))), group_address=Obj(GroupAddress, raw=1), group_address_state=None, passive_group_addresses=Const([]), device_name="d", feature_name="f", payload_length=Choice(0, 1, 2, 3, 4), _value=None, _payload=None, telegram=None, after_update_cb=None, _sync_state=None)


@lemma("C11", params=dict(rv=RAW, v=Int(-(1 << 40), 1 << 40)))
def raw_remote_values_are_refused_or_wire_valid(rv, v):
    """RemoteValueRaw.set: any integer, any configured payload length: ConversionError and nothing
    queued, or one telegram with a wire-valid payload of exactly that length."""
    try:
        rv.set(v)
    except ConversionError:
        assert ghost("queue") == []
        return
    q = ghost("queue")
    assert len(q) == 1 and wire_valid(q[0].payload.value)
    p = q[0].payload.value
    assert isinstance(p, DPTBinary) if rv.payload_length == 0 else len(p.value) == rv.payload_length


from xknx.dpt import DPTAngle, DPTScaling  # noqa: E402


@lemma("C11", family=[dict(T=DPTScaling), dict(T=DPTAngle)], params=dict(v=Float(lo=-1000.0, hi=1000.0)), float_mode="real")
def scaled_transcoders_are_refused_or_wire_valid(T, v):
    """DPT 5.001 / 5.003 (value_type 'percent' / 'angle' of the helpers, RemoteValueNumeric and the MCP
    tool), any real value - in particular the non-integers just outside the range: ConversionError or one
    octet 0..255."""
    try:
        p = T.to_knx(v)
    except ConversionError:
        return
    assert wire_valid(p) and len(p.value) == 1


from xknx.dpt import DPTColorRGB  # noqa: E402
from xknx.dpt.dpt_232 import RGBColor  # noqa: E402


def _any_payload(cls, value):
    """Contract of a complex type's own _to_knx: some payload object - the fields of the value are not
    type checked, so its octets may be anything (C08 decides what they are for valid values)."""
    return ghost("payload")[0]


@lemma("C11", params=dict(p=Choice(Obj(DPTArray, value=TupleOf(Choice(Int(-5, 300), Float(lo=0.0, hi=300.0)), Int(-5, 300), Choice(Int(-5, 300), Float(lo=0.0, hi=300.0)))), Obj(DPTArray, value=TupleOf(Int(0, 255))), Obj(DPTBinary, value=Int(0, 63)))), stubs=[(DPTColorRGB, "_to_knx", classmethod(_any_payload))])
def complex_transcoders_never_hand_out_invalid_octets(p):
    """DPTComplex.to_knx (final: the entry of every structured datapoint type - colours, times, dates ...):
    whatever the type's own encoder produced, the caller gets a payload whose octets are integers 0..255,
    or ConversionError."""
    ghost("payload").append(p)
    try:
        r = DPTColorRGB.to_knx(RGBColor(1, 2, 3))
    except ConversionError:
        return
    assert r is p and wire_valid(r)


# ------------------------------------------------------------------ bounded stand-in: every datapoint type, remote
# value class and multi-telegram device setter with values of every Python kind (real code, natively)

import dataclasses  # noqa: E402
import enum  # noqa: E402
import inspect  # noqa: E402

from pyvc.api import standin  # noqa: E402

_BATTERY = [0, 1, -1, 2, 63, 64, 127, 128, 255, 256, -128, -129, 65535, 65536, -32768, -32769, 2**31, 2**32, -(2**31) - 1, 2**63, 2**64, 0.5, 1.5, -0.5, 1.0, 255.0, 1e10, -1e10, 1e40, float("inf"), float("-inf"), float("nan"), True, False, None, "", "a", "1", "abc" * 10, b"", b"\x01", [], [1], [1, 2, 3], (), (300,), (1.0, 2, 3), (1, 2, 3), (1, 2, 3, 4), ((0.5, 0.5), 100), {}, {"a": 1}, object()]
_FIELD_VALUES = (1.5, 1.0, 0.0, -1, 256, 65536, 2**40, None, "x", float("nan"), float("inf"), True, [1])


def _all_dpt_classes():
    from xknx.dpt import DPTBase

    return sorted(DPTBase.dpt_class_tree(), key=lambda c: c.__name__)


def _all_remote_value_classes():
    import xknx.devices  # noqa: F401  (defines the device-local remote values)

    def subs(c):
        for s in c.__subclasses__():
            yield s
            yield from subs(s)

    return sorted({c for c in subs(RemoteValue) if not inspect.isabstract(c) and not c.__name__.startswith("_")}, key=lambda c: c.__name__)


def _type_cases(tier):
    for i in range(len(_all_dpt_classes())):
        yield ("dpt", i)
    for i in range(len(_all_remote_value_classes())):
        yield ("remote_value", i)
    yield ("light", 0)


def _structured_values(sample):
    out = []
    if isinstance(sample, enum.Enum):
        out += list(type(sample))
    if dataclasses.is_dataclass(sample) and not isinstance(sample, type):
        out.append(sample)
        for f in dataclasses.fields(sample):
            for v in _FIELD_VALUES:
                try:
                    out.append(dataclasses.replace(sample, **{f.name: v}))
                except Exception:  # noqa: BLE001  a dataclass refusing the field in __post_init__ is a refusal
                    pass
        try:
            d = sample.as_dict()
        except Exception:  # noqa: BLE001
            d = None
        if isinstance(d, dict):
            out.append(d)
            for k in d:
                for v in (1.5, None, "x", 2**40, [1], float("inf"), float("-inf"), float("nan"), 1e40, -1, 256, True):
                    out.append({**d, k: v})
                out.append({kk: vv for kk, vv in d.items() if kk != k})
    return out


def _drain_checked(xknx, what):
    from xknx.cemi import CEMIFrame, CEMILData, CEMIMessageCode

    n = 0
    while not xknx.telegrams.empty():
        t = xknx.telegrams.get_nowait()
        n += 1
        assert wire_valid(t.payload.value), (what, "queued a payload that is not wire-valid", t.payload.value.value)
        CEMIFrame(code=CEMIMessageCode.L_DATA_REQ, data=CEMILData.init_from_telegram(t, src_addr=IndividualAddress(1))).to_knx()
    return n


@standin("C11", cases=_type_cases, kind="enum-native", exhaustive=False, bound="every concrete datapoint type (230) through group_value_write and group_value_response, every concrete RemoteValue class (with value types / ranges / modes / payload lengths where the constructor asks for one) through set(), and the multi-telegram device setters Light.set_color / set_hs_color (individual colour addresses) and Fan.turn_on(speed) (switch + speed address): a fixed battery of 53 values of every Python kind (integers around every octet/word boundary, floats incl. integral ones, nan, infinities, bool, None, str, bytes, lists, tuples, dicts, object()) plus, for structured types, the decoded all-zero value with each field replaced by 13 values and its dict form with each field replaced by 12 values (infinities and nan among them) / removed; a call either raises ConversionError with nothing queued or queues telegrams that serialize into a cEMI frame")
def every_type_refuses_at_the_call_or_queues_a_serializable_telegram(kind, i):
    import asyncio

    from xknx import XKNX

    async def go():
        xknx = XKNX()
        if kind == "dpt":
            c = _all_dpt_classes()[i]
            vals = list(_BATTERY)
            for sample_payload in (DPTBinary(0), DPTArray((0,) * (c.payload_length or 1))):
                try:  # only to obtain a structured sample value; decoding is C07's subject
                    vals += _structured_values(c.from_knx(sample_payload))
                except Exception:  # noqa: BLE001
                    pass
            for fn in (gc.group_value_write, gc.group_value_response):
                for v in vals:
                    try:
                        fn(xknx, "1/2/3", v, value_type=c)
                    except ConversionError:
                        assert xknx.telegrams.empty(), (c.__name__, v, "refused but queued")
                        continue
                    assert _drain_checked(xknx, (c.__name__, repr(v))) == 1
        elif kind == "remote_value":
            c = _all_remote_value_classes()[i]
            params = inspect.signature(c.__init__).parameters
            variants = [{}]
            if "value_type" in params:
                variants = [{"value_type": vt} for vt in ("temperature", "percent", "pulse_2byte", "string", "color_rgb", "1byte_unsigned", "time", "latin_1")]
            if "range_from" in params:
                variants = [{}, {"range_from": 100, "range_to": 0}, {"range_from": -5, "range_to": 7}]
            if "setpoint_shift_mode" in params:
                from xknx.remote_value.remote_value_setpoint_shift import SetpointShiftMode

                variants = [{"setpoint_shift_mode": m} for m in SetpointShiftMode]
            if "payload_length" in params:
                variants = [{"payload_length": n} for n in (0, 1, 2, 4)]
            if "climate_mode_type" in params:
                variants = [{"climate_mode_type": m} for m in c.ClimateModeType]
            if "operation_mode" in params:
                from xknx.dpt.dpt_20 import HVACOperationMode

                variants = [{"operation_mode": HVACOperationMode.COMFORT}]
            if "controller_mode" in params:
                from xknx.dpt.dpt_20 import HVACControllerMode

                variants = [{"controller_mode": HVACControllerMode.HEAT}]
            built = 0
            for kw in variants:
                try:
                    rv = c(xknx, group_address="1/2/3", **kw)
                except (ConversionError, TypeError):
                    continue  # this class does not take that value type / needs more configuration
                built += 1
                vals = list(_BATTERY)
                dpt = getattr(rv, "dpt_class", None)
                if dpt is not None and dpt.payload_length:
                    try:
                        vals += _structured_values(rv.from_knx(DPTArray((0,) * dpt.payload_length)))
                    except Exception:  # noqa: BLE001
                        pass
                for v in vals:
                    try:
                        rv.set(v)
                    except ConversionError:
                        assert xknx.telegrams.empty(), (c.__name__, kw, v, "refused but queued")
                        continue
                    _drain_checked(xknx, (c.__name__, kw, repr(v)))
            ghost("built").append(built)
        else:
            from xknx.devices import Light

            ind = Light(xknx, "l", group_address_switch_red="1/0/1", group_address_brightness_red="1/0/2", group_address_switch_green="1/0/3", group_address_brightness_green="1/0/4", group_address_switch_blue="1/0/5", group_address_brightness_blue="1/0/6", group_address_switch_white="1/0/7", group_address_brightness_white="1/1/0")
            hs = Light(xknx, "h", group_address_switch="1/1/1", group_address_hue="1/1/5", group_address_saturation="1/1/6")
            comps = (0, 255, 256, -1, 1.5, None, "x", float("nan"))
            for r in comps:
                for g in comps:
                    for b in comps:
                        for w in (None, 0, 300, "x"):
                            try:
                                await ind.set_color((r, g, b), w)
                            except ConversionError:
                                assert xknx.telegrams.empty(), ("Light.set_color", (r, g, b), w, "refused but queued")
                                continue
                            assert _drain_checked(xknx, ("Light.set_color", (r, g, b), w)) == (3 if w is None else 4)
            from xknx.devices import Fan

            fan = Fan(xknx, "f", group_address_switch="1/2/1", group_address_speed="1/2/2")
            for speed in (0, 50, 100, 101, 300, -1, None, "x", float("nan")):
                try:
                    await fan.turn_on(speed)
                except ConversionError:
                    assert xknx.telegrams.empty(), ("Fan.turn_on", speed, "refused but queued")
                    continue
                assert _drain_checked(xknx, ("Fan.turn_on", speed)) == (1 if speed is None else 2)
            for h in (0, 360, 361, -1, None, "x", float("nan")):
                for s_ in (0, 100, 101, -1, None, "x", float("inf")):
                    try:
                        await hs.set_hs_color((h, s_))
                    except ConversionError:
                        assert xknx.telegrams.empty(), ("Light.set_hs_color", (h, s_), "refused but queued")
                        continue
                    assert _drain_checked(xknx, ("Light.set_hs_color", (h, s_))) >= 1

    asyncio.run(go())
