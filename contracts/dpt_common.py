"""Facts about xknx.dpt read from the real package."""

from xknx.dpt import DPTBase


def dpt_classes():
    """All concrete transcoder classes, as the library itself enumerates them."""
    return sorted(DPTBase.dpt_class_tree(), key=lambda c: (c.__module__, c.__name__))
