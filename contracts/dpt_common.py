"""Facts about xknx.dpt read from the real package."""

from xknx.dpt import DPTBase


def dpt_classes():
    """All concrete transcoder classes, as the library itself enumerates them."""
    return sorted(DPTBase.dpt_class_tree(), key=lambda c: (c.__module__, c.__name__))


def _codec_source(c):
    import inspect

    parts = []
    for name in ("from_knx", "to_knx", "_to_knx"):
        f = getattr(c, name, None)
        if f is not None:
            try:
                parts.append(inspect.getsource(f))
            except (OSError, TypeError):
                pass
    return "".join(parts)


FLOAT_MODULES = ("dpt_14", "dpt_9", "dpt_8", "dpt_242", "dpt_243", "dpt_249")
FLOAT_CLASS_NAMES = ("DPTScaling", "DPTAngle")


def uses_floats(c):
    """Work split only: does the codec of this class compute with floats? (every class is in exactly
    one of float_classes() / int_classes())"""
    return c.__module__.split(".")[-1] in FLOAT_MODULES or c.__name__ in FLOAT_CLASS_NAMES


def int_classes():
    return [c for c in dpt_classes() if not uses_floats(c)]


def float_classes():
    return [c for c in dpt_classes() if uses_floats(c)]


def text_classes():
    return [c for c in dpt_classes() if c.__module__.split(".")[-1] in ("dpt_16", "dpt_4")]


def int_classes_no_text():
    t = set(text_classes())
    return [c for c in int_classes() if c not in t]
