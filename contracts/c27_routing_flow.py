"""C27 - Routing honours busy flow control and the indication spacing.

The statement is a timing relation; it is carried by the contracts of four real functions
(clock, event, timer-task handles, sleep and random as contract stubs; clock readings are reals):

  * handle_routing_busy: sending is blocked at once; the end of the pause never moves earlier and is at
    least the announced wait after *this* busy frame; the timer that will lift the block is created in the
    same step as the pause it belongs to (or the running one is kept because it ends later);
  * _resume_sending (the timer): first sleeps the pause's wait time plus the random extension
    (random * N * 50 ms), only then lifts the block; then fades the busy counter out;
  * throttle / send_cemi: a routing indication leaves only after the rest of the 20 ms since the previous
    one has been slept and the block is lifted, with no await between that and the send; every send is
    followed by exactly one local L_Data.con.

Time is not modelled: asyncio.sleep(d) is trusted to take at least d; clock arithmetic is over the reals.
"""

import asyncio
import random
import warnings

from contracts.world import World
from pyvc.api import Bool, Bytes, Choice, Const, Float, Int, LoopSpec, Obj, assume, ghost, lemma, nondet, run
from xknx.cemi import CEMIFrame, CEMIMessageCode
from xknx.io.routing import Routing, _RoutingFlowControl
from xknx.knxip import HPAI, KNXIPFrame, RoutingBusy, RoutingIndication, RoutingLostMessage

warnings.filterwarnings("ignore", message="coroutine .* was never awaited")


class Clock:
    """loop.time(): the readings the lemma supplies, in order (the last one repeats)."""

    def time(self):
        ts = ghost("clock")
        t = ts.pop(0) if len(ts) > 1 else ts[0]
        ghost("T").append(("time", t))
        return t


class Ev:
    """asyncio.Event by contract: a flag; wait() returns once it is set (the environment sets it)."""

    def __init__(self, flag):
        self.flag = flag

    def set(self):
        self.flag = True
        ghost("T").append("ready_set")

    def clear(self):
        self.flag = False

    def is_set(self):
        return self.flag

    async def wait(self):
        ghost("T").append("ready_wait")
        self.flag = True


class Lock:
    """asyncio.Lock by contract: mutual exclusion (trusted); acquisition and release are events."""

    async def __aenter__(self):
        ghost("T").append("lock")

    async def __aexit__(self, exc_type, exc, tb):
        ghost("T").append("unlock")
        return False


class Handle:
    def __init__(self, cancelled=False):
        self.cancelled = cancelled

    def cancel(self):
        self.cancelled = True
        ghost("cancelled").append(self)


class NewHandle(Handle):
    def __init__(self, coro):
        Handle.__init__(self)
        self.coro = coro


def _create_task(coro, name=None):
    t = NewHandle(coro)
    ghost("created").append(t)
    return t


async def _sleep(delay, result=None):
    ghost("T").append(("sleep", delay))


def _random():
    return ghost("r")[0]


STUBS = [(asyncio, "create_task", _create_task), (asyncio, "sleep", _sleep), (random, "random", _random)]
T = Float(lo=0.0, hi=1.0e6)


def flow(pausing):
    return Obj(
        _RoutingFlowControl,
        _last_busy_frame_time=T,
        _last_sent_routing_indication_time=T,
        _loop=Obj(Clock),
        _ready=Obj(Ev, flag=Bool()),
        _received_busy_frames=Int(0, 1000),
        _send_lock=Obj(Lock),
        _timer_task=Choice(None, Obj(Handle, cancelled=False)),
        _wait_start_time=T if pausing else None,
        _wait_time_ms=Int(0, 65535),
    )


BUSY = Obj(RoutingBusy, device_state=Int(0, 255), wait_time=Int(0, 65535), control_field=Int(0, 65535))


@lemma("C27", family=[dict(pausing=False), dict(pausing=True)], dynamic_params=lambda fixed: dict(fc=flow(fixed["pausing"])), params=dict(rb=BUSY, now=T), stubs=STUBS, float_mode="real")
def a_busy_frame_blocks_sending_for_at_least_its_wait_time(pausing, fc, rb, now):
    """handle_routing_busy at clock reading `now`, any flow-control state: the ready flag is cleared; the end
    of the pause (start + wait time) afterwards is >= now + the announced wait and never earlier than it was;
    if the pause is (re)defined by this frame a new timer is created in the same step (the old one
    cancelled), otherwise the running timer is kept untouched. The busy counter grows by one exactly when a
    pause is running and the previous busy frame is more than 10 ms old."""
    if pausing:
        assume(fc._wait_start_time <= now and fc._timer_task is not None)  # a pause has a timer (set in the same step)
    assume(fc._last_busy_frame_time <= now)
    ghost("clock").append(now)
    prev, n, old = fc._last_busy_frame_time, fc._received_busy_frames, fc._timer_task
    end_before = fc._wait_start_time + fc._wait_time_ms / 1000 if pausing else None
    fc.handle_routing_busy(rb)
    assert not fc._ready.is_set()
    assert fc._last_busy_frame_time == now
    assert fc._wait_start_time is not None
    end_after = fc._wait_start_time + fc._wait_time_ms / 1000
    assert end_after >= now + rb.wait_time / 1000
    if pausing:
        assert end_after >= end_before
        assert fc._received_busy_frames == (n + 1 if now - prev > 0.01 else n)
    else:
        assert fc._received_busy_frames == n
    if fc._timer_task is old:
        # the pause was not redefined: the running timer lifts the block at the unchanged, later end
        assert pausing and ghost("created") == [] and ghost("cancelled") == []
        assert end_after == end_before
    else:
        assert len(ghost("created")) == 1 and fc._timer_task is ghost("created")[0]
        assert old is None or old.cancelled
        assert fc._wait_start_time == now and fc._wait_time_ms == rb.wait_time


LoopSpec(
    "_RoutingFlowControl._resume_sending",
    0,
    modifies=["ghost:T", "self._received_busy_frames"],
    invariant=lambda self: self._received_busy_frames >= 0,
    decreases=lambda self: self._received_busy_frames,
    post=lambda self: ghost("T")[-1] == ("sleep", 0.005),
    only=["the_timer_lifts_the_block_only_after_the_wait_time_and_its_extension"],
)


@lemma("C27", params=dict(fc=flow(True), r=Float(lo=0.0, hi=1.0)), stubs=STUBS, float_mode="real")
def the_timer_lifts_the_block_only_after_the_wait_time_and_its_extension(fc, r):
    """_resume_sending: the first thing is one sleep of wait_time/1000 + random*N*0.05 s (N = busy frames in
    the window); only then the ready flag is set and the pause marked over; then the slow-down of N*0.1 s
    and the fade-out (5 ms per counted frame, loop rule) down to zero."""
    assume(r < 1.0)
    ghost("r").append(r)
    fc._ready.flag = False
    n, wait = fc._received_busy_frames, fc._wait_time_ms
    run(fc._resume_sending())
    tr = ghost("T")
    assert fc._ready.is_set() and fc._wait_start_time is None
    assert fc._received_busy_frames == 0


@lemma("C27", params=dict(fc=flow(True), r=Float(lo=0.0, hi=1.0)), stubs=STUBS, float_mode="real", family=[dict(n=0), dict(n=1), dict(n=3)])
def the_timer_sequence_for_small_windows(n, fc, r):
    """The same function unrolled for N = 0, 1, 3 counted frames: the exact order of its steps."""
    assume(r < 1.0)
    ghost("r").append(r)
    fc._ready.flag = False
    fc._received_busy_frames = n
    wait = fc._wait_time_ms
    run(fc._resume_sending())
    tr = ghost("T")
    assert tr[0] == ("sleep", wait / 1000 + r * n * 0.05)
    assert tr[1] == "ready_set" and tr[2] == ("sleep", n * 0.1)
    assert tr[3:] == [("sleep", 0.005)] * n
    assert fc._received_busy_frames == 0 and fc._wait_start_time is None


# ------------------------------------------------------------------ sending


class RecTransport:
    def send(self, frame, addr=None):
        ghost("T").append(("send", frame))


class RecCallback:
    def __call__(self, raw):
        ghost("T").append(("confirmation", raw))


RAW = b"\x29\x00\xbc\xd0\x11\x01\x08\x01\x01\x00\x81"


def _to_knx(self):
    """CEMIFrame.to_knx (C13): octets that start with the message code."""
    return bytes([self.code.value]) + RAW[1:]


ROUTING = Obj(Routing, xknx=Obj(World), individual_address=None, cemi_received_callback=Const(RecCallback()), local_ip="127.0.0.1", multicast_group="224.0.23.12", multicast_port=3671, transport=Const(RecTransport()), _flow_control=flow(False))
CEMI = Obj(CEMIFrame, code=Const(CEMIMessageCode.L_DATA_REQ), info=None, data=None)


@lemma("C27", params=dict(rt=ROUTING, cemi=CEMI, now=T, later=T), stubs=STUBS + [(CEMIFrame, "to_knx", _to_knx)], float_mode="real")
def an_indication_waits_for_the_spacing_and_the_block_and_is_confirmed_once(rt, cemi, now, later):
    """send_cemi at clock reading `now`: if less than 20 ms passed since the previous indication the rest is
    slept first; then the ready flag is awaited; then - with no await in between - exactly one
    RoutingIndication - all of this under the send lock, so that concurrent senders cannot wait for the same
    instant and leave back to back - exactly one RoutingIndication with the L_Data.ind octets is sent and its time recorded; afterwards exactly one local
    L_Data.con is handed to the receive callback."""
    fc = rt._flow_control
    assume(fc._last_sent_routing_indication_time <= now <= later)
    ghost("clock").append(now)
    ghost("clock").append(later)
    last = fc._last_sent_routing_indication_time
    run(rt.send_cemi(cemi))
    tr = ghost("T")
    assert tr[0] == "lock"  # one sender at a time: the spacing is measured and kept under the send lock
    assert tr[1] == ("time", now)
    if now - last < 0.02:
        assert tr[2] == ("sleep", 0.02 - (now - last))
        rest = tr[3:]
    else:
        rest = tr[2:]
    assert len(rest) == 5 and rest[0] == "ready_wait"
    assert rest[1][0] == "send" and isinstance(rest[1][1].body, RoutingIndication) and rest[1][1].body.raw_cemi == bytes([CEMIMessageCode.L_DATA_IND.value]) + RAW[1:]
    assert rest[2] == ("time", later)  # the time recorded is read after the transmission, not before the wait for the block
    assert rest[3] == "unlock"
    assert rest[4] == ("confirmation", bytes([CEMIMessageCode.L_DATA_CON.value]) + RAW[1:])
    assert fc._last_sent_routing_indication_time == later


class RecFlow:
    def handle_routing_busy(self, rb):
        ghost("T").append(("busy", rb))


@lemma("C27", params=dict(rt=Obj(Routing, xknx=Obj(World), individual_address=None, cemi_received_callback=Const(RecCallback()), local_ip="127.0.0.1", multicast_group="224.0.23.12", multicast_port=3671, transport=Const(RecTransport()), _flow_control=Const(RecFlow())), kind=Choice(0, 1, 2), rb=BUSY, raw=Bytes(min_len=2, max_len=12)))
def every_received_busy_frame_reaches_flow_control(rt, kind, rb, raw):
    """_handle_frame: a RoutingBusy body goes to flow control (whoever sent it), a RoutingIndication's cEMI
    to the receive callback, a lost-message notice is only logged; nothing is sent."""
    body = [rb, RoutingIndication(raw_cemi=raw), RoutingLostMessage()][kind]
    rt._handle_frame(KNXIPFrame.init_from_body(body), HPAI(), None)
    want = [[("busy", rb)], [("confirmation", raw)], []][kind]
    assert ghost("T") == want



# ------------------------------------------------------------------ "the announced wait time" is the one on the wire
# handle_routing_busy takes a parsed RoutingBusy (BUSY above); the parser owes the fields of the frame.

from xknx.exceptions import CouldNotParseKNXIP as _CouldNotParseKNXIP  # noqa: E402


@lemma("C27", params=dict(raw=Bytes(max_len=12)))
def a_parsed_busy_frame_carries_the_wait_time_of_its_octets(raw):
    """RoutingBusy.from_knx, any octets: refused (C20) unless it is the 6-octet body (structure length 6),
    and then device state, wait time (octets 2-3, big endian, milliseconds) and control field (octets 4-5) are
    exactly those of the frame."""
    rb = RoutingBusy()
    try:
        rb.from_knx(raw)
    except (_CouldNotParseKNXIP, IndexError):  # IndexError of a body parser becomes CouldNotParseKNXIP at the frame level (C20)
        return
    assert len(raw) == 6
    assert rb.device_state == raw[1] and rb.wait_time == raw[2] * 256 + raw[3] and rb.control_field == raw[4] * 256 + raw[5]

ASSUMPTIONS = [
    "time is not modelled: asyncio.sleep(d) takes at least d; loop.time() readings are reals and do not decrease; 'no indication until the wait time has elapsed' is derived: the ready flag is cleared by every busy frame, set only by the timer after its first sleep, and awaited by every send",
    "asyncio.Event / Lock / create_task / cancellation behave as their contract classes say (a cancelled timer does not continue; the lock is mutually exclusive)",
    "IEEE rounding of the few clock subtractions and of wait_time/1000 is not modelled (real arithmetic)",
]
