"""C43 - Point-to-point management connections follow the transport-layer protocol."""

import asyncio
import warnings

from contracts.world import FakeTimeout, Holder, World
from pyvc.api import Bool, Choice, Const, Int, ListOfAny, LoopSpec, Obj, assume, ghost, lemma, nondet, run
from xknx.exceptions import CommunicationError, ConfirmationError, ManagementConnectionError, ManagementConnectionRefused, ManagementConnectionTimeout
from xknx.management.management import MANAGAMENT_ACK_TIMEOUT, MANAGAMENT_CONNECTION_TIMEOUT, Management, P2PConnection
from xknx.telegram import IndividualAddress, Telegram, TelegramDirection, apci, tpci

warnings.filterwarnings("ignore", message="coroutine .* was never awaited")

PENDING, RESULT, EXC, CANCELLED = "pending", "result", "exception", "cancelled"


class FakeFuture:
    """asyncio.Future stand-in with asyncio's contract: set_result / set_exception on a future that is
    already done raise InvalidStateError. Awaiting a pending one hands control to the environment: the
    peer's frames are processed meanwhile (ghost 'env' holds what the future is completed with) or the
    surrounding asyncio.timeout fires."""

    def __init__(self, state=PENDING, value=None, role="ack"):
        self.state = state
        self.value = value
        # which of the two waiters it is: process() completes the ack waiter with T_ACK/T_NAK objects and
        # the response waiter with telegrams (futures created while a request runs are ack waiters:
        # the response waiter created at the end of _receive is not awaited by the same request)
        self.role = role

    def done(self):
        return self.state != PENDING

    def cancelled(self):
        return self.state == CANCELLED

    def set_result(self, result):
        if self.state != PENDING:
            raise asyncio.InvalidStateError("invalid state")
        self.state, self.value = RESULT, result

    def set_exception(self, exc):
        if self.state != PENDING:
            raise asyncio.InvalidStateError("invalid state")
        self.state, self.value = EXC, exc

    def cancel(self):
        if self.state == PENDING:
            self.state = CANCELLED
            return True
        return False

    async def __pyvc_await__(self):
        ghost("awaits").append(len(ghost("timeouts")) - len(ghost("timeouts_left")))
        if self.state == PENDING:
            env = ghost("env_" + self.role)
            if len(env) == 0 or nondet(2):
                self.state = CANCELLED
                raise TimeoutError()  # asyncio.timeout fired (it converts the cancellation)
            kind, v = env.pop(0)
            if kind == "result":
                self.set_result(v)
            else:
                self.set_exception(v)
        if self.state == RESULT:
            return self.value
        if self.state == EXC:
            raise self.value
        raise asyncio.CancelledError()

    def __await__(self):
        return self.__pyvc_await__().__await__()


class Timeout(FakeTimeout):
    """asyncio.timeout(d): records d on entry (ghost 'timeouts') and the exit (ghost 'timeouts_left')."""

    async def __aexit__(self, exc_type, exc, tb):
        ghost("timeouts_left").append(1)
        return False


class FakeLoop:
    def create_future(self):
        f = FakeFuture()
        ghost("futures").append(f)
        return f


def _get_event_loop():
    return FakeLoop()


class RecCemiHandler:
    """cemi_handler.send_telegram: records the telegram; may fail with ConfirmationError / CommunicationError
    when `may_fail`."""

    def __init__(self, may_fail):
        self.may_fail = may_fail

    async def send_telegram(self, telegram):
        ghost("sent").append(telegram)
        if self.may_fail:
            k = nondet(3)
            if k == 1:
                raise ConfirmationError("no L_DATA.con")
            if k == 2:
                raise CommunicationError("not connected")


class RecRegistry:
    def background(self, coro):
        run(coro)  # the background task is run at once (it only records the telegram)


class SeqGen:
    """Contract of P2PConnection._sequence_number_generator (proved by the generator lemma below): the
    numbers 0, 1, ..., 15, 0, ... - here started at an arbitrary point of the cycle."""

    def __init__(self, cur):
        self.cur = cur

    def __next__(self):
        v = self.cur
        self.cur = (v + 1) % 16
        return v


SEQ = Int(0, 15)
ADDR = Obj(IndividualAddress, raw=Int(0, 0xFFFF))
PAYLOAD = Choice(None, Obj(apci.DeviceDescriptorResponse, descriptor=0, value=Int(0, 0xFFFF)), Obj(apci.PropertyValueResponse, object_index=0, property_id=1, count=1, start_index=1, data=b"\x00"), Obj(apci.DeviceDescriptorRead, descriptor=0))
TPCI = Choice(
    Obj(tpci.TDataConnected, sequence_number=SEQ),
    Obj(tpci.TAck, sequence_number=SEQ),
    Obj(tpci.TNak, sequence_number=SEQ),
    Obj(tpci.TDisconnect),
    Obj(tpci.TConnect),
    Obj(tpci.TDataIndividual),
    Obj(tpci.TDataBroadcast),
    Obj(tpci.TDataGroup),
    Obj(tpci.TDataTagGroup),
)
TELEGRAM = Obj(Telegram, destination_address=ADDR, direction=Const(TelegramDirection.INCOMING), payload=PAYLOAD, source_address=ADDR, tpci=TPCI, decoded_data=None, data_secure=None)
FUTURE = Obj(FakeFuture, state=Choice(PENDING, RESULT, EXC, CANCELLED), value=None, role="ack")
RESP_FUTURE = Obj(FakeFuture, state=Choice(PENDING, RESULT, EXC, CANCELLED), value=None, role="resp")
RESPONSE = Obj(Telegram, destination_address=ADDR, direction=Const(TelegramDirection.INCOMING), payload=PAYLOAD, source_address=ADDR, tpci=Obj(tpci.TDataConnected, sequence_number=SEQ), decoded_data=None, data_secure=None)


def conn_spec(may_fail=True):
    return Obj(
        P2PConnection,
        xknx=Obj(World, cemi_handler=Obj(RecCemiHandler, may_fail=Const(may_fail)), current_address=Const(IndividualAddress(1))),
        address=ADDR,
        rate_limit=0,
        sequence_number=Obj(SeqGen, cur=SEQ),
        _expected_sequence_number=SEQ,
        _connected=Bool(),
        _last_response_time=0,
        _ack_waiter=Choice(None, FUTURE),
        _response_waiter=RESP_FUTURE,
        disconnect_hook=None,
    )


CONN = conn_spec()
STUBS = [(asyncio, "get_event_loop", _get_event_loop), (asyncio, "timeout", Timeout)]

# ------------------------------------------------------------------ outgoing sequence numbers

LoopSpec(
    "P2PConnection._sequence_number_generator",
    0,
    modifies=["seq_num"],
    invariant=lambda seq_num: 0 <= seq_num <= 15,
    post=lambda seq_num, yielded: len(yielded) == 1 and 0 <= yielded[0] <= 15 and seq_num == (yielded[0] + 1) % 16,
)


@lemma("C43")
def outgoing_numbers_count_modulo_16():
    """The generator body: it starts at 0 (first iteration, checked from the real entry state), and
    every iteration yields exactly one number n in 0..15 and leaves n+1 mod 16 as the next one (loop
    rule, arbitrary iteration) - the SeqGen contract used by the other lemmas."""
    P2PConnection._sequence_number_generator()


# ------------------------------------------------------------------ receive path of one connection


@lemma("C43", params=dict(c=CONN, t=TELEGRAM))
def connection_receive_path_is_total_and_exact(c, t):
    """P2PConnection.process(t), any connection state (waiters pending / completed / cancelled / absent)
    and any telegram: never raises. The response waiter is completed only if it was pending and t is
    numbered data carrying exactly the expected number - the expected number then advances by one
    modulo 16 (so a duplicate of the same frame is not accepted again); an ACK/NAK completes only a
    pending ack waiter; T_Disconnect closes the connection and fails a pending response waiter with
    ManagementConnectionRefused. Nothing else changes."""
    rw, aw = c._response_waiter, c._ack_waiter
    rw_state, aw_state = rw.state, (aw.state if aw is not None else None)
    exp, conn = c._expected_sequence_number, c._connected
    c.process(t)
    assert c._response_waiter is rw and c._ack_waiter is aw
    p = t.tpci
    if isinstance(p, tpci.TDisconnect):
        assert not c._connected and c._expected_sequence_number == exp
        if rw_state == PENDING:
            assert rw.state == EXC and isinstance(rw.value, ManagementConnectionRefused)
        else:
            assert rw.state == rw_state
        assert aw is None or aw.state == aw_state
        return
    assert c._connected == conn
    if isinstance(p, (tpci.TAck, tpci.TNak)):
        assert rw.state == rw_state and c._expected_sequence_number == exp
        if aw is not None and aw_state == PENDING:
            assert aw.state == RESULT and aw.value is p
        else:
            assert aw is None or aw.state == aw_state
        return
    assert aw is None or aw.state == aw_state
    if rw_state == PENDING and isinstance(p, tpci.TDataConnected) and p.sequence_number == exp:
        assert rw.state == RESULT and rw.value is t
        assert c._expected_sequence_number == (exp + 1) % 16
    else:
        assert rw.state == rw_state and c._expected_sequence_number == exp


# ------------------------------------------------------------------ Management.process


class RecConn:
    def __init__(self, expected):
        self._expected_sequence_number = expected

    def process(self, telegram):
        ghost("delivered").append((self, telegram))


class ConnTable:
    """dict[IndividualAddress, connection] with at most one entry (dict semantics: lookup by ==)."""

    def __init__(self, peer, conn):
        self.peer, self.conn = peer, conn

    def get(self, address, default=None):
        if self.conn is not None and address == self.peer:
            return self.conn
        return default


class RecCtxQueue:
    def put_nowait(self, telegram):
        ghost("broadcast").append((self, telegram))


LoopSpec("Management.process", 0, modifies=[], invariant=lambda: True, post=lambda context, telegram: ghost("broadcast") == [(context.queue, telegram)])

MGMT = Obj(
    Management,
    xknx=Obj(World, cemi_handler=Obj(RecCemiHandler, may_fail=Const(False)), task_registry=Const(RecRegistry())),
    _connections=Const(None),
    _broadcast_contexts=ListOfAny(Obj(Holder, queue=Obj(RecCtxQueue))),
)


@lemma("C43", params=dict(m=MGMT, t=TELEGRAM, peer=ADDR, has_conn=Bool(), expected=SEQ))
def management_receive_path(m, t, peer, has_conn, expected):
    """Management.process(t) with zero or one open connection (to `peer`), any telegram: never raises; a
    frame reaches a connection only if its source address is that connection's peer; an incoming
    T_Connect from anyone else is refused with T_Disconnect; broadcasts go to every broadcast context
    once (loop rule); an acknowledgement is sent only for numbered data, to the sender, with the frame's
    own number - and (property) only if the frame belongs to an open connection and carries the expected
    or the immediately preceding number."""
    conn = RecConn(expected)
    m._connections = ConnTable(peer, conn if has_conn else None)
    m.process(t)
    mine = has_conn and t.source_address == peer
    if mine:
        assert ghost("delivered") == [(conn, t)]
    else:
        assert ghost("delivered") == []
    sent = ghost("sent")
    p = t.tpci
    acks = [x for x in sent if isinstance(x.tpci, tpci.TAck)]
    others = [x for x in sent if not isinstance(x.tpci, tpci.TAck)]
    if acks:
        assert len(acks) == 1 and isinstance(p, tpci.TDataConnected)
        assert acks[0].destination_address == t.source_address and acks[0].tpci.sequence_number == p.sequence_number
        assert mine and (p.sequence_number == expected or p.sequence_number == (expected - 1) % 16)
    if others:
        assert len(others) == 1 and isinstance(others[0].tpci, tpci.TDisconnect)
        assert isinstance(p, tpci.TConnect) and not mine and others[0].destination_address == t.source_address
    if isinstance(p, tpci.TDataConnected) and mine and p.sequence_number == expected:
        assert len(acks) == 1


# ------------------------------------------------------------------ sending data and waiting for the ACK

ACK = Choice(Obj(tpci.TAck, sequence_number=SEQ), Obj(tpci.TNak, sequence_number=SEQ))
OUT_PAYLOAD = Obj(apci.DeviceDescriptorRead, descriptor=0)


@lemma("C43", params=dict(c=CONN, payload=OUT_PAYLOAD, ack1=ACK, ack2=ACK, n_env=Choice(0, 1, 2), wait=Bool()), stubs=STUBS)
def send_data_numbers_and_acknowledgement(c, payload, ack1, ack2, n_env, wait):
    """send_data, any connection state, any ACK/NAK history (none, one, two; any numbers; timeouts at any
    wait): it returns normally only if the connection is open and (when waiting for the ACK) a T_ACK with
    the number of the frame just sent arrived; every other history ends in a management error. The frame
    carries the next number of the modulo-16 sequence; it is sent once, or twice after an ACK timeout -
    the repetition is the same frame with the same number; every wait is inside an asyncio.timeout of
    3 s (at most two of them: bounded time); no ack waiter is left behind."""
    ghost("env_ack").extend([("result", a) for a in [ack1, ack2][:n_env]])
    nxt = c.sequence_number.cur
    connected = c._connected
    ok = True
    try:
        run(c.send_data(payload, wait_for_ack=wait))
    except ManagementConnectionError:
        ok = False
    except CommunicationError:
        assert not wait  # (fire-and-forget sends are not "requests": the raw sending error is passed on)
        ok = False
    sent = ghost("sent")
    if not connected:
        assert not ok and sent == [] and c.sequence_number.cur == nxt
        return
    assert c.sequence_number.cur == (nxt + 1) % 16
    assert 1 <= len(sent) <= 2
    for x in sent:
        assert isinstance(x.tpci, tpci.TDataConnected) and x.tpci.sequence_number == nxt
        assert x.destination_address == c.address and x.payload is payload
    if len(sent) == 2:
        assert sent[0] is sent[1]
    if not wait:
        assert len(sent) == 1
        return
    assert c._ack_waiter is None
    assert all(d == MANAGAMENT_ACK_TIMEOUT for d in ghost("timeouts")) and len(ghost("timeouts")) <= 2
    assert MANAGAMENT_ACK_TIMEOUT == 3
    assert all(k >= 1 for k in ghost("awaits"))  # every wait happened inside a timeout block
    if ok:
        used = [a for a in [ack1, ack2][:n_env]][: n_env - len(ghost("env_ack"))]
        assert len(used) >= 1
        last = used[-1]
        assert isinstance(last, tpci.TAck) and last.sequence_number == nxt


# ------------------------------------------------------------------ receiving the response


@lemma("C43", params=dict(c=CONN, t=RESPONSE, expected=Choice(None, Const(apci.DeviceDescriptorResponse), Const(apci.PropertyValueResponse)), outcome=Choice("none", "result", "refused")), stubs=STUBS)
def receive_uses_each_response_once(c, t, expected, outcome):
    """_receive(expected type), any state of the response waiter and any completion while waiting: it
    returns only the telegram the waiter was completed with, and only if its payload has the expected
    type (else ManagementConnectionError / Timeout / Refused); it waits inside an asyncio.timeout of 6 s;
    in every case a fresh pending waiter replaces the used one - a response is handed out once."""
    if outcome == "result":
        ghost("env_resp").append(("result", t))
    elif outcome == "refused":
        ghost("env_resp").append(("exception", ManagementConnectionRefused()))
    old = c._response_waiter
    old_state, old_value = old.state, old.value
    assume(old_state != RESULT or old_value is None)
    if old_state == RESULT:
        old.value = t
    if old_state == EXC:
        old.value = ManagementConnectionRefused()
    r = None
    try:
        r = run(c._receive(expected))
    except ManagementConnectionError:
        pass
    except asyncio.CancelledError:
        assert old_state == CANCELLED
    new = c._response_waiter
    assert new is not old and new.state == PENDING and ghost("futures") == [new]
    assert ghost("timeouts") == [MANAGAMENT_CONNECTION_TIMEOUT] and MANAGAMENT_CONNECTION_TIMEOUT == 6
    if r is not None:
        assert r is t and old.state == RESULT
        assert expected is None or isinstance(t.payload, expected)


@lemma("C43", params=dict(c=conn_spec(may_fail=False), ack=ACK, t=RESPONSE, have_ack=Bool(), have_resp=Bool()), stubs=STUBS)
def request_returns_only_the_expected_response(c, ack, t, have_ack, have_resp):
    """request(DeviceDescriptorRead): on a closed connection it fails with ManagementConnectionRefused
    and sends nothing; otherwise it returns only a telegram whose payload is a DeviceDescriptorResponse
    (the type the request names), after a matching T_ACK - or fails with a management error."""
    assume(c._response_waiter.state == PENDING and c._ack_waiter is None)
    if have_ack:
        ghost("env_ack").append(("result", ack))
    if have_resp:
        ghost("env_resp").append(("result", t))
    connected = c._connected
    nxt = c.sequence_number.cur
    payload = apci.DeviceDescriptorRead(descriptor=0)
    r = None
    try:
        r = run(c.request(payload))
    except ManagementConnectionRefused:
        assert not connected or True
    except ManagementConnectionError:
        pass
    if not connected:
        assert r is None and ghost("sent") == []
    if r is not None:
        assert have_ack and have_resp and r is t
        assert isinstance(ack, tpci.TAck) and ack.sequence_number == nxt
        assert isinstance(r.payload, apci.DeviceDescriptorResponse)


ASSUMPTIONS = [
    "asyncio is trusted behind the contract stubs: a cancelled task/future does not continue, asyncio.timeout cancels what it guards, locks are mutually exclusive, queues are FIFO, tasks switch only at awaits; interleavings inside one await are represented by 'the awaited object completes with any admissible value, times out, or the connection closes'",
    "link loss/duplication is represented by arbitrary per-call inputs, not by a device model",
]


# ------------------------------------------------------------------ opening and closing a connection


class Hook:
    def __call__(self):
        ghost("hook").append(1)


@lemma("C43", params=dict(c=CONN))
def connect_succeeds_only_after_the_connect_frame_went_out(c):
    """P2PConnection.connect(): exactly one T_Connect to the peer; the connection counts as open only if
    sending it succeeded, otherwise the response waiter is cancelled and a management error raised."""
    assume(not c._connected)
    rw = c._response_waiter
    ok = True
    try:
        run(c.connect())
    except ManagementConnectionError:
        ok = False
    sent = ghost("sent")
    assert len(sent) == 1 and isinstance(sent[0].tpci, tpci.TConnect) and sent[0].destination_address == c.address
    assert c._connected == ok
    if not ok and rw.state == PENDING:
        assert False, "response waiter left pending after a failed connect"


@lemma("C43", params=dict(c=CONN))
def disconnect_closes_and_releases_everything(c):
    """P2PConnection.disconnect(), any state: on a connection the peer already closed nothing is sent and
    ManagementConnectionRefused is raised; otherwise exactly one T_Disconnect goes out; in every case the
    connection is closed afterwards, no waiter stays pending (a request still waiting fails at once) and
    the connection is removed from the management table exactly once."""
    c.disconnect_hook = Hook()
    was = c._connected
    aw, rw = c._ack_waiter, c._response_waiter
    try:
        run(c.disconnect())
    except ManagementConnectionError:
        pass
    assert not c._connected and ghost("hook") == [1]
    sent = ghost("sent")
    if was:
        assert len(sent) == 1 and isinstance(sent[0].tpci, tpci.TDisconnect) and sent[0].destination_address == c.address
        assert rw.state != PENDING and (aw is None or aw.state != PENDING)
    else:
        assert sent == []


# ------------------------------------------------------------------ the connection table of Management

import xknx.management.management as mgmt_mod  # noqa: E402


class FakeP2P:
    """P2PConnection stand-in for the table lemmas (its own behaviour: lemmas above)."""

    def __init__(self, xknx, address, rate_limit=20):
        self.address = address
        self.disconnect_hook = None
        ghost("created").append(self)

    async def connect(self):
        ghost("T").append(("connect", self.address))
        if ghost("connect_fails")[-1]:
            raise ManagementConnectionError("no connection")

    async def disconnect(self):
        ghost("T").append(("disconnect", self.address))
        self.disconnect_hook()
        if ghost("disconnect_fails")[-1] == 1:
            raise ManagementConnectionError("disconnect failed")
        if ghost("disconnect_fails")[-1] == 2:
            # P2PConnection.disconnect on a connection the peer closed before (disconnect_closes_and_releases_everything)
            raise ManagementConnectionRefused("Management connection disconnected by the peer.")


class Table:
    """dict[IndividualAddress, connection] holding at most one entry (dict semantics, lookup by ==)."""

    def __init__(self):
        self.key, self.value = None, None

    def __contains__(self, k):
        return self.key is not None and self.key == k

    def __setitem__(self, k, v):
        assert self.key is None or self.key == k
        self.key, self.value = k, v

    def __delitem__(self, k):
        if self.key is None or not (self.key == k):
            raise KeyError(k)
        self.key, self.value = None, None

    def get(self, k, default=None):
        return self.value if (self.key is not None and self.key == k) else default


@lemma("C43", params=dict(m=Obj(Management, xknx=Obj(World), _connections=Obj(Table, key=None, value=None), _broadcast_contexts=Const(None)), a=ADDR, b=ADDR, connect_fails=Bool(), disconnect_fails=Choice(0, 1, 2), body_fails=Bool()), stubs=[(mgmt_mod, "P2PConnection", FakeP2P)])
def connection_context_opens_once_and_always_closes(m, a, b, connect_fails, disconnect_fails, body_fails):
    """Management.connection(address): a frame belongs to 'an open connection' only between a successful
    connect() and the disconnect - the connection is entered into the table only after connect()
    succeeded, a second connection to the same address is refused, the context always disconnects (also
    when its body raises) and the disconnect hook removes exactly this entry; a failed connect leaves the
    table unchanged. What the disconnect raises leaves the context unchanged - in particular
    ManagementConnectionRefused ("the peer closed this connection"), which the procedures read as "a device
    lives at this address"."""
    ghost("connect_fails").append(connect_fails)
    ghost("disconnect_fails").append(disconnect_fails)
    raised = None
    try:
        async def use():
            async with m.connection(a) as conn:
                assert a in m._connections and m._connections.get(a) is conn
                # a second connection to the same peer is refused while this one is open
                try:
                    await m.connect(a)
                    assert False
                except ManagementConnectionError:
                    pass
                if body_fails:
                    raise RuntimeError("body failed")

        run(use())
    except ManagementConnectionRefused:
        raised = "refused"
    except ManagementConnectionError:
        raised = "mgmt"
    except RuntimeError:
        raised = "body"
    tr = ghost("T")
    assert a not in m._connections
    if connect_fails:
        assert raised == "mgmt" and [x[0] for x in tr] == ["connect"] and len(ghost("created")) == 1
    else:
        assert [x[0] for x in tr] == ["connect", "disconnect"] and len(ghost("created")) == 1
        assert raised == ("refused" if disconnect_fails == 2 else "mgmt" if disconnect_fails == 1 else "body" if body_fails else None)


# ------------------------------------------------------------------ which response a request expects (KNX 03_03_07)

from pyvc.api import standin  # noqa: E402

# request service -> the response service the application layer specification pairs it with
RESPONSE_OF = {
    "ADCRead": "ADCResponse",
    "AuthorizeRequest": "AuthorizeResponse",
    "DeviceDescriptorRead": "DeviceDescriptorResponse",
    "FilterTableRead": "FilterTableResponse",
    "FunctionPropertyExtStateRead": "FunctionPropertyExtStateResponse",
    "FunctionPropertyStateRead": "FunctionPropertyStateResponse",
    "KeyWrite": "KeyResponse",
    "LinkRead": "LinkResponse",
    "MemoryExtendedRead": "MemoryExtendedReadResponse",
    "MemoryExtendedWrite": "MemoryExtendedWriteResponse",
    "MemoryRead": "MemoryResponse",
    "PropertyDescriptionRead": "PropertyDescriptionResponse",
    "PropertyExtDescriptionRead": "PropertyExtDescriptionResponse",
    "PropertyExtValueRead": "PropertyExtValueResponse",
    "PropertyExtValueWriteCon": "PropertyExtValueWriteConRes",
    "PropertyValueRead": "PropertyValueResponse",
    "RestartMasterReset": "RestartMasterResetResponse",
    "RouterMemoryRead": "RouterMemoryResponse",
    "RouterStatusRead": "RouterStatusResponse",
    "UserManufacturerInfoRead": "UserManufacturerInfoResponse",
    "UserMemoryRead": "UserMemoryResponse",
}


def _request_classes(tier):
    yield ("all",)


@standin("C43", cases=_request_classes, kind="enum-native", exhaustive=True, bound="every subclass of APCIRequest in xknx.telegram.apci (21): the response type P2PConnection.request() verifies against (RESPONSE_TYPE) is the response service the KNX application layer pairs with the request - the table is written from the specification, not read from the code - and every request class is in the table")
def every_request_expects_the_response_the_specification_pairs_it_with(_):
    import inspect

    import xknx.telegram.apci as apci_mod

    found = {n: c for n, c in inspect.getmembers(apci_mod, inspect.isclass) if issubclass(c, apci_mod.APCIRequest) and c is not apci_mod.APCIRequest and c.__module__ == apci_mod.__name__}
    assert sorted(found) == sorted(RESPONSE_OF), ("request classes and table differ", sorted(set(found) ^ set(RESPONSE_OF)))
    for name, cls in found.items():
        assert cls.RESPONSE_TYPE is getattr(apci_mod, RESPONSE_OF[name]), (name, cls.RESPONSE_TYPE.__name__, RESPONSE_OF[name])
        assert not issubclass(cls.RESPONSE_TYPE, apci_mod.APCIRequest)
