"""C41 - Exposed values respect cooldown and always end up on the bus.

The statement is a timing relation between value updates and telegrams.  What carries it are the
contracts of the five functions that touch the cooldown state (`set`, `_cooldown_send`, `process_group_read`,
`_periodic_send_impl`, `initialize_value`), the constructor's wiring of the cooldown task, and the task
contract proved in C36 / below (an instance sleeps wait_before_start before every run of its target):

  (S) every value telegram caused by an update leaves either together with a fresh start of the cooldown
      task (no await in between) or from the cooldown task's own target, after which the task sleeps the
      cooldown again before its next run  =>  two such telegrams are at least the cooldown apart;
  (P) while the cooldown task runs, an update is only remembered (`_payload_after_cooldown`), and the target
      sends the remembered value when it differs from the last payload the device processed, else ends the
      task  =>  the most recent value goes out at the end of the running cooldown, or was already the last
      one; whenever the task is not running nothing is remembered that was not sent (invariant I below).

Time itself is not modelled: `asyncio.sleep(d)` is trusted to take at least d.
"""

import asyncio
import warnings

import xknx.devices.expose_sensor as es_mod
from contracts.world import World
from pyvc.api import Bool, Choice, Const, Float, Int, LoopSpec, Obj, assume, ghost, lemma, nondet, run, since_last
from xknx.core import Task
from xknx.devices import ExposeSensor
from xknx.exceptions import ConversionError
from xknx.telegram import GroupAddress, Telegram, TelegramDirection
from xknx.telegram.apci import GroupValueRead, GroupValueWrite

warnings.filterwarnings("ignore", message="coroutine .* was never awaited")


class Handle:
    """asyncio.Task handle of a task instance: running (done() False) or finished; cancel() ends it."""

    def __init__(self, finished):
        self.finished = finished

    def done(self):
        return self.finished

    def cancel(self):
        ghost("T").append("cancel")
        self.finished = True


class RecRegistry:
    """TaskRegistry.start_task's contract (C36): a running instance is cancelled and a new one started,
    which sleeps wait_before_start and then runs the target."""

    def start_task(self, task):
        ghost("T").append(("start", task.name))
        task._task = Handle(False)

    def remove_task(self, task):
        ghost("T").append(("remove", task.name))
        task._task = None


class StubSensorValue:
    """RemoteValueSensor by contract (C11 / C39: send_raw queues exactly one telegram with that payload;
    processing the own outgoing telegram makes it last_payload): to_knx encodes or refuses; payloads are
    compared with == only, small integers stand for them."""

    def __init__(self, last_payload, value, encoded, refuses):
        self.last_payload, self._value, self.encoded, self.refuses = last_payload, value, encoded, refuses

    def to_knx(self, value):
        if self.refuses:
            raise ConversionError("cannot encode")
        return self.encoded

    def send_raw(self, payload, response=False):
        ghost("T").append(("send", payload, response))

    def respond(self):
        ghost("T").append("respond")

    def process(self, telegram, always_callback=False):
        ghost("T").append("process")
        return True

    @property
    def value(self):
        return self._value

    @value.setter
    def value(self, value):
        if value is not None:
            self.last_payload = self.to_knx(value)
        else:
            self.last_payload = None
        self._value = value


PAYLOAD = Choice(None, Int(0, 3))


def task_spec(name, running):
    return Obj(Task, name=name, target=None, restart_after_reconnect=Bool(), wait_before_start=Float(lo=0.001, hi=100000.0), wait_for_connection=Bool(), repeat_after=0, _task=running, xknx=None)


def sensor(cooldown=True, periodic=Choice(None, task_spec("periodic", Choice(None, Obj(Handle, finished=Bool()))))):
    return Obj(
        ExposeSensor,
        xknx=Obj(World, task_registry=Const(RecRegistry())),
        name="e",
        device_updated_cbs=Const([]),
        respond_to_read=Bool(),
        sensor_value=Obj(StubSensorValue, last_payload=PAYLOAD, value=None, encoded=Int(0, 3), refuses=Bool()),
        _payload_after_cooldown=PAYLOAD,
        _cooldown_task=task_spec("cooldown", Choice(None, Obj(Handle, finished=Bool()))) if cooldown else None,
        _periodic_send_task=periodic,
    )


def sends(tr, response=None):
    return [e for e in tr if isinstance(e, tuple) and e[0] == "send" and (response is None or e[2] == response)]


# ------------------------------------------------------------------ set()


@lemma("C41", params=dict(e=sensor(), skip=Bool()))
def an_update_during_cooldown_is_only_remembered(e, skip):
    """set() with a cooldown configured: a value that cannot be encoded changes nothing; an unchanged value
    with skip_unchanged is dropped only if it equals the value last *set* (remembered or sent); while the
    cooldown task runs the value is remembered and nothing is sent or (re)started; otherwise the cooldown
    task is started and the value sent at once, in this order and with no await in between (S)."""
    pending, running = e._payload_after_cooldown, not e._cooldown_task.done()
    sv = e.sensor_value
    try:
        run(e.set(1.0, skip_unchanged=skip))
    except ConversionError:
        assert sv.refuses and ghost("T") == [] and e._payload_after_cooldown == pending
        return
    assert not sv.refuses
    tr = ghost("T")
    if skip and pending == sv.encoded:
        assert tr == [] and e._payload_after_cooldown == pending
        return
    assert e._payload_after_cooldown == sv.encoded
    if running:
        assert tr == []
    else:
        assert tr == [("start", "cooldown"), ("send", sv.encoded, False)]
        assert not e._cooldown_task.done()


@lemma("C41", params=dict(e=sensor(cooldown=False), skip=Bool()))
def without_cooldown_every_update_is_sent_at_once(e, skip):
    pending = e._payload_after_cooldown
    sv = e.sensor_value
    try:
        run(e.set(1.0, skip_unchanged=skip))
    except ConversionError:
        assert sv.refuses and ghost("T") == [] and e._payload_after_cooldown == pending
        return
    if skip and pending == sv.encoded:
        assert ghost("T") == []
    else:
        assert ghost("T") == [("send", sv.encoded, False)] and e._payload_after_cooldown == sv.encoded


# ------------------------------------------------------------------ the cooldown task's target


@lemma("C41", params=dict(e=sensor()))
def cooldown_expiry_sends_what_is_remembered_or_ends_the_cooldown(e):
    """_cooldown_send (runs when the cooldown has passed): if the remembered value differs from the payload
    the device last processed it is sent - exactly once, not as a response - and the task stays alive (its
    loop sleeps the cooldown again, lemma below); if not, nothing is sent and the task ends itself, so the
    next update is sent at once (P)."""
    assume(e._cooldown_task._task is not None and not e._cooldown_task._task.finished)  # it is the running instance's target
    pending, last = e._payload_after_cooldown, e.sensor_value.last_payload
    run(e._cooldown_send())
    tr = ghost("T")
    if pending == last:
        assert tr == ["cancel"] and e._cooldown_task.done()
    else:
        assert tr == [("send", pending, False)] and not e._cooldown_task.done()
    assert e._payload_after_cooldown == pending


# ------------------------------------------------------------------ read requests, periodic sending, initialize


READ = Obj(Telegram, destination_address=Const(GroupAddress(1)), direction=Const(TelegramDirection.INCOMING), payload=Const(GroupValueRead()), source_address=None, tpci=None, decoded_data=None, data_secure=None)


@lemma("C41", params=dict(e=sensor(cooldown=Bool()), t=READ), family=[dict(with_cooldown=True), dict(with_cooldown=False)], dynamic_params=lambda fixed: dict(e=sensor(cooldown=fixed["with_cooldown"])))
def read_requests_get_the_most_recent_value(with_cooldown, e, t):
    """process_group_read: nothing unless respond_to_read; otherwise the most recently set (or initialized)
    value is sent as a response, whether or not a cooldown runs - and the cooldown restarts, so that an
    update-caused telegram does not follow closer than the cooldown; before any value was set the remote
    value answers with what it holds."""
    pending = e._payload_after_cooldown
    e.process_group_read(t)
    tr = ghost("T")
    if not e.respond_to_read:
        assert tr == []
    elif pending is None:
        assert tr == ["respond"]
    elif with_cooldown:
        assert tr == [("send", pending, True), ("start", "cooldown")]
    else:
        assert tr == [("send", pending, True)]
    assert e._payload_after_cooldown == pending


@lemma("C41", family=[dict(with_cooldown=True), dict(with_cooldown=False)], dynamic_params=lambda fixed: dict(e=sensor(cooldown=fixed["with_cooldown"])))
def periodic_sending_repeats_the_most_recent_value_and_restarts_the_cooldown(with_cooldown, e):
    pending = e._payload_after_cooldown
    run(e._periodic_send_impl())
    tr = ghost("T")
    if pending is None:
        assert tr == []
    elif with_cooldown:
        assert tr == [("send", pending, False), ("start", "cooldown")]
    else:
        assert tr == [("send", pending, False)]
    assert e._payload_after_cooldown == pending


@lemma("C41", params=dict(e=sensor(), clear=Bool()))
def an_initialized_value_counts_as_sent(e, clear):
    """initialize_value: no telegram, nothing started; afterwards nothing is remembered for sending (the
    remembered payload is the payload the remote value now holds), so a running cooldown ends itself and
    skip_unchanged compares against this value."""
    pending = e._payload_after_cooldown
    try:
        e.initialize_value(None if clear else 1.0)
    except ConversionError:
        assert not clear and e.sensor_value.refuses and e._payload_after_cooldown == pending and ghost("T") == []
        return
    assert ghost("T") == []
    assert e._payload_after_cooldown == e.sensor_value.last_payload == (None if clear else e.sensor_value.encoded)


# ------------------------------------------------------------------ invariant I: nothing is remembered unsent while no cooldown runs


@lemma("C41", params=dict(e=sensor(), op=Choice("set", "set_skip", "expiry", "read", "periodic", "initialize", "processed")))
def nothing_stays_remembered_without_a_running_cooldown(e, op):
    """I: cooldown task not running  =>  the remembered payload is the payload last sent (or initialized).
    `last_sent` is ghost state: the payload of the last value telegram; the device's last_payload follows it
    when the own telegram is processed (assumption: before the cooldown expires).  Every operation preserves
    I; with (P) this is 'the most recently set value is sent within one cooldown unless it equals the value
    last on the bus'."""
    sv = e.sensor_value
    last_sent = sv.last_payload  # the own telegram has been processed
    running = not e._cooldown_task.done()
    assume(running or e._payload_after_cooldown == last_sent)
    assume(not sv.refuses)
    if op == "expiry":
        assume(running)
        run(e._cooldown_send())
    elif op == "set":
        run(e.set(1.0))
    elif op == "set_skip":
        run(e.set(1.0, skip_unchanged=True))
    elif op == "read":
        e.process_group_read(Telegram(destination_address=GroupAddress(1), payload=GroupValueRead()))
    elif op == "periodic":
        run(e._periodic_send_impl())
    elif op == "initialize":
        e.initialize_value(1.0)
        last_sent = sv.last_payload
    else:
        pass
    for ev in sends(ghost("T"), response=False):
        last_sent = ev[1]
    assert (not e._cooldown_task.done()) or e._payload_after_cooldown == last_sent


# ------------------------------------------------------------------ the wiring: constructor and task loop


class FakeRV(StubSensorValue):
    def __init__(self, xknx, group_address=None, sync_state=True, device_name=None, after_update_cb=None, value_type=None):
        StubSensorValue.__init__(self, None, None, 0, False)


async def _sleep(delay, result=None):
    ghost("T").append(("sleep", delay))


@lemma("C41", params=dict(cooldown=Float(lo=0.0, hi=100000.0), periodic=Float(lo=0.0, hi=100000.0)), stubs=[(es_mod, "RemoteValueSensor", FakeRV)])
def the_constructor_wires_the_cooldown_task(cooldown, periodic):
    """ExposeSensor(cooldown=c): for c > 0 a task whose target is _cooldown_send, which sleeps c before
    every run (wait_before_start=c, repeat_after=0) and waits for the connection; for c == 0 no cooldown
    task (every update is sent at once, lemma above). Likewise the periodic task."""
    xk = World()
    xk.task_registry = RecRegistry()
    e = ExposeSensor(xk, "e", group_address=None, value_type="temperature", cooldown=cooldown, periodic_send=periodic)
    assert e._payload_after_cooldown is None
    if cooldown > 0:
        t = e._cooldown_task
        assert t.target == e._cooldown_send and t.wait_before_start == cooldown and t.repeat_after == 0 and t.wait_for_connection and not t.restart_after_reconnect
    else:
        assert e._cooldown_task is None
    if periodic > 0:
        t = e._periodic_send_task
        assert t.target == e._periodic_send_impl and t.wait_before_start == periodic and t.repeat_after == 0 and t.restart_after_reconnect
    else:
        assert e._periodic_send_task is None


class Connected:
    """connection_manager.connected: set or not; waiting for it returns once it is (C36)."""

    def is_set(self):
        return nondet(2) == 1

    async def wait(self):
        ghost("conn").append("waited")


class Target:
    """The task's target: each run is an event of the trace."""

    def __call__(self):
        ghost("T").append("target")
        if nondet(2):
            raise StopTarget()  # (gives the native replay an end; a raising target ends the instance)


class StopTarget(Exception):
    pass


def _cooldown_iteration_post(self):
    tr = ghost("T")
    return tr[-1] == ("sleep", 0) and tr[-2] == "target" and tr[-3] == ("sleep", self.wait_before_start)


LoopSpec("Task._start_internal", 0, modifies=["ghost:T", "ghost:conn", "job"], invariant=lambda: True, post=_cooldown_iteration_post, only=["a_task_instance_sleeps_the_cooldown_before_every_run"])


@lemma(
    "C41",
    params=dict(t=Obj(Task, name="cooldown", target=Const(Target()), restart_after_reconnect=False, wait_before_start=Float(lo=0.001, hi=100000.0), wait_for_connection=True, repeat_after=0, _task=None, xknx=Obj(World, connection_manager=Obj(World, connected=Const(Connected()))))),
    stubs=[(asyncio, "sleep", _sleep)],
)
def a_task_instance_sleeps_the_cooldown_before_every_run(t):
    """Task._start_internal with wait_before_start = c and repeat_after = 0 (the cooldown task), loop rule,
    any iteration: the instance sleeps c, runs the target once (after the connection is there), sleeps 0 and
    starts over; it never leaves the loop by itself. So the target's telegram is followed by the target's
    next run no sooner than c later, and the first run comes c after the start (S)."""
    try:
        run(t._start_internal())
    except StopTarget:
        return
    assert False, "the cooldown loop does not end by itself"


ASSUMPTIONS = [
    "time is not modelled: asyncio.sleep(d) takes at least d; 'at least the cooldown apart' is derived from the contracts (every update telegram is paired with a start of the cooldown task or leaves from its target, which sleeps the cooldown before its next run)",
    "TaskRegistry.start_task cancels a running instance and starts a new one (C36); a cancelled instance does not continue",
    "the device processes its own outgoing telegram (RemoteValue.last_payload follows the telegram sent) before the cooldown expires; RemoteValue.send_raw queues exactly the payload it is given (C11 / C39)",
]


# ------------------------------------------------------------------ what the cooldown relies on: last_payload follows every processed telegram

from xknx.dpt import DPTArray as _DPTArray  # noqa: E402
from xknx.remote_value import RemoteValueSensor as _RVSensor  # noqa: E402


class _RecUpdater:
    def update_received(self, rv):
        pass


from xknx.dpt import DPTScaling as _DPTScaling  # noqa: E402
from xknx.telegram import IndividualAddress as _IA  # noqa: E402

_PERCENT_RV = Obj(
    _RVSensor,
    xknx=Obj(World, state_updater=Const(_RecUpdater()), current_address=Const(_IA(1))),
    group_address=Obj(GroupAddress, raw=0x0A03),
    group_address_state=None,
    passive_group_addresses=Const([]),
    device_name="d",
    feature_name="f",
    _value=None,
    _payload=None,
    telegram=None,
    after_update_cb=None,
    _sync_state=False,
    dpt_class=Const(_DPTScaling),
)


@lemma("C41", params=dict(rv=_PERCENT_RV, octet=Int(0, 255), stored_octet=Choice(None, Int(0, 255)), stored_value=Choice(None, Int(0, 100)), outgoing=Bool()), float_mode="real")
def the_last_payload_is_the_payload_of_the_last_processed_telegram(rv, octet, stored_octet, stored_value, outgoing):
    """RemoteValue.process (real, percent type - neighbouring payloads decode to the same value): after every
    accepted telegram last_payload is that telegram's payload, also when the decoded value did not change.
    The cooldown compares payloads: a stale last_payload would make a pending value count as already sent."""
    if stored_octet is not None:
        rv._payload = _DPTArray((stored_octet,))
    rv._value = stored_value  # whatever value is stored - in particular the one the new payload decodes to
    payload = _DPTArray((octet,))
    t = Telegram(destination_address=GroupAddress(0x0A03), direction=TelegramDirection.OUTGOING if outgoing else TelegramDirection.INCOMING, payload=GroupValueWrite(payload))
    assert rv.process(t)
    assert rv.last_payload == payload
