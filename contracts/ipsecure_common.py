"""Shared contract stubs for the KNX IP Secure transport layer (C29, C30)."""

from pyvc.api import ghost, nondet
from xknx.exceptions import CouldNotParseKNXIP, KNXSecureValidationError
from xknx.knxip import KNXIPFrame
import xknx.io.ip_secure as ips


# --- cryptographic primitives: uninterpreted. Each call records its arguments (ghost 'crypto') and
# returns the next value the lemma supplied (ghost 'crypto_out'): the results are arbitrary byte
# strings, nothing about AES is assumed.


def _mac_cbc(key, additional_data, payload=b"", block_0=bytes(16)):
    ghost("crypto").append(("cbc", key, additional_data, payload, block_0))
    return ghost("cbc_out").pop(0)


def _decrypt_ctr(key, counter_0, mac, payload=b""):
    ghost("crypto").append(("dec", key, counter_0, mac, payload))
    return ghost("dec_out").pop(0)


def _encrypt_ctr(key, counter_0, mac_cbc, payload=b""):
    ghost("crypto").append(("enc", key, counter_0, mac_cbc, payload))
    return ghost("enc_out").pop(0)


def _frame_from_knx(data):
    """KNXIPFrame.from_knx on the decrypted octets: CouldNotParseKNXIP or some frame (C20)."""
    ghost("parsed").append(data)
    r = ghost("parse_out").pop(0)
    if r is None:
        raise CouldNotParseKNXIP("unsupported")
    return r, b""


CRYPTO_STUBS = [
    (ips, "calculate_message_authentication_code_cbc", _mac_cbc),
    (ips, "decrypt_ctr", _decrypt_ctr),
    (ips, "encrypt_data_ctr", _encrypt_ctr),
    (KNXIPFrame, "from_knx", _frame_from_knx),
]


def decrypt_frame_contract(self, encrypted_frame):
    """Contract of _IPSecureTransportLayer.decrypt_frame (proved in C29 over the real body): it raises
    KNXSecureValidationError (wrong session, MAC mismatch, forbidden inner service) or CouldNotParseKNXIP,
    or returns the inner frame - never a nested wrapper or a remote-diagnosis service."""
    ghost("decrypt_calls").append(encrypted_frame)
    k = nondet(3)
    if k == 1:
        raise KNXSecureValidationError("MAC")
    if k == 2:
        raise CouldNotParseKNXIP("unsupported")
    return ghost("inner")[-1]


def recv_super(self, knxipframe, source):
    """KNXIPTransport.handle_knxipframe (callback dispatch, C22): records what is passed on."""
    ghost("passed_on").append(knxipframe)


def send_super(self, knxipframe, addr=None):
    ghost("sent").append(knxipframe)
