"""C32 - Device management requests get only their own answer."""

import asyncio
import warnings

import xknx.io.device_management_connection as dmc
from contracts.world import FakeTimeout, Holder, World
from pyvc.api import Bool, Bytes, Choice, Const, EnumOf, Int, Obj, assume, ghost, lemma, nondet, run
from xknx.cemi import CEMIErrorCode, CEMIFrame, CEMIMessageCode, CEMIMPropInfo, CEMIMPropReadRequest, CEMIMPropReadResponse, CEMIMPropWriteRequest, CEMIMPropWriteResponse
from xknx.exceptions import CommunicationError, CouldNotParseCEMI, RequestResponseError, UnsupportedCEMIMessage
from xknx.io.const import DEVICE_CONFIGURATION_REQUEST_REPETITIONS, DEVICE_CONFIGURATION_REQUEST_TIMEOUT
from xknx.io.device_management_connection import TCPDeviceManagementConnection, UDPDeviceManagementConnection, _DeviceManagementConnection
from xknx.knxip import HPAI, DeviceConfigurationRequest, DisconnectRequest, DisconnectResponse, KNXIPFrame, KNXIPHeader, KNXIPServiceType
from xknx.profile.const import ResourceObjectType

warnings.filterwarnings("ignore", message="coroutine .* was never awaited")

PENDING, RESULT, CANCELLED = "pending", "result", "cancelled"


class Fut:
    """asyncio.Future stand-in (asyncio's contract: completing twice raises InvalidStateError). Awaiting a
    pending one lets the environment act: the server's next frame completes it (ghost 'answers'), the
    surrounding timeout fires, or the connection is closed meanwhile (_stop cancels it)."""

    def __init__(self, state=PENDING, value=None):
        self.state, self.value = state, value

    def done(self):
        return self.state != PENDING

    def cancelled(self):
        return self.state == CANCELLED

    def set_result(self, v):
        if self.state != PENDING:
            raise asyncio.InvalidStateError("invalid state")
        self.state, self.value = RESULT, v

    def cancel(self):
        if self.state == PENDING:
            self.state = CANCELLED
            return True
        return False

    async def __pyvc_await__(self):
        ghost("awaits").append(len(ghost("timeouts")) - len(ghost("timeouts_left")))
        if self.state == PENDING:
            answers = ghost("answers")
            k = nondet(3) if len(answers) else 1 + nondet(2)
            if k == 0:
                self.set_result(answers.pop(0))
            elif k == 1:
                self.state = CANCELLED
                raise TimeoutError()
            else:
                # the connection is closed while the request waits: _stop() cancels the future after
                # disconnect()/_connection_lost() cleared the channel
                conn = ghost("conn")[-1]
                conn.communication_channel = None
                self.state = CANCELLED
                ghost("closed_meanwhile").append(1)
                raise asyncio.CancelledError()
        if self.state == RESULT:
            return self.value
        raise asyncio.CancelledError()

    def __await__(self):
        return self.__pyvc_await__().__await__()


class Timeout(FakeTimeout):
    async def __aexit__(self, exc_type, exc, tb):
        ghost("timeouts_left").append(1)
        return False


class Loop:
    def create_future(self):
        f = Fut()
        ghost("futures").append(f)
        return f


def _running_loop():
    return Loop()


class Lock:
    """asyncio.Lock stand-in: records acquire / release (mutual exclusion itself is asyncio's)."""

    async def __aenter__(self):
        ghost("T").append("lock")

    async def __aexit__(self, exc_type, exc, tb):
        ghost("T").append("unlock")
        return False


async def _send_request_contract(self, cemi):
    """Contract of _send_request (proved below for UDP and TCP): the request is handed to the transport
    once accepted, or CommunicationError."""
    ghost("T").append(("send", cemi))
    if nondet(2):
        raise CommunicationError("not acknowledged")


OT = EnumOf(ResourceObjectType)
PI = Obj(CEMIMPropInfo, object_type=OT, object_instance=Int(0, 4095), property_id=Int(0, 255), number_of_elements=Int(0, 15), start_index=Int(0, 4095))
ANSWER_DATA = Choice(
    Obj(CEMIMPropReadResponse, property_info=PI, data=Bytes(min_len=1, max_len=3)),
    Obj(CEMIMPropWriteResponse, property_info=PI, _error_code=Choice(None, Int(0, 255))),
    None,
)
ANSWER = Obj(CEMIFrame, code=EnumOf(CEMIMessageCode), info=None, data=ANSWER_DATA)


class RecTransport:
    def __init__(self):
        pass

    def send(self, frame, addr=None):
        ghost("sent").append(frame)

    def stop(self):
        ghost("T").append("transport_stop")

    def unregister_callback(self, cb):
        ghost("T").append(("unregister", cb))

    def register_callback(self, cb, services):
        ghost("T").append(("register", services))
        return cb


class RecHeartbeat:
    def stop(self):
        ghost("T").append("hb_stop")

    def start(self):
        ghost("T").append("hb_start")


def conn_spec(cls, **extra):
    return Obj(
        cls,
        gateway_ip="10.0.0.1",
        gateway_port=3671,
        indication_callback=None,
        local_hpai=Const(HPAI()),
        communication_channel=Choice(None, Int(0, 255)),
        sequence_number=Int(0, 255),
        _data_endpoint_addr=None,
        _disconnect_callback=Choice(None, "cb"),
        _pending=None,
        _request_lock=Obj(Lock),
        _heartbeat=Const(RecHeartbeat()),
        transport=Const(RecTransport()),
        **extra,
    )


TCP = conn_spec(TCPDeviceManagementConnection, _receive_callback=Choice(None, "rcb"))
UDP = conn_spec(UDPDeviceManagementConnection, _device_management=None, local_ip="10.0.0.2", local_port=0, route_back=True)
REQ_STUBS = [(asyncio, "get_running_loop", _running_loop), (asyncio, "timeout", Timeout), (TCPDeviceManagementConnection, "_send_request", _send_request_contract)]


class Matcher:
    """`matches`: accepts exactly the frames the lemma marked (ghost 'wanted')."""

    def __call__(self, frame):
        return any(frame is w for w in ghost("wanted"))


# ------------------------------------------------------------------ request / answer matching


PLAIN_ANSWER = Obj(CEMIFrame, code=Const(CEMIMessageCode.M_PROP_READ_CON), info=None, data=None)  # (request() never looks inside)


@lemma("C32", family=[dict(n=n, use_matcher=m) for n in (0, 1, 2, 3) for m in (False, True)], params=dict(c=TCP, a1=PLAIN_ANSWER, a2=PLAIN_ANSWER, a3=PLAIN_ANSWER, w1=Bool(), w2=Bool(), w3=Bool()), stubs=REQ_STUBS, max_paths=30000)
def request_returns_only_a_matching_answer(c, a1, a2, a3, n, w1, w2, w3, use_matcher):
    """request(), any history of up to three frames arriving while it waits (each accepted by `matches` or
    not), timeouts and a close at any wait: on a closed connection nothing is sent and CommunicationError
    is raised; the request is sent once, under the request lock (one request outstanding at a time); the
    result is the first arriving frame that `matches` accepts (without `matches`: the first frame) -
    earlier, stale ones are discarded and never returned; every wait is inside the 10 s timeout; a close
    while waiting fails the request at once with CommunicationError; no pending future is left behind."""
    answers = [a1, a2, a3][:n]
    wanted = [a for a, w in zip(answers, [w1, w2, w3]) if w]
    ghost("answers").extend(answers)
    ghost("wanted").extend(wanted)
    ghost("conn").append(c)
    open_before = c.communication_channel is not None
    cemi = CEMIFrame(code=CEMIMessageCode.M_PROP_READ_REQ, data=None)
    r = None
    err = False
    try:
        r = run(c.request(cemi, matches=Matcher() if use_matcher else None))
    except CommunicationError:
        err = True
    tr = ghost("T")
    assert tr[0] == "lock" and tr[-1] == "unlock" and tr.count("lock") == 1
    assert c._pending is None
    if not open_before:
        assert err and tr == ["lock", "unlock"] and ghost("futures") == []
        return
    assert tr[1] == ("send", cemi) and len([x for x in tr if isinstance(x, tuple)]) == 1
    assert all(k >= 1 for k in ghost("awaits"))
    assert all(d == DEVICE_CONFIGURATION_REQUEST_TIMEOUT for d in ghost("timeouts")) and DEVICE_CONFIGURATION_REQUEST_TIMEOUT == 10
    consumed = answers[: n - len(ghost("answers"))]
    if r is not None:
        assert not err and consumed and r is consumed[-1]
        if use_matcher:
            assert any(r is w for w in wanted)
            assert not any(any(x is w for w in wanted) for x in consumed[:-1])
        else:
            assert len(consumed) == 1
    else:
        assert err
        if use_matcher:
            assert not any(any(x is w for w in wanted) for x in consumed)
    if ghost("closed_meanwhile"):
        assert err and r is None


READ_STUBS = [(asyncio, "get_running_loop", _running_loop), (asyncio, "timeout", Timeout)]


async def _request_contract(self, cemi, matches=None):
    """Contract of request() as proved above: it returns a frame `matches` accepts, or CommunicationError."""
    ghost("requests").append(cemi)
    a = ghost("answer")[-1]
    if a is None or not matches(a):
        raise CommunicationError("No answer")
    return a


@lemma("C32", params=dict(c=TCP, a=Choice(None, ANSWER), ot=OT, inst=Int(0, 4095), pid=Int(0, 255), write=Bool()), stubs=[(_DeviceManagementConnection, "request", _request_contract)])
def property_services_accept_only_their_own_answer(c, a, ot, inst, pid, write):
    """read_property / write_property: the matcher they pass accepts only a response of the matching
    kind (read response for a read, write response for a write) for the same object type, instance and
    property id; data is returned only from such an answer without error code, an error code becomes
    CommunicationError; nothing else escapes."""
    ghost("answer").append(a)
    ok, r = True, None
    try:
        if write:
            run(c.write_property(ot, pid, b"\\x01", object_instance=inst))
        else:
            r = run(c.read_property(ot, pid, object_instance=inst))
    except CommunicationError:
        ok = False
    req = ghost("requests")[0]
    assert req.code == (CEMIMessageCode.M_PROP_WRITE_REQ if write else CEMIMessageCode.M_PROP_READ_REQ)
    assert isinstance(req.data, CEMIMPropWriteRequest if write else CEMIMPropReadRequest)
    pi = req.data.property_info
    assert pi.object_type == ot and pi.object_instance == inst and pi.property_id == pid
    if ok:
        assert a is not None and isinstance(a.data, CEMIMPropWriteResponse if write else CEMIMPropReadResponse)
        api = a.data.property_info
        assert api.object_type == ot and api.object_instance == inst and api.property_id == pid
        assert a.data.error_code is None
        if not write:
            assert r == a.data.data


# ------------------------------------------------------------------ receive path


def _from_knx(raw):
    k = nondet(5)
    if k == 1:
        raise CouldNotParseCEMI("bad")
    if k == 2:
        raise UnsupportedCEMIMessage("unsupported")
    if k == 3:
        raise ValueError("bad enum")
    if k == 4:
        raise KeyError("unforeseen parser bug")
    return ghost("parsed")[-1]


class IndicationCb:
    def __init__(self, raises):
        self.raises = raises

    def __call__(self, cemi):
        ghost("indications").append(cemi)
        if self.raises:
            raise RuntimeError("user callback failed")


@lemma("C32", params=dict(c=TCP, frame=ANSWER, pending=Choice(None, Obj(Fut, state=Choice(PENDING, RESULT, CANCELLED), value=None)), cb=Choice(None, Obj(IndicationCb, raises=Bool())), raw=Bytes(max_len=12)), stubs=[(CEMIFrame, "from_knx", _from_knx)])
def received_frames_complete_only_a_waiting_request(c, frame, pending, cb, raw):
    """_cemi_received, any octets: never raises (parser errors and callback exceptions included); a
    M_PropInfo.ind goes to the indication callback only - never to a waiting request; any other frame
    completes the pending future only if one is waiting (not done), and is dropped otherwise."""
    ghost("parsed").append(frame)
    c._pending = pending
    c.indication_callback = cb
    st = pending.state if pending is not None else None
    c._cemi_received(raw)
    ind = ghost("indications")
    if ind:
        assert ind == [frame] and frame.code is CEMIMessageCode.M_PROP_INFO_IND
        assert pending is None or pending.state == st
    if pending is not None and pending.state != st:
        assert st == PENDING and pending.state == RESULT and pending.value is frame
        assert frame.code is not CEMIMessageCode.M_PROP_INFO_IND


def frame_of(body):
    return Obj(KNXIPFrame, header=Obj(KNXIPHeader, service_type_ident=EnumOf(KNXIPServiceType), total_length=0), body=body)


def _rec_cemi_received(self, raw):
    ghost("cemi_in").append(raw)


@lemma("C32", params=dict(c=TCP, f=frame_of(Choice(Obj(DeviceConfigurationRequest, communication_channel_id=Int(0, 255), sequence_counter=Int(0, 255), raw_cemi=Bytes(max_len=8)), Obj(DisconnectRequest, communication_channel_id=Int(0, 255), control_endpoint=Const(HPAI())), None))), stubs=[(_DeviceManagementConnection, "_cemi_received", _rec_cemi_received)])
def tcp_accepts_only_frames_of_its_channel(c, f):
    """TCP: a DeviceConfigurationRequest is processed only if it names the open channel; a
    DisconnectRequest of the server closes the connection only if it names the open channel, is answered
    with a DisconnectResponse for it, and a waiting request is failed (future cancelled)."""
    fut = Fut()
    c._pending = fut
    ch = c.communication_channel
    c._request_received(f, HPAI(), c.transport)
    if ghost("cemi_in"):
        assert isinstance(f.body, DeviceConfigurationRequest) and ch is not None and f.body.communication_channel_id == ch
        assert ghost("cemi_in") == [f.body.raw_cemi]
    assert ghost("sent") == []
    c._disconnect_request_received(f, HPAI(), c.transport)
    if isinstance(f.body, DisconnectRequest) and f.body.communication_channel_id == ch:
        assert len(ghost("sent")) == 1 and isinstance(ghost("sent")[0].body, DisconnectResponse)
        assert ghost("sent")[0].body.communication_channel_id == ch
        assert c.communication_channel is None and fut.cancelled() and ghost("T")[-1] == "transport_stop"
    else:
        assert ghost("sent") == [] and c.communication_channel == ch and not fut.done()


# ------------------------------------------------------------------ sending


class FakeDeviceConfiguration:
    """DeviceConfiguration(...).request(): acknowledged, or RequestResponseError (no/negative ack)."""

    def __init__(self, transport, data_endpoint, device_configuration_request, timeout_in_seconds=1.0):
        ghost("attempts").append((device_configuration_request, timeout_in_seconds))

    async def request(self):
        if nondet(2):
            # (the answer may arrive although the acknowledgement went missing)
            if nondet(2):
                p = ghost("conn")[-1]._pending
                if p is not None and not p.done():
                    p.set_result("answer")
            raise RequestResponseError("no ack")


async def _disconnect_contract(self):
    ghost("T").append("disconnect")
    self.communication_channel = None


def _to_knx(self):
    return b"\\xfc\\x00\\x0b\\x01\\x34\\x10\\x01"


@lemma("C32", params=dict(c=UDP, pending=Choice(None, Obj(Fut, state=Const(PENDING), value=None))), stubs=[(dmc, "DeviceConfiguration", FakeDeviceConfiguration), (_DeviceManagementConnection, "disconnect", _disconnect_contract), (CEMIFrame, "to_knx", _to_knx)])
def udp_repeats_at_most_three_times_with_the_same_counter(c, pending):
    """UDP _send_request, any acknowledgement history: at most 1 + 3 DeviceConfigurationRequests go out,
    all with the same channel, sequence counter and cEMI octets and the 10 s timeout; the counter
    advances by one (mod 256) exactly when a request was accepted (acknowledged, or answered although the
    acknowledgement went missing); after four unacknowledged attempts the connection is terminated and
    CommunicationError raised; on a closed connection nothing is sent."""
    ghost("conn").append(c)
    c._pending = pending
    ch, seq = c.communication_channel, c.sequence_number
    cemi = CEMIFrame(code=CEMIMessageCode.M_PROP_READ_REQ, data=None)
    err = False
    try:
        run(c._send_request(cemi))
    except CommunicationError:
        err = True
    att = ghost("attempts")
    if ch is None:
        assert err and att == []
        return
    assert 1 <= len(att) <= DEVICE_CONFIGURATION_REQUEST_REPETITIONS + 1 and DEVICE_CONFIGURATION_REQUEST_REPETITIONS == 3
    for req, timeout in att:
        assert req.communication_channel_id == ch and req.sequence_counter == seq and req.raw_cemi == _to_knx(cemi)
        assert timeout == DEVICE_CONFIGURATION_REQUEST_TIMEOUT
    if err:
        assert len(att) == 4 and c.sequence_number == seq and ghost("T") == ["disconnect"]
    else:
        assert c.sequence_number == (seq + 1) % 256 and ghost("T") == []


@lemma("C32", params=dict(c=TCP), stubs=[(CEMIFrame, "to_knx", _to_knx)])
def tcp_sends_once_and_advances_the_counter(c):
    """TCP _send_request: exactly one DeviceConfigurationRequest with the current counter, then counter+1
    mod 256; nothing on a closed connection."""
    ch, seq = c.communication_channel, c.sequence_number
    err = False
    try:
        run(c._send_request(CEMIFrame(code=CEMIMessageCode.M_PROP_READ_REQ, data=None)))
    except CommunicationError:
        err = True
    if ch is None:
        assert err and ghost("sent") == [] and c.sequence_number == seq
    else:
        assert not err and len(ghost("sent")) == 1
        b = ghost("sent")[0].body
        assert isinstance(b, DeviceConfigurationRequest) and b.communication_channel_id == ch and b.sequence_counter == seq
        assert c.sequence_number == (seq + 1) % 256


@lemma("C32", params=dict(c=TCP, state=Choice(PENDING, RESULT, CANCELLED)))
def closing_fails_a_waiting_request(c, state):
    """_stop() / _connection_lost(): a request that is still waiting has its future cancelled (request()
    turns that into CommunicationError at once - first lemma); a completed one is left alone."""
    fut = Fut(state)
    c._pending = fut
    c._connection_lost()
    assert c.communication_channel is None and ghost("T")[-1] == "transport_stop" and "hb_stop" in ghost("T")
    assert fut.state == (CANCELLED if state == PENDING else state)



class FakeDisconnect:
    """Disconnect(...).request() by contract: records what the connection looks like at the moment the exchange
    starts (the exchange takes up to its timeout); may fail with RequestResponseError."""

    def __init__(self, transport, communication_channel_id, local_hpai):
        self.channel = communication_channel_id

    async def request(self):
        c = ghost("conn")[-1]
        ghost("T").append(("disconnect_exchange", self.channel, c._pending.state if c._pending is not None else None, c.communication_channel))
        if nondet(2):
            raise RequestResponseError("no DisconnectResponse")


@lemma("C32", params=dict(c=TCP, state=Choice(None, PENDING, RESULT, CANCELLED)), stubs=[(dmc, "Disconnect", FakeDisconnect)])
def disconnect_fails_a_waiting_request_before_the_disconnect_exchange(c, state):
    """disconnect() (called by the user and by a failed heartbeat): a waiting request is failed *before* the
    Disconnect exchange starts - promptly, not after the server answered or the exchange timed out - and at that
    moment the connection already reads closed; the exchange names the channel the connection had; the transport
    is stopped last, whatever the exchange does."""
    ghost("conn").append(c)
    fut = Fut(state) if state is not None else None
    c._pending = fut
    ch = c.communication_channel
    run(c.disconnect())
    tr = ghost("T")
    assert c.communication_channel is None and tr[-1] == "transport_stop"
    if fut is not None:
        assert fut.state == (CANCELLED if state == PENDING else state)
    ex = [x for x in tr if isinstance(x, tuple) and x[0] == "disconnect_exchange"]
    if ch is None:
        assert ex == []
    else:
        assert ex == [("disconnect_exchange", ch, None if fut is None else (CANCELLED if state == PENDING else state), None)]

ASSUMPTIONS = [
    "asyncio is trusted behind the contract stubs: a cancelled task/future does not continue, asyncio.timeout cancels what it guards, locks are mutually exclusive, queues are FIFO, tasks switch only at awaits; interleavings inside one await are represented by 'the awaited object completes with any admissible value, times out, or the connection closes'",
    "CEMIMPropReadResponse always carries at least one data octet (parser invariant)",
]


# ------------------------------------------------------------------ construction: every connection class
# The lemmas above take a connection in any reachable state (conn_spec); what the constructors of the three
# public classes make of their arguments is checked here on the real constructors.

from xknx.io.device_management_connection import SecureDeviceManagementConnection  # noqa: E402


def _no_transport(self):
    """_init_transport by contract: the transport object is not part of this property (C22/C29)."""
    self.transport = RecTransport()


def _from_knx_ok(raw):
    return ghost("parsed")[-1]


CTOR_STUBS = [(asyncio, "Lock", Lock)] + [(k, "_init_transport", _no_transport) for k in (UDPDeviceManagementConnection, TCPDeviceManagementConnection, SecureDeviceManagementConnection)]


@lemma("C32", family=[dict(kind=k) for k in ("udp", "tcp", "secure")], params=dict(cb=Choice(None, Obj(IndicationCb, raises=Bool())), frame=ANSWER, raw=Bytes(max_len=12)), stubs=CTOR_STUBS + [(CEMIFrame, "from_knx", _from_knx_ok)])
def every_connection_class_starts_idle_with_the_given_indication_callback(kind, cb, frame, raw):
    """UDP, TCP and secure connections as their constructors build them: no request pending, counter 0, no
    channel - and the indication callback is the one handed in, so the first M_PropInfo.ind a new connection
    receives reaches it (and only it)."""
    if kind == "udp":
        c = UDPDeviceManagementConnection("10.0.0.1", 3671, "10.0.0.2", indication_callback=cb)
    elif kind == "tcp":
        c = TCPDeviceManagementConnection("10.0.0.1", 3671, indication_callback=cb)
    else:
        c = SecureDeviceManagementConnection("10.0.0.1", 3671, user_id=2, user_password="secret", indication_callback=cb)
    assert c.indication_callback is cb
    assert c._pending is None and c.sequence_number == 0 and c.communication_channel is None
    ghost("parsed").append(frame)
    c._cemi_received(raw)
    if cb is not None and frame.code is CEMIMessageCode.M_PROP_INFO_IND:
        assert ghost("indications") == [frame]
    else:
        assert ghost("indications") == []
    assert c._pending is None
