"""C13 - cEMI link frames round-trip and carry the correct frame type."""

from contracts.c03_tpci import admissible
from contracts.cemi_common import APCI_STUBS, LDATA_STUBS, AnyAPCI
from pyvc.api import Bool, Bytes, Choice, Const, EnumOf, Int, Obj, assume, forall_range, lemma
from xknx.cemi.cemi_frame import CEMIFrame, CEMILData
from xknx.cemi.const import CEMIMessageCode
from xknx.cemi.flags import CEMIFlags, CEMIFrameFormat, CEMIFrameType, CEMIPriority
from xknx.exceptions import ConversionError, CouldNotParseCEMI, UnsupportedCEMIMessage
from xknx.telegram.address import GroupAddress, IndividualAddress
from xknx.telegram.tpci import TAck, TConnect, TDataBroadcast, TDataConnected, TDataGroup, TDataIndividual, TDataTagGroup, TDisconnect, TNak

FLAGS = Obj(
    CEMIFlags,
    priority=EnumOf(CEMIPriority),
    repeat_on_error=Bool(),
    system_broadcast=Bool(),
    acknowledge_request=Bool(),
    confirm_error=Bool(),
    hop_count=Int(),  # any integer: out-of-range hop counts must be rejected
    frame_type=EnumOf(CEMIFrameType),
    frame_format=Const(CEMIFrameFormat.STANDARD),
)
SRC = Obj(IndividualAddress, raw=Int(0, 0xFFFF))
DST = Choice(Obj(GroupAddress, raw=Int(0, 0xFFFF)), Obj(IndividualAddress, raw=Int(0, 0xFFFF)))
TPCIS = [TDataGroup, TDataBroadcast, TDataTagGroup, TDataIndividual, TDataConnected, TConnect, TDisconnect, TAck, TNak]


def flags_equal_except_frame_type(a, b):
    return (
        a.priority == b.priority
        and a.repeat_on_error == b.repeat_on_error
        and a.system_broadcast == b.system_broadcast
        and a.acknowledge_request == b.acknowledge_request
        and a.confirm_error == b.confirm_error
        and a.hop_count == b.hop_count
        and a.frame_format == b.frame_format
    )


@lemma(
    "C13",
    params=dict(seq=Int(0, 15), flags=FLAGS, src=SRC, dst=DST, enc=Bytes(min_len=2, max_len=400)),
    family=[dict(tpci_cls=c) for c in TPCIS],
    stubs=APCI_STUBS,
)
def build_then_parse(tpci_cls, seq, flags, src, dst, enc):
    group = isinstance(dst, GroupAddress)
    zero = dst.raw == 0
    tpci = tpci_cls(seq) if tpci_cls in (TDataConnected, TAck, TNak) else tpci_cls()
    if not admissible(tpci, group, zero):
        return  # not a frame the transport layer defines for this destination kind
    if isinstance(tpci, TDataBroadcast) != (group and zero) and not isinstance(tpci, TDataTagGroup):
        return  # the library builds T_Data_Broadcast exactly for group address 0
    assume(enc[0] & 0xFC == 0)  # contract of APCI encoders (C06): TPCI bits clear
    payload = None if tpci.control else AnyAPCI(enc=enc)
    npdu_len = 0 if tpci.control else len(enc) - 1
    d = CEMILData(flags=flags, src_addr=src, dst_addr=dst, tpci=tpci, payload=payload)
    try:
        w = d.to_knx()
    except ConversionError:
        assert not (0 <= flags.hop_count <= 7) or npdu_len > 254
        return
    assert 0 <= flags.hop_count <= 7 and npdu_len <= 254
    assert len(w) == 8 + npdu_len
    ctrl = w[0] * 256 + w[1]
    assert (((ctrl >> 15) & 1) == 1) == (npdu_len <= 15)  # frame type 'standard' iff NPDU <= 15
    assert (((ctrl >> 7) & 1) == 1) == group  # address type bit matches destination
    assert w[6] == npdu_len
    back = CEMILData.from_knx(bytes(w))
    assert type(back.src_addr) is IndividualAddress and back.src_addr.raw == src.raw
    assert type(back.dst_addr) is type(dst) and back.dst_addr.raw == dst.raw
    assert type(back.tpci) is tpci_cls and back.tpci.sequence_number == tpci.sequence_number
    assert back.payload is payload
    assert flags_equal_except_frame_type(back.flags, flags)


def _flag_case(octet):
    """The four control bits whose values select different encoder paths (work split only)."""
    return (((octet >> 5) & 1) << 3) | (((octet >> 4) & 1) << 2) | (((octet >> 1) & 1) << 1) | (octet & 1)


@lemma("C13", params=dict(raw=Bytes()), stubs=APCI_STUBS, family=[dict(case=c) for c in range(-1, 16)])
def parse_then_build(raw, case):
    """Re-serializing a received L_Data body changes nothing but the frame type bit and the reserved
    bit 6 of control field 1 (03_06_03 4.1.5.3: reserved, shall be 0) (application
    octets go through the APCI contract: equal up to C05's reserved bits)."""
    if case == -1:
        assume(len(raw) < 8)
    else:
        assume(len(raw) >= 8)
        assume(_flag_case(raw[0]) == case)
    try:
        d = CEMILData.from_knx(raw)
    except (CouldNotParseCEMI, UnsupportedCEMIMessage):
        return
    try:
        w = d.to_knx()
    except ConversionError:
        assert raw[6] == 255  # only an NPDU longer than 254 octets cannot be sent again
        return
    n = len(raw)
    assert len(w) == n
    assert d.calculated_length() == n
    assert forall_range(n, lambda i: (w[i] & (0x3F if i == 0 else 0xFF)) == (raw[i] & (0x3F if i == 0 else 0xFF)))
    assert (((w[0] >> 7) & 1) == 1) == (raw[6] <= 15)


@lemma("C13", params=dict(raw=Bytes()), stubs=LDATA_STUBS)
def frame_parse_then_build(raw):
    """CEMIFrame level: message code, additional info and body are preserved and the length is
    reported correctly (the L_Data body enters through its contract, proved by parse_then_build)."""
    try:
        f = CEMIFrame.from_knx(raw)
    except (CouldNotParseCEMI, UnsupportedCEMIMessage):
        return
    try:
        w = f.to_knx()
    except ConversionError:
        return
    assert f.calculated_length() == len(w)
    assert w[0] == raw[0] and f.code.value == raw[0]
    if f.code in (CEMIMessageCode.L_DATA_IND, CEMIMessageCode.L_DATA_REQ, CEMIMessageCode.L_DATA_CON):
        if len(raw) >= 2 + raw[1]:  # additional info complete (a truncated one leaves an empty body)
            assert bytes(w) == bytes(raw)
    else:
        assert bytes(w) == bytes(raw)  # device management property frames round-trip exactly


# ------------------------------------------------------------------ serializing one frame does not disturb the next

from xknx.telegram.apci import DeviceDescriptorRead, GroupValueRead, MemoryRead  # noqa: E402


@lemma("C13", params=dict(s1=Int(0, 15), s2=Int(0, 15), src=SRC, which=Choice(0, 1, 2)), family=[dict(second=c) for c in ("connected", "individual")])
def two_frames_with_the_same_apdu_do_not_share_their_octets(second, s1, s2, src, which):
    """CEMILData.to_knx writes the TPCI bits into the first APDU octet in place. Two frames built one after
    the other with equal application data (real service encoders, no stubs) but different transport control
    each parse back to their own TPCI: the encoder hands out fresh octets per call (no shared or cached
    buffer that keeps the bits of an earlier frame)."""
    dst = IndividualAddress(0x1203)
    payload = [DeviceDescriptorRead(descriptor=0), MemoryRead(address=0x60, count=1), DeviceDescriptorRead(descriptor=3)][which]
    first = CEMILData(flags=CEMIFlags(), src_addr=src, dst_addr=dst, tpci=TDataConnected(s1), payload=payload)
    w1 = first.to_knx()
    tp2 = TDataConnected(s2) if second == "connected" else TDataIndividual()
    same_again = [DeviceDescriptorRead(descriptor=0), MemoryRead(address=0x60, count=1), DeviceDescriptorRead(descriptor=3)][which]
    d2 = CEMILData(flags=CEMIFlags(), src_addr=src, dst_addr=dst, tpci=tp2, payload=same_again)
    w2 = d2.to_knx()
    back1 = CEMILData.from_knx(bytes(w1))
    back2 = CEMILData.from_knx(bytes(w2))
    assert back1.tpci == TDataConnected(s1)
    assert back2.tpci == tp2
    assert back2.payload == same_again and back1.payload == payload


# ------------------------------------------------------------------ the APDU encoder contract the frame lemmas rely on
# (APCI_STUBS / AnyAPCI: a payload encodes to octets with the TPCI bits clear that decode back to it) - proved
# for every service in C06; an obligation here too

from contracts import c06_apci_encode as _c06  # noqa: E402
from pyvc.api import rely_on  # noqa: E402

rely_on("C13", _c06.encode_refuses_or_roundtrips)
