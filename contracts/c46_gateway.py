"""C46 - Automatic connection never downgrades a secured gateway."""

from contracts.world import Holder
from pyvc.api import Bool, Choice, Const, Int, ListOf, Obj, ghost, lemma, nondet, run
from xknx.exceptions import CommunicationError, InvalidSecureConfiguration
from xknx.io.connection import ConnectionConfig
from xknx.io.gateway_scanner import GatewayDescriptor, GatewayScanFilter, GatewayScanner
from xknx.io.knxip_interface import KNXIPInterface
from xknx.knxip.dib import DIBSecuredServiceFamilies, DIBServiceFamily, DIBSuppSVCFamilies
from xknx.telegram.address import IndividualAddress

TRI = Choice(None, Bool())  # a gateway that sent no secured-families DIB leaves the requirement at None
TRI_VALUES = (None, True, False)


def gateway_spec(tun, rout):
    return Obj(
        GatewayDescriptor,
        name=Choice("gw", "other"),
        ip_addr="10.1.1.1",
        port=3671,
        individual_address=Obj(IndividualAddress, raw=Int(0, 0xFFFF)),
        supports_routing=Bool(),
        supports_tunnelling=Bool(),
        supports_tunnelling_tcp=Bool(),
        supports_secure=Bool(),
        core_version=Int(0, 3),
        routing_requires_secure=rout,
        tunnelling_requires_secure=tun,
        local_interface="eth0",
        local_ip="10.1.1.2",
        multicast_address="224.0.23.12",
        serial_number="",
        mac_address="",
        tunnelling_slots=Const({}),
    )


CASES = [dict(tun=t, rout=r) for t in TRI_VALUES for r in TRI_VALUES]
GATEWAY = Obj(
    GatewayDescriptor,
    name=Choice("gw", "other"),
    ip_addr="10.1.1.1",
    port=3671,
    individual_address=Obj(IndividualAddress, raw=Int(0, 0xFFFF)),
    supports_routing=Bool(),
    supports_tunnelling=Bool(),
    supports_tunnelling_tcp=Bool(),
    supports_secure=Bool(),
    core_version=Int(0, 3),
    routing_requires_secure=TRI,
    tunnelling_requires_secure=TRI,
)
TRI_FLAG = Choice(None, Bool())
FILTER = Obj(GatewayScanFilter, name=Choice(None, "gw"), tunnelling=TRI_FLAG, tunnelling_tcp=TRI_FLAG, routing=TRI_FLAG, secure_tunnelling=TRI_FLAG, secure_routing=TRI_FLAG)


@lemma("C46", params=dict(f=FILTER), family=CASES, dynamic_params=lambda fixed: dict(g=gateway_spec(fixed["tun"], fixed["rout"])), max_paths=60000)
def scan_filter_matches_exactly(f, g, tun, rout):
    """match(g) <=> the name agrees (if given) and one enabled method is supported with an agreeing
    security requirement."""
    tun_secure = bool(g.tunnelling_requires_secure)
    rout_secure = bool(g.routing_requires_secure)
    expected = (f.name is None or f.name == g.name) and (
        (bool(f.tunnelling) and g.supports_tunnelling and not tun_secure)
        or (bool(f.tunnelling_tcp) and g.supports_tunnelling_tcp and not tun_secure)
        or (bool(f.routing) and g.supports_routing and not rout_secure)
        or (bool(f.secure_tunnelling) and g.supports_tunnelling_tcp and tun_secure)
        or (bool(f.secure_routing) and g.supports_routing and rout_secure)
    )
    assert f.match(g) == expected


async def _scan_stub(self):
    """GatewayScanner.async_scan as automatic connection sees it: some gateway was found."""
    yield ghost("found")[0]


def _mk_start(kind):
    async def start(self, *args, **kwargs):
        ghost("started").append(kind)
        k = nondet(3)
        if k == 1:
            raise CommunicationError("could not connect")
        if k == 2:
            raise InvalidSecureConfiguration("no keys")

    return start


STUBS = [
    (GatewayScanner, "async_scan", _scan_stub),
    (KNXIPInterface, "_start_secure_tunnelling_tcp", _mk_start("secure_tcp")),
    (KNXIPInterface, "_start_tunnelling_tcp", _mk_start("tcp")),
    (KNXIPInterface, "_start_tunnelling_udp", _mk_start("udp")),
    (KNXIPInterface, "_start_routing", _mk_start("routing")),
]
IFACE = Obj(KNXIPInterface, xknx=Obj(Holder), connection_config=Obj(ConnectionConfig, scan_filter=FILTER, individual_address=None), _gateway_info=None)


@lemma("C46", params=dict(iface=IFACE), stubs=STUBS, family=CASES, dynamic_params=lambda fixed: dict(g=gateway_spec(fixed["tun"], fixed["rout"])), max_paths=60000)
def automatic_connection_never_downgrades(iface, g, tun, rout):
    """Whatever gateway the scan yields and however the start attempts end: an unsecured tunnel (TCP or
    UDP) is only started to a gateway that does not require secure tunnelling, unsecured routing only
    if routing is not required to be secure; at most one method is tried per gateway."""
    ghost("found").append(g)
    try:
        run(iface._start_automatic(local_ip=None, keyring=None))
    except CommunicationError:
        pass
    started = ghost("started")
    assert len(started) <= 1
    for kind in started:
        if kind in ("tcp", "udp"):
            assert not g.tunnelling_requires_secure
        if kind == "routing":
            assert not g.routing_requires_secure
        if kind == "secure_tcp":
            assert g.tunnelling_requires_secure and g.supports_tunnelling_tcp


from pyvc.api import EnumOf  # noqa: E402

FAMILY = Obj(DIBSuppSVCFamilies.Family, name=EnumOf(DIBServiceFamily), version=Int(0, 255))
FAMS = Choice(ListOf(), ListOf(FAMILY), ListOf(FAMILY, FAMILY))
SECURED = Obj(DIBSecuredServiceFamilies, families=FAMS)
SUPPORTED = Obj(DIBSuppSVCFamilies, families=FAMS)
DIBS = Choice(ListOf(), ListOf(SUPPORTED), ListOf(SECURED), ListOf(SUPPORTED, SECURED), ListOf(SECURED, SUPPORTED))
PLAIN_GW = Obj(GatewayDescriptor, name="gw", core_version=0, supports_routing=False, supports_tunnelling=False, supports_tunnelling_tcp=False, supports_secure=False, routing_requires_secure=None, tunnelling_requires_secure=None, tunnelling_slots=Const({}))


@lemma("C46", params=dict(g=PLAIN_GW, dibs=DIBS), max_paths=60000)
def parse_dibs_sets_security_requirements(g, dibs):
    """The descriptor requires secure tunnelling / routing exactly when a secured-service-families DIB
    lists that family; without such a DIB the requirement stays unknown (None, treated as not required)."""
    g.parse_dibs(dibs)
    secured = [d for d in dibs if isinstance(d, DIBSecuredServiceFamilies)]
    if not secured:
        assert g.tunnelling_requires_secure is None and g.routing_requires_secure is None
    else:
        fams = secured[-1].families
        assert g.tunnelling_requires_secure == any(f.name == DIBServiceFamily.TUNNELING for f in fams)
        assert g.routing_requires_secure == any(f.name == DIBServiceFamily.ROUTING for f in fams)


# ------------------------------------------------------------------ which discovery answers become descriptors

from xknx.knxip import HPAI, KNXIPFrame, KNXIPHeader, KNXIPServiceType, SearchResponse, SearchResponseExtended  # noqa: E402


class AnyFilter:
    def match(self, gateway):
        ghost("matched").append(gateway)
        return True


def _parse_dibs_recorder(self, dibs):
    """parse_dibs is proved above; here only what reaches it matters."""
    ghost("parsed").append(list(dibs))


SCANNER = Obj(GatewayScanner, scan_filter=Const(AnyFilter()), found_gateways=Const(None), stop_on_found=None)
RESPONSE_DIBS = Choice(ListOf(), ListOf(SUPPORTED), ListOf(SUPPORTED, SUPPORTED))


@lemma("C46", params=dict(sc=SCANNER, dibs=RESPONSE_DIBS, extended=Bool()), stubs=[(GatewayDescriptor, "parse_dibs", _parse_dibs_recorder)], max_paths=60000)
def legacy_answers_of_core_v2_devices_never_become_descriptors(sc, dibs, extended):
    """GatewayScanner._response_rec_callback: a non-extended SearchResponse carries no secured-service
    information, so a descriptor built from it looks unsecured. For a device that announces KNXnet/IP Core
    version 2 or higher (it also answers the extended search, with its secured families) that legacy
    answer must never produce a descriptor; every other answer produces exactly one descriptor from
    exactly the DIBs received."""
    sc.found_gateways = {}
    ep = HPAI(ip_addr="10.1.1.1", port=3671)
    body = (SearchResponseExtended if extended else SearchResponse)(control_endpoint=ep)
    body.dibs = dibs
    hdr = KNXIPHeader()
    hdr.service_type_ident = KNXIPServiceType.SEARCH_RESPONSE_EXTENDED if extended else KNXIPServiceType.SEARCH_RESPONSE
    frame = KNXIPFrame(header=hdr, body=body)
    transport = Holder()
    transport.local_addr = ("10.1.1.2", 0)
    sc._response_rec_callback(frame, ep, transport, interface="eth0")
    first_supported = next((d for d in dibs if isinstance(d, DIBSuppSVCFamilies)), None)
    core_v2 = first_supported is not None and any(f.name == DIBServiceFamily.CORE and f.version >= 2 for f in first_supported.families)
    if not extended and core_v2:
        assert ghost("parsed") == [] and len(sc.found_gateways) == 0
    else:
        assert ghost("parsed") == [list(dibs)] and len(sc.found_gateways) == 1


# ------------------------------------------------------------------ "announces that service as secured": the announcement is octets
# parse_dibs_sets_security_requirements takes parsed DIB objects. The parser owes that no announced family is lost
# on the way from the datagram to the object - a secured-families DIB parsed with an entry missing makes the
# gateway look unsecured.

from xknx.exceptions import CouldNotParseKNXIP as _CouldNotParseKNXIP  # noqa: E402
from pyvc.api import Bytes as _Bytes  # noqa: E402


@lemma("C46", family=[dict(D=DIBSecuredServiceFamilies), dict(D=DIBSuppSVCFamilies)], params=dict(raw=_Bytes(max_len=14)))
def a_parsed_service_family_dib_lists_every_announced_family(D, raw):
    """DIBSecuredServiceFamilies / DIBSuppSVCFamilies.from_knx, any octets (up to 6 entries): refused (an unknown
    family or type code raises ValueError, which KNXIPFrame.from_knx turns into CouldNotParseKNXIP - C20), or the
    object lists exactly the announced entries, in order: entry i is family raw[2+2i] with version raw[3+2i]."""
    dib = D()
    try:
        n = dib.from_knx(raw)
    except (_CouldNotParseKNXIP, ValueError, IndexError):
        return
    assert n == raw[0] and n % 2 == 0 and 2 <= n <= len(raw)
    assert len(dib.families) == (n - 2) // 2
    for i in range((n - 2) // 2):
        assert dib.families[i].name.value == raw[2 + 2 * i] and dib.families[i].version == raw[3 + 2 * i]
