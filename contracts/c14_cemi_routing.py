"""C14 - Received link frames reach exactly the right consumer, once."""

import asyncio

from contracts.c18_secure_receive import LDATA, XKNX
from contracts.cemi_common import AnyAPCI
from contracts.world import FakeTimeout, Holder, RecEvent, World
from pyvc.api import Bytes, Const, EnumOf, Int, Obj, assume, ghost, lemma, nondet, run
from xknx.cemi.cemi_frame import CEMIFrame, CEMILData
from xknx.cemi.cemi_handler import CEMIHandler
from xknx.cemi.const import CEMIMessageCode
from xknx.core.connection_manager import ConnectionManager
from xknx.exceptions import CommunicationError, ConfirmationError, ConversionError
from xknx.telegram import Telegram, TelegramDirection
from xknx.telegram.address import GroupAddress, IndividualAddress
from xknx.telegram.apci import SecureAPDU
from xknx.telegram.tpci import TDataBroadcast, TDataGroup

HANDLER = Obj(CEMIHandler, xknx=XKNX, data_secure=None, _l_data_confirmation_event=Const(RecEvent()))


# CEMIFrame.from_knx builds link-layer data only for these codes (C12/C13); every other code carries
# device-management data, covered by non_link_frames_are_ignored below
LDATA_CODES = (CEMIMessageCode.L_DATA_IND, CEMIMessageCode.L_DATA_REQ, CEMIMessageCode.L_DATA_CON)


@lemma("C14", params=dict(h=HANDLER, frame=LDATA, code=EnumOf(CEMIMessageCode, LDATA_CODES)))
def received_frame_routing(h, frame, code):
    """Without Data Secure keys: confirmations, requests and every non-indication frame never become
    telegrams; an indication with T_Data_Group goes to the telegram queue exactly once, marked incoming;
    any other indication goes to management exactly when its destination is not an individual address
    other than this interface's (broadcast and tag-group frames are group addressed)."""
    assume(not isinstance(frame.payload, SecureAPDU))
    own = h.xknx.current_address.raw
    h.handle_cemi_frame(CEMIFrame(code=code, data=frame))
    q, m, k = ghost("queue"), ghost("mgmt"), ghost("keyissue")
    assert len(k) == 0
    if code is not CEMIMessageCode.L_DATA_IND:
        assert len(q) == 0 and len(m) == 0
        if code is CEMIMessageCode.L_DATA_CON:
            assert ghost("event") == ["set"]
        return
    if isinstance(frame.tpci, TDataGroup):
        assert len(q) == 1 and len(m) == 0
        t = q[0]
        assert t.direction is TelegramDirection.INCOMING and t.data_secure is False
        assert t.destination_address is frame.dst_addr and t.source_address is frame.src_addr and t.payload is frame.payload
    elif isinstance(frame.dst_addr, IndividualAddress) and frame.dst_addr.raw != own:
        assert len(q) == 0 and len(m) == 0
    else:
        assert len(q) == 0 and len(m) == 1 and m[0].direction is TelegramDirection.INCOMING


class _Interface:
    """knxip_interface stand-in: send_cemi records the hand-over and may fail in the declared ways."""

    async def send_cemi(self, cemi):
        k = nondet(3)
        if k == 1:
            raise CommunicationError("send failed")
        if k == 2:
            raise ConversionError("not serializable")
        ghost("trace").append("sent")


class _Event(RecEvent):
    def set(self):
        ghost("trace").append("set")

    def clear(self):
        ghost("trace").append("clear")

    async def wait(self):
        if nondet(2) == 0:
            raise TimeoutError()  # the surrounding asyncio.timeout() expired
        ghost("trace").append("confirmed")


SENDER = Obj(
    CEMIHandler,
    data_secure=None,
    _l_data_confirmation_event=Const(_Event()),
    xknx=Obj(
        World,
        current_address=Obj(IndividualAddress, raw=Int(0, 0xFFFF)),
        knxip_interface=Const(_Interface()),
        connection_manager=Obj(ConnectionManager, cemi_count_outgoing=Int(0, 10**9), cemi_count_outgoing_error=Int(0, 10**9)),
    ),
)


@lemma("C14", params=dict(h=SENDER, dst=Obj(GroupAddress, raw=Int(0, 0xFFFF)), enc=Bytes(min_len=2, max_len=255)), stubs=[(asyncio, "timeout", FakeTimeout)])
def send_completes_only_after_a_later_confirmation(h, dst, enc):
    """send_telegram in program order: the confirmation event is cleared before the frame is handed to
    the interface, and the call returns normally only after a wait on that event that started after the
    hand-over returned (inside a 3 s timeout); a failed hand-over or an expired wait raises and counts
    exactly one outgoing error; only the normal return counts an outgoing frame."""
    cm = h.xknx.connection_manager
    ok0, err0 = cm.cemi_count_outgoing, cm.cemi_count_outgoing_error
    t = Telegram(destination_address=dst, payload=AnyAPCI(enc=enc))
    try:
        run(h.send_telegram(t))
    except ConfirmationError:
        assert ghost("trace") == ["clear", "sent"]
        assert cm.cemi_count_outgoing == ok0 and cm.cemi_count_outgoing_error == err0 + 1
        return
    except (CommunicationError, ConversionError):
        assert ghost("trace") == ["clear"]
        assert cm.cemi_count_outgoing == ok0 and cm.cemi_count_outgoing_error == err0 + 1
        return
    assert ghost("trace") == ["clear", "sent", "confirmed"]
    assert ghost("timeouts") == [3]
    assert cm.cemi_count_outgoing == ok0 + 1 and cm.cemi_count_outgoing_error == err0
    assert t.data_secure is False


@lemma("C14", params=dict(h=HANDLER, code=EnumOf(CEMIMessageCode)))
def non_link_frames_are_ignored(h, code):
    """A parsed frame whose data is not link-layer data (device management property frames) never
    becomes a telegram and touches nothing."""
    h.handle_cemi_frame(CEMIFrame(code=code, data=Holder()))
    assert len(ghost("queue")) == 0 and len(ghost("mgmt")) == 0 and len(ghost("keyissue")) == 0 and len(ghost("event")) == 0


# ------------------------------------------------------------------ from the received octets to the consumer

from contracts import c03_tpci as _c03  # noqa: E402
from contracts.cemi_common import APCI_STUBS  # noqa: E402
from pyvc.api import rely_on  # noqa: E402


@lemma("C14", params=dict(h=HANDLER, raw=Bytes(min_len=0, max_len=40)), stubs=APCI_STUBS)
def a_received_frame_is_classified_by_its_octets(h, raw):
    """handle_raw_cemi with the real parser in between, any octets: at most one consumer gets the frame, and
    only for an L_Data.ind; a telegram in the queue means group addressed, destination not 0, the six
    transport bits of the TPCI octet clear (the two low bits are the top of the APCI); the same octets with
    destination 0 are a broadcast and go to management, never to the queue."""
    h.handle_raw_cemi(raw)
    q, m = ghost("queue"), ghost("mgmt")
    assert len(q) + len(m) <= 1
    if len(q) + len(m) == 0:
        return
    assert raw[0] == CEMIMessageCode.L_DATA_IND.value
    ail = raw[1]
    group = raw[3 + ail] & 0x80 != 0
    dst = raw[6 + ail] * 256 + raw[7 + ail]
    t_data_group_bits = raw[9 + ail] & 0xFC == 0
    if len(q) == 1:
        assert group and t_data_group_bits and dst != 0
    elif group and t_data_group_bits:
        assert dst == 0


# the transport-layer decoder between the octets and telegram_received (proved in C03) is an obligation here too
rely_on("C14", _c03.decode_then_encode)
