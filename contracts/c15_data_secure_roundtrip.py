"""C15 - Data Secure frames decrypt to exactly what was sent."""

import xknx.secure.data_secure_asdu as asdu
from contracts.crypto_model import decrypt_ctr, encrypt_ctr, mac_cbc
from pyvc.api import Bool, Bytes, Choice, Const, EnumOf, Int, Obj, assume, ghost, lemma
from xknx.cemi.flags import CEMIAddressType, CEMIFrameFormat
from xknx.exceptions import DataSecureError
from xknx.secure.data_secure_asdu import SecureData, SecurityAlgorithmIdentifier, SecurityALService, SecurityControlField, block_0, counter_0
from xknx.telegram.tpci import TDataBroadcast, TDataConnected, TDataGroup, TDataIndividual, TDataTagGroup

CRYPTO = [(asdu, "calculate_message_authentication_code_cbc", mac_cbc), (asdu, "encrypt_data_ctr", encrypt_ctr), (asdu, "decrypt_ctr", decrypt_ctr)]

KEY = Bytes(length=16)
SCF = Obj(SecurityControlField, algorithm=EnumOf(SecurityAlgorithmIdentifier), service=EnumOf(SecurityALService), system_broadcast=Bool(), tool_access=Bool())
# transport PDUs that can carry a secured APDU through DataSecure (group / broadcast / tag group / individual
# data): block_0 needs the TPCI octet below 0x40 - numbered and control TPCIs (>= 0x40) make bytes() raise,
# they are rejected before (point-to-point Data Secure is not supported: C18)
TPCI = Choice(Const(TDataGroup()), Const(TDataBroadcast()), Const(TDataTagGroup()), Const(TDataIndividual()))
FIELDS = dict(
    key=KEY,
    apdu=Bytes(min_len=2, max_len=6),
    scf=SCF,
    seq=Int(0, (1 << 48) - 1),
    addr=Bytes(length=4),
    at=EnumOf(CEMIAddressType),
    ff=EnumOf(CEMIFrameFormat),
    tpci=TPCI,
)


def _secure(key, apdu, scf, seq, addr, at, ff, tpci):
    return SecureData.init_from_plain_apdu(key=key, apdu=apdu, scf=scf, sequence_number=seq, address_fields_raw=addr, address_type=at, frame_format=ff, tpci=tpci)


@lemma("C15", params=FIELDS, stubs=CRYPTO)
def secured_asdu_decrypts_to_the_original(key, apdu, scf, seq, addr, at, ff, tpci):
    """Sender side init_from_plain_apdu -> to_knx -> from_knx -> receiver side get_plain_apdu with the same
    key, addresses, address type, frame format, transport PDU and security control field, for both
    algorithms (authentication only / authenticated encryption), every sequence number and APDU: the
    receiver gets exactly the original APDU. The wire form is sequence number (6) | secured APDU | MAC (4),
    and the blocks handed to the primitives are the ones the KNX construction prescribes (B0 = seq | src |
    dst | 0 | AT+EFF | TPCI+APCI | 0 | length; Ctr0 = seq | src | dst | 0 0 0 0 1 0), identical on both sides."""
    sd = _secure(key, apdu, scf, seq, addr, at, ff, tpci)
    wire = sd.to_knx()
    seq_b = seq.to_bytes(6, "big")
    assert len(wire) == 10 + len(apdu) and wire[:6] == seq_b
    n_sender = len(ghost("H"))
    rx = SecureData.from_knx(wire)
    out = rx.get_plain_apdu(key=key, scf=scf, address_fields_raw=addr, address_type=at, frame_format=ff, tpci=tpci)
    assert out == apdu
    # sender and receiver computed the MAC over the very same arguments (no new table entry)
    assert len(ghost("H")) == n_sender == 1
    (hkey, ad, payload, b0), _tag = ghost("H")[0]
    encrypting = scf.algorithm == SecurityAlgorithmIdentifier.CCM_ENCRYPTION
    q = len(apdu) if encrypting else 0
    assert hkey == key
    assert b0 == seq_b + addr + bytes((0, at.to_knx() | ff, (tpci.to_knx() << 2) + 3, 0xF1, 0, q))
    assert b0 == block_0(seq_b, addr, at, ff, tpci.to_knx(), q)
    if encrypting:
        assert ad == scf.to_knx() and payload == apdu
        k2, c0, mac_plain, plain, _m, _e = ghost("CTR")[0]
        assert k2 == key and c0 == seq_b + addr + b"\x00\x00\x00\x00\x01\x00" and plain == apdu and len(mac_plain) == 4
        assert c0 == counter_0(seq_b, addr)
    else:
        assert ad == scf.to_knx() + apdu and payload == b"" and sd.secured_apdu == apdu


# ------------------------------------------------------------------ both ends derive the same inputs from the frame

from contracts.c17_sequence import DS  # noqa: E402
from contracts.cemi_common import APCI_STUBS, AnyAPCI  # noqa: E402
from xknx.cemi.cemi_frame import CEMILData  # noqa: E402
from xknx.cemi.flags import CEMIFlags, CEMIFrameType, CEMIPriority  # noqa: E402
from xknx.telegram.address import GroupAddress, IndividualAddress  # noqa: E402
from xknx.telegram.apci import SecureAPDU  # noqa: E402


def _record_init(key, apdu, scf, sequence_number, address_fields_raw, address_type, frame_format, tpci):
    ghost("sender").append((key, apdu, scf, sequence_number, address_fields_raw, address_type, frame_format, tpci))
    return SecureData(sequence_number_bytes=sequence_number.to_bytes(6, "big"), secured_apdu=bytes(apdu), message_authentication_code=b"\x00\x00\x00\x00")


def _record_get(self, key, scf, address_fields_raw, address_type, frame_format, tpci):
    ghost("receiver").append((self, key, scf, address_fields_raw, address_type, frame_format, tpci))
    return self.secured_apdu


FLAGS = Obj(CEMIFlags, priority=EnumOf(CEMIPriority), repeat_on_error=Bool(), system_broadcast=Bool(), acknowledge_request=Bool(), confirm_error=Bool(), hop_count=Int(0, 7), frame_type=EnumOf(CEMIFrameType), frame_format=EnumOf(CEMIFrameFormat))
TX_FRAME = Obj(
    CEMILData,
    flags=FLAGS,
    src_addr=Obj(IndividualAddress, raw=Int(0, 0xFFFF)),
    dst_addr=Obj(GroupAddress, raw=Int(0, 0xFFFF)),
    tpci=Choice(Const(TDataGroup()), Const(TDataBroadcast()), Const(TDataTagGroup())),
    payload=Obj(AnyAPCI, enc=Bytes(min_len=2, max_len=15)),
)


@lemma("C15", params=dict(tx=DS, rx=DS, frame=TX_FRAME), stubs=APCI_STUBS + [(SecureData, "init_from_plain_apdu", staticmethod(_record_init)), (SecureData, "get_plain_apdu", _record_get)])
def sender_and_receiver_feed_the_same_inputs(tx, rx, frame):
    """One DataSecure instance secures an outgoing group frame, another one that holds the same group key
    and knows the sender with an older sequence number receives it: the receiver hands to get_plain_apdu
    exactly the key, security control field, address octets, address type, frame format and transport PDU
    the sender handed to init_from_plain_apdu, together with the secured data the sender produced - so by
    the ASDU lemma above it recovers the original APDU; the delivered frame carries that APDU with
    addresses, flags and TPCI unchanged."""
    assume(frame.dst_addr in tx._group_key_table)
    out = None
    try:
        out = tx.outgoing_cemi(frame)
    except DataSecureError:
        return  # sequence numbers exhausted
    assert isinstance(out.payload, SecureAPDU) and len(ghost("sender")) == 1
    key, apdu, scf, seq, addr, at, ff, tpci = ghost("sender")[0]
    assert apdu == frame.payload.to_knx() and key == tx._group_key_table[frame.dst_addr]
    assert scf.algorithm == SecurityAlgorithmIdentifier.CCM_ENCRYPTION and scf.service == SecurityALService.S_A_DATA and not scf.tool_access and not scf.system_broadcast
    assert out.src_addr == frame.src_addr and out.dst_addr == frame.dst_addr and out.flags is frame.flags and out.tpci is frame.tpci
    # the receiver: same key for the group address, sender known with an older sequence number
    assume(frame.dst_addr in rx._group_key_table and rx._group_key_table[frame.dst_addr] == key)
    assume(frame.src_addr in rx._individual_address_table and rx._individual_address_table[frame.src_addr] < seq)
    plain = rx.received_cemi(out)
    assert len(ghost("receiver")) == 1
    sd, key2, scf2, addr2, at2, ff2, tpci2 = ghost("receiver")[0]
    assert sd is out.payload.secured_data and int.from_bytes(sd.sequence_number_bytes, "big") == seq
    assert key2 == key and scf2 is scf and addr2 == addr and at2 == at and ff2 == ff and tpci2 is tpci
    assert plain.payload.to_knx() == apdu
    assert plain.src_addr == frame.src_addr and plain.dst_addr == frame.dst_addr and plain.tpci is frame.tpci


ASSUMPTIONS = [
    "ideal-cipher model of AES-CBC-MAC / AES-CTR (contracts/crypto_model.py): no MAC collisions (also not on 32 transmitted bits), CTR decryption inverse to encryption under the same key and counter block and unrelated otherwise; 2^-32 / 2^-128 events treated as impossible",
]


# ------------------------------------------------------------------ the mark on the delivered telegram

from contracts.c18_secure_receive import HANDLER as _HANDLER, LDATA as _LDATA, STUBS as _HSTUBS  # noqa: E402
from xknx.cemi.cemi_frame import CEMIFrame as _CEMIFrame  # noqa: E402
from xknx.cemi.const import CEMIMessageCode as _Code  # noqa: E402
from xknx.telegram.apci import SecureAPDU as _SecureAPDU  # noqa: E402


@lemma("C15", params=dict(h=_HANDLER, frame=_LDATA), stubs=_HSTUBS)
def a_delivered_telegram_is_marked_data_secure_exactly_when_it_arrived_secured(h, frame):
    """CEMIHandler.handle_cemi_frame for an L_Data.ind, with or without keys: whatever is delivered (to the
    telegram queue or to management) carries data_secure == 'the received frame had an S-A_Data payload' -
    the mark is taken from the frame as received, not from the unwrapped one - and its payload is not the
    secure wrapper any more."""
    secured = isinstance(frame.payload, _SecureAPDU)
    h.handle_cemi_frame(_CEMIFrame(code=_Code.L_DATA_IND, data=frame))
    for t in list(ghost("queue")) + list(ghost("mgmt")):
        assert t.data_secure is secured
        assert not isinstance(t.payload, _SecureAPDU)


# ------------------------------------------------------------------ the sender secures the frame that goes onto the wire

import asyncio as _asyncio  # noqa: E402

from contracts import c14_cemi_routing as _c14  # noqa: E402
from contracts.cemi_common import AnyAPCI as _AnyAPCI  # noqa: E402
from contracts.world import FakeTimeout as _FakeTimeout, World as _World  # noqa: E402
from pyvc.api import Const as _Const, Int as _Int, Obj as _Obj, run as _run  # noqa: E402
from xknx.cemi.cemi_handler import CEMIHandler as _CEMIHandler  # noqa: E402
from xknx.core.connection_manager import ConnectionManager as _CM  # noqa: E402
from xknx.exceptions import CommunicationError as _CommErr, ConfirmationError as _ConfErr, ConversionError as _ConvErr  # noqa: E402
from xknx.telegram import Telegram as _Telegram  # noqa: E402
from xknx.telegram.address import GroupAddress as _GA, IndividualAddress as _IA  # noqa: E402


class _RecordingDataSecure:
    """DataSecure.outgoing_cemi by contract: secures the frame *as it is given* - source and destination
    address, flags and TPCI of that frame go into the MAC (lemmas above)."""

    def outgoing_cemi(self, cemi_data):
        ghost("secured").append((cemi_data.src_addr.raw, cemi_data.dst_addr.raw))
        return cemi_data


class _RecordingInterface:
    async def send_cemi(self, cemi):
        ghost("wire").append((cemi.data.src_addr.raw, cemi.data.dst_addr.raw))


_SECURE_SENDER = _Obj(
    _CEMIHandler,
    data_secure=_Const(_RecordingDataSecure()),
    _l_data_confirmation_event=_Const(_c14._Event()),
    xknx=_Obj(
        _World,
        current_address=_Obj(_IA, raw=_Int(0, 0xFFFF)),
        knxip_interface=_Const(_RecordingInterface()),
        connection_manager=_Obj(_CM, cemi_count_outgoing=_Int(0, 10**9), cemi_count_outgoing_error=_Int(0, 10**9)),
    ),
)


@lemma("C15", params=dict(h=_SECURE_SENDER, dst=_Obj(_GA, raw=_Int(0, 0xFFFF)), src=_Int(0, 0xFFFF), enc=Bytes(min_len=2, max_len=20)), stubs=[(_asyncio, "timeout", _FakeTimeout)])
def the_frame_is_secured_with_the_addresses_it_leaves_with(h, dst, src, enc):
    """CEMIHandler.send_telegram with Data Secure: the frame handed to outgoing_cemi carries the source
    address the frame has on the wire (the interface's own address when the telegram names none) - the
    receiver builds its MAC input from the wire, so securing first and filling in the source afterwards
    would make every receiver discard the frame."""
    t = _Telegram(destination_address=dst, source_address=_IA(src), payload=_AnyAPCI(enc=enc))
    try:
        _run(h.send_telegram(t))
    except (_ConfErr, _CommErr, _ConvErr):
        pass
    want = h.xknx.current_address.raw if src == 0 else src
    assert ghost("secured") == [(want, dst.raw)]
    assert ghost("wire") == [(want, dst.raw)]


# ------------------------------------------------------------------ "accepted by another that knows the sender" over a history
# sender_and_receiver_feed_the_same_inputs accepts a frame whose number is above the receiver's last valid
# number for the sender. That this stored number only ever moves to the number of a frame that verified - so
# that forged or damaged frames cannot lock the genuine sender out - is the receive-step lemma of C17; an
# obligation here too.

from contracts import c17_sequence as _c17  # noqa: E402
from pyvc.api import rely_on  # noqa: E402

rely_on("C15", _c17.received_secure_frame_step)
