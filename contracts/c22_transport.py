"""C22 - Transports deliver stream frames once, in order, without crashing."""

from contracts.knxip_contract import KNXIP_STUBS, ParsedFrame
from contracts.world import Holder
from pyvc.api import Bytes, Obj, ghost, lemma, nondet, unstubbed
from xknx.exceptions import CouldNotParseKNXIP
from xknx.io.transport.tcp_transport import TCPTransport

_REAL_TCP_CB = TCPTransport.data_received_callback


def _handle_recorder(self, knxipframe, source):
    """Contract stub of handle_knxipframe for the UDP lemma (callbacks are proved not to raise in their
    own properties): records the delivery."""
    ghost("delivered").append(knxipframe)


def _handle_recorder_tcp(self, knxipframe, source):
    """Contract stub of handle_knxipframe on TCP transports: records the delivery; the SecureSession
    override may refuse a frame with CouldNotParseKNXIP (a SecureWrapper before the session is
    initialized - C29), which must not escape the stream callback either."""
    ghost("delivered").append(knxipframe)
    if nondet(2):
        raise CouldNotParseKNXIP("refused by the secure session (contract)")


def _tcp_cb_contract(self, raw):
    """Recursive contract of data_received_callback: the outermost call runs the real body; a nested
    call only records its argument (its own behaviour is this same lemma, by induction on len)."""
    if not ghost("entered"):
        ghost("entered").append(1)
        return unstubbed(_REAL_TCP_CB)(self, raw)
    ghost("recursed").append(raw)
    return None


TCP = Obj(TCPTransport, _buffer=Bytes(max_len=70000), remote_hpai=Obj(Holder), callbacks=[], transport=None)
STUBS = KNXIP_STUBS + [
    (TCPTransport, "handle_knxipframe", _handle_recorder_tcp),
    (TCPTransport, "data_received_callback", _tcp_cb_contract),
]


@lemma("C22", params=dict(t=TCP, chunk=Bytes(max_len=70000)), stubs=STUBS)
def tcp_step(t, chunk):
    """One call of the stream callback with buffer B and chunk c, S = B + c: nothing escapes; an
    incomplete S is kept in the buffer untouched; otherwise exactly the first frame of S is handed on
    (if it parsed), the buffer is empty and the remainder S[total:] - strictly shorter than S - is
    processed next; a malformed frame with a readable header length is skipped the same way."""
    s = bytes(t._buffer) + bytes(chunk)
    t.data_received_callback(chunk)
    delivered = ghost("delivered")
    recursed = ghost("recursed")
    assert len(delivered) <= 1 and len(recursed) <= 1
    if len(s) == 0:
        assert len(delivered) == 0 and len(recursed) == 0 and len(t._buffer) == 0
        return
    # a header fragment is always kept (a frame split inside its first six octets is not lost)
    if len(s) < 6:
        assert bytes(t._buffer) == s
    # ... and so is a frame of readable length of which less than that length has arrived - also when its
    # header is already known to be malformed: skipping it by the header alone would turn the rest of it
    # into the start of the 'next frame' and lose the frames that follow
    if len(s) >= 6 and s[0] == 6 and s[4] * 256 + s[5] >= 6 and len(s) < s[4] * 256 + s[5]:
        assert bytes(t._buffer) == s
    if len(t._buffer) > 0:
        # kept for later: it is all of S, nothing was handed on or skipped
        assert bytes(t._buffer) == s and len(delivered) == 0 and len(recursed) == 0
        # and S really is a proper prefix of a frame
        assert len(s) < 6 or (s[0] == 6 and len(s) < s[4] * 256 + s[5])
        return
    if len(delivered) == 1:
        total = s[4] * 256 + s[5]
        assert isinstance(delivered[0], ParsedFrame) and bytes(delivered[0].octets) == s[:total]
    if len(s) >= 6 and s[0] == 6 and 6 <= s[4] * 256 + s[5] <= len(s):
        # header length readable: the octets after this frame are processed next, whatever the frame was
        total = s[4] * 256 + s[5]
        if len(s) > total:
            assert len(recursed) == 1 and bytes(recursed[0]) == s[total:]
            assert len(recursed[0]) < len(s)  # progress: the recursion terminates
        else:
            assert len(recursed) == 0
    else:
        assert len(delivered) == 0


# ----------------------------------------------------------------------------- UDP

from pyvc.api import Bool, Choice, Const, Int, TupleOf  # noqa: E402
from xknx.io.transport.udp_transport import UDPTransport  # noqa: E402

SOURCE = TupleOf(Choice("192.168.1.1", "10.0.0.7"), Int(0, 65535))
UDP = Obj(UDPTransport, multicast=Bool(), local_addr_assigned=Choice(None, ("192.168.1.1", 3671)), callbacks=[], transport=None)


@lemma("C22", params=dict(t=UDP, raw=Bytes(max_len=70000), source=SOURCE), stubs=KNXIP_STUBS + [(UDPTransport, "handle_knxipframe", _handle_recorder)])
def udp_datagram(t, raw, source):
    """Any datagram: nothing escapes; at most one frame is handed on, and only a parsed one."""
    t.data_received_callback(raw, source)
    delivered = ghost("delivered")
    assert len(delivered) <= 1
    if len(delivered) == 1:
        assert len(raw) >= 6 and isinstance(delivered[0], ParsedFrame)
        assert bytes(delivered[0].octets) == bytes(raw[: raw[4] * 256 + raw[5]])


# ----------------------------------------------------------------------------- callback dispatch

from pyvc.api import EnumOf, ListOf  # noqa: E402
from xknx.io.transport.ip_transport import KNXIPTransport  # noqa: E402
from xknx.knxip.knxip_enum import KNXIPServiceType  # noqa: E402


class _Rec:
    """A registered callback that records its calls (contract: touches nothing else, does not raise)."""

    def __init__(self, ident):
        self.ident = ident

    def __call__(self, frame, source, transport):
        ghost("called").append(self.ident)


def _cb(ident, types):
    return Obj(KNXIPTransport.Callback, callback=Const(_Rec(ident)), service_types=types)


SERVICE = EnumOf(KNXIPServiceType)
CALLBACKS = ListOf(_cb(0, ListOf()), _cb(1, ListOf(SERVICE)), _cb(2, ListOf(SERVICE, SERVICE)))


@lemma("C22", params=dict(t=Obj(TCPTransport, callbacks=CALLBACKS), service=SERVICE))
def handle_knxipframe_calls_each_matching_callback_once(t, service):
    """Every registered callback whose service filter matches is called exactly once, in registration
    order; the others are not called."""
    frame = Holder()
    frame.header = Holder()
    frame.header.service_type_ident = service
    t.handle_knxipframe(frame, Holder())
    called = ghost("called")
    expected = [i for i, c in enumerate(t.callbacks) if (not c.service_types) or (service in c.service_types)]
    assert called == expected


# ----------------------------------------------------------------------------- what the stream callback relies on

from xknx.exceptions import IncompleteKNXIPFrame  # noqa: E402
from xknx.knxip import KNXIPFrame  # noqa: E402
from xknx.knxip.knxip_enum import KNXIPServiceType  # noqa: E402


@lemma("C22", params=dict(data=Bytes(max_len=70000)))
def a_proper_prefix_of_a_frame_is_reported_incomplete(data):
    """The part of KNXIPFrame.from_knx's contract the TCP lemma above depends on, proved here on the real
    parser (the full contract is C20): fewer than six octets, or a well-formed header announcing more
    octets than present, raise IncompleteKNXIPFrame - never 'malformed', which would make the transport
    throw the beginning of a frame away."""
    short = len(data) < 6
    if not short:
        assume_header = data[0] == 6 and data[1] == 0x10 and (data[2] * 256 + data[3]) in tuple(m.value for m in KNXIPServiceType)
        total = data[4] * 256 + data[5]
        if not (assume_header and total >= 6 and len(data) < total):
            return
    try:
        KNXIPFrame.from_knx(data)
    except IncompleteKNXIPFrame:
        return
    except CouldNotParseKNXIP:
        assert False, "a proper prefix of a frame was reported as malformed"
    assert False, "a proper prefix of a frame was parsed"


# ------------------------------------------------------------------ the parser contract the stream reader relies on
# (KNXIP_STUBS above): raises only CouldNotParseKNXIP, "incomplete" exactly for a proper prefix of a frame,
# otherwise consumes exactly the announced length - proved over the real KNXIPFrame.from_knx for every service
# type in C20; an obligation here too, because a parser that calls a complete but malformed frame
# "incomplete" makes the stream reader wait forever and lose everything that follows.

from contracts import c20_knxip_parse as _c20  # noqa: E402
from pyvc.api import rely_on  # noqa: E402

rely_on("C22", _c20.frame_from_knx_total)
rely_on("C22", _c20.the_body_parser_is_handed_exactly_the_announced_octets)
