"""C33 - Outgoing telegrams go out in order, one at a time, and never stall the queue."""

import asyncio
import warnings

from contracts.world import Holder, World
from pyvc.api import Bool, Choice, Const, EnumOf, Float, Int, ListOfAny, LoopSpec, Obj, assume, ghost, lemma, nondet, run, since_last
from xknx.core.telegram_queue import TelegramQueue
from xknx.exceptions import CommunicationError, ConversionError, XKNXException
from xknx.telegram import GroupAddress, IndividualAddress, Telegram, TelegramDirection
from xknx.telegram.address import InternalGroupAddress

warnings.filterwarnings("ignore", message="coroutine .* was never awaited")


class InQueue:
    """xknx.telegrams / outgoing_queue stand-in (asyncio.Queue is FIFO - trusted): get() delivers what the
    lemma supplies, everything is recorded under the queue's name."""

    def __init__(self, name):
        self.name = name

    async def get(self):
        ghost("T").append(("get", self.name))
        return ghost("supply")[-1]

    def put_nowait(self, item):
        ghost("T").append(("put", self.name, item))

    def task_done(self):
        ghost("T").append(("done", self.name))

    async def join(self):
        ghost("T").append(("join", self.name))


class RecDecoder:
    def set_decoded_data(self, telegram):
        ghost("T").append(("decode", telegram))


async def _incoming(self, telegram):
    """process_telegram_incoming: any outcome (callbacks and devices are C34/C37)."""
    ghost("T").append(("incoming", telegram))
    k = nondet(3)
    if k == 1:
        raise ConversionError("device failed")
    if k == 2:
        raise ValueError("unexpected")


async def _outgoing(self, telegram):
    """process_telegram_outgoing: any outcome."""
    ghost("T").append(("outgoing", telegram))
    k = nondet(4)
    if k == 1:
        raise CommunicationError("not connected")
    if k == 2:
        raise ConversionError("bad payload")
    if k == 3:
        raise ValueError("unexpected")


class Limiter:
    """The rate limiter task (asyncio.sleep(1/rate) wrapped in a task)."""

    def __init__(self, delay):
        self.delay = delay
        self.awaited = False

    async def __pyvc_await__(self):
        self.awaited = True
        ghost("T").append(("await_limiter", self.delay))

    def __await__(self):
        return self.__pyvc_await__().__await__()

    def cancel(self):
        ghost("T").append("cancel_limiter")


def _create_task(coro, name=None):
    prev = ghost("q")[-1]._rate_limiter  # (still the previous limiter: the caller assigns the new one afterwards)
    ghost("T").append(("new_limiter", coro, prev is None or prev.awaited))
    return Limiter(coro)


def _sleep(delay, result=None):
    """asyncio.sleep(d) as an opaque awaitable standing for 'd seconds'."""
    return delay


DEST = Choice(Obj(GroupAddress, raw=Int(0, 0xFFFF)), Obj(InternalGroupAddress, raw=Const("i-1")), Obj(IndividualAddress, raw=Int(0, 0xFFFF)))
TELEGRAM = Obj(Telegram, destination_address=DEST, direction=EnumOf(TelegramDirection), payload=None, source_address=None, tpci=None, decoded_data=None, data_secure=None)
TQ = Obj(
    TelegramQueue,
    xknx=Obj(World, telegrams=Const(InQueue("telegrams")), group_address_dpt=Const(RecDecoder()), rate_limit=Choice(0, Int(1, 1000))),
    telegram_received_cbs=Const([]),
    outgoing_queue=Const(InQueue("outgoing")),
    _rate_limiter=Choice(None, Obj(Limiter, delay=Float(lo=0.0, hi=10.0), awaited=False)),
    _consumer_task=None,
)
STUBS = [(TelegramQueue, "process_telegram_incoming", _incoming), (TelegramQueue, "process_telegram_outgoing", _outgoing), (asyncio, "create_task", _create_task), (asyncio, "sleep", _sleep)]

@lemma("C33", params=dict(q=TQ, t=Choice(None, TELEGRAM)), stubs=STUBS)
def consumer_marks_every_incoming_telegram_done(q, t):
    """_telegram_consumer, loop rule (the first iteration from the real entry state and an arbitrary later
    one, hence every iteration): an incoming telegram is processed once and marked done exactly once
    whatever processing raises - the loop goes on; an outgoing telegram is handed to the outgoing queue
    (in arrival order: one put per get) and is not marked done here; the loop ends only with the stop
    marker, after the outgoing queue was drained, and marks the marker done."""
    ghost("supply").append(t)
    run(q._telegram_consumer())
    # only the stop marker ends the loop
    it = since_last(ghost("T"), "get")
    assert t is None
    assert it == [("put", "outgoing", None), ("join", "outgoing"), ("done", "telegrams")]


def _consumer_iteration_post():
    it = since_last(ghost("T"), "get")
    t = ghost("supply")[-1]
    if t is None:
        return True
    if t.direction == TelegramDirection.INCOMING:
        return it == [("decode", t), ("incoming", t), ("done", "telegrams")]
    return it == [("decode", t), ("put", "outgoing", t)]


LoopSpec("TelegramQueue._telegram_consumer", 0, modifies=["ghost:T", "telegram"], invariant=lambda: True, post=_consumer_iteration_post)


def _limiter_iteration_post(self):
    it = since_last(ghost("T"), "get")
    t = ghost("supply")[-1]
    if t is None:
        return True
    rate = self.xknx.rate_limit
    limited = rate != 0 and not isinstance(t.destination_address, InternalGroupAddress)
    tail = [("outgoing", t), ("done", "outgoing"), ("done", "telegrams")]
    if not limited:
        return it == tail
    waited = [x for x in it if isinstance(x, tuple) and x[0] == "await_limiter"]
    created = [x for x in it if isinstance(x, tuple) and x[0] == "new_limiter"]
    if len(created) != 1 or created[0][1] != 1 / rate or len(waited) > 1:
        return False
    if not created[0][2]:
        return False  # the interval started with the previous telegram has not been awaited
    # the previous limiter (if any) is awaited before the new one is started and before the telegram goes out
    return it == waited + created + tail and isinstance(self._rate_limiter, Limiter) and self._rate_limiter.delay == 1 / rate


LoopSpec("TelegramQueue._outgoing_rate_limiter", 0, modifies=["ghost:T", "telegram", "self._rate_limiter"], invariant=lambda self: self._rate_limiter is None or isinstance(self._rate_limiter, Limiter), post=_limiter_iteration_post)


@lemma("C33", params=dict(q=TQ, t=Choice(None, TELEGRAM)), stubs=STUBS, float_mode="real")
def rate_limiter_sends_one_at_a_time_and_always_marks_done(q, t):
    """_outgoing_rate_limiter, loop rule: each outgoing telegram is taken in queue order, processed once
    and then marked done in both queues exactly once - whatever processing raises (CommunicationError,
    other library errors, anything else), so join() and stop() always return; with a rate limit r a
    telegram for the bus first awaits the limiter started with the previous one and starts a new one of
    1/r seconds (telegrams are at least 1/r apart); internal addresses are not rate limited; the loop ends
    only with the stop marker, cancelling a running limiter."""
    ghost("supply").append(t)
    ghost("q").append(q)
    run(q._outgoing_rate_limiter())
    it = since_last(ghost("T"), "get")
    assert t is None
    assert it[0] == ("done", "outgoing") and all(x == "cancel_limiter" for x in it[1:]) and len(it) <= 2
    # no cancelled timer is left behind: a restarted queue would await it and end with CancelledError
    assert q._rate_limiter is None


class RecCemiHandler:
    async def send_telegram(self, telegram):
        ghost("T").append(("interface", telegram))
        if nondet(2):
            raise CommunicationError("not connected")


class RecDevices:
    def process(self, telegram):
        ghost("T").append(("devices", telegram))


def _cbs(self, telegram):
    ghost("T").append(("callbacks", telegram))


TQ2 = Obj(TelegramQueue, xknx=Obj(World, cemi_handler=Const(RecCemiHandler()), devices=Const(RecDevices())), telegram_received_cbs=Const([]))


@lemma("C33", params=dict(q=TQ2, t=TELEGRAM), stubs=[(TelegramQueue, "_run_telegram_received_cbs", _cbs)])
def internal_telegrams_never_reach_the_interface(q, t):
    """process_telegram_outgoing (real body): a telegram to an internal group address is never handed to
    the interface but is still processed by devices and callbacks; every other telegram goes to the
    interface first and, once sent, to devices and callbacks."""
    sent = True
    try:
        run(q.process_telegram_outgoing(t))
    except CommunicationError:
        sent = False
    tr = ghost("T")
    if isinstance(t.destination_address, InternalGroupAddress):
        assert sent and tr == [("devices", t), ("callbacks", t)]
    elif sent:
        assert tr == [("interface", t), ("devices", t), ("callbacks", t)]
    else:
        assert tr == [("interface", t)]


ASSUMPTIONS = [
    "asyncio is trusted behind the contract stubs: a cancelled task/future does not continue, asyncio.timeout cancels what it guards, locks are mutually exclusive, queues are FIFO, tasks switch only at awaits; interleavings inside one await are represented by 'the awaited object completes with any admissible value, times out, or the connection closes'",
]



class ConsumerTask:
    async def __pyvc_await__(self):
        ghost("T").append("await_consumer")

    def __await__(self):
        return self.__pyvc_await__().__await__()


TQ3 = Obj(
    TelegramQueue,
    xknx=Obj(World, telegrams=Const(InQueue("telegrams"))),
    telegram_received_cbs=Const([]),
    outgoing_queue=Const(InQueue("outgoing")),
    _rate_limiter=Choice(None, Obj(Limiter, delay=Float(lo=0.0, hi=10.0), awaited=False)),
    _consumer_task=Choice(None, Obj(ConsumerTask)),
)


@lemma("C33", params=dict(q=TQ3), float_mode="real")
def stop_only_queues_the_stop_marker_and_waits(q):
    """stop(): puts the stop marker at the END of the telegram queue and waits for the consumer - everything
    queued before still goes out (loops above). It must not touch the rate limiter: the sender loop may be
    awaiting it, and awaiting a cancelled timer would end that loop with telegrams still queued."""
    run(q.stop())
    tr = ghost("T")
    assert tr[0] == ("put", "telegrams", None)
    assert "cancel_limiter" not in tr
    assert tr[1:] == (["await_consumer"] if q._consumer_task is not None else [])


# ------------------------------------------------------------------ what 'one at a time' relies on: send_telegram returns
# only after the frame's own confirmation (proved over the real CEMIHandler.send_telegram in C14; the same
# lemma is an obligation of this property too: a change there breaks 'one at a time' here)

from contracts import c14_cemi_routing as _c14  # noqa: E402
from pyvc.api import rely_on  # noqa: E402

rely_on("C33", _c14.send_completes_only_after_a_later_confirmation)


# ------------------------------------------------------------------ the decoding step of the consumer loop returns normally
# _telegram_consumer calls group_address_dpt.set_decoded_data() for every telegram outside its own error
# handling (RecDecoder above): an exception there ends the consumer task with telegrams still queued, and join()
# and stop() never return. The transcoders raise only CouldNotParseTelegram / ConversionError (proved per
# transcoder class in C07, where the same function is also run with every real class).

from xknx.core.group_address_dpt import GroupAddressDPT as _GroupAddressDPT  # noqa: E402
from xknx.exceptions import CouldNotParseTelegram as _CouldNotParseTelegram  # noqa: E402
from xknx.telegram.address import InternalGroupAddress as _InternalGroupAddress  # noqa: E402
from xknx.telegram.apci import GroupValueRead as _GroupValueRead, GroupValueResponse as _GroupValueResponse, GroupValueWrite as _GroupValueWrite  # noqa: E402
from xknx.dpt import DPTArray as _DPTArray, DPTBinary as _DPTBinary  # noqa: E402


class AnyTranscoder:
    """A datapoint type by contract (C07): from_knx returns a value or raises one of its two declared errors."""

    @classmethod
    def from_knx(cls, payload):
        k = nondet(3)
        if k == 1:
            raise _CouldNotParseTelegram("wrong payload type or length (contract)")
        if k == 2:
            raise ConversionError("value not supported (contract)")
        return ("decoded", payload)

    @classmethod
    def dpt_name(cls):
        return "AnyTranscoder"


@lemma("C33", params=dict(kind=Choice("write", "response", "read"), binary=Bool(), internal=Bool(), configured=Bool(), failed_before=Bool(), raw=Int(0, 0xFFFF)))
def the_decoding_step_never_raises(kind, binary, internal, configured, failed_before, raw):
    """GroupAddressDPT.set_decoded_data, any group telegram, transcoder configured or not, first or repeated
    decoding error: returns normally; decoded_data is set exactly when the transcoder returned a value."""
    table = _GroupAddressDPT()
    dst = _InternalGroupAddress("i-x") if internal else GroupAddress(raw)
    if configured:
        table._ga_dpts[dst.raw] = AnyTranscoder
    if failed_before:
        table.ga_decoding_error.add(dst)
    value = _DPTBinary(1) if binary else _DPTArray((9,))
    payload = _GroupValueRead() if kind == "read" else (_GroupValueWrite(value) if kind == "write" else _GroupValueResponse(value))
    t = Telegram(destination_address=dst, payload=payload)
    table.set_decoded_data(t)
    if t.decoded_data is not None:
        assert configured and kind != "read" and t.decoded_data.transcoder is AnyTranscoder and t.decoded_data.value == ("decoded", value)

# ... and that every real transcoder keeps to those two outcomes (C07) is an obligation of this property too
from contracts import c07_dpt_decode as _c07  # noqa: E402

rely_on("C33", _c07.dpt_from_knx_declared_errors)
