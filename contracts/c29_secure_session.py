"""C29 - A secure session only accepts fresh wrapped frames and never sends plain ones."""

from contracts.ipsecure_common import CRYPTO_STUBS, decrypt_frame_contract, recv_super, send_super
from pyvc.api import Bool, Bytes, Choice, Const, EnumOf, Int, Obj, assume, ghost, lemma
from xknx.exceptions import CouldNotParseKNXIP, IPSecureError, KNXSecureValidationError
from xknx.io.const import XKNX_SERIAL_NUMBER
from xknx.io.ip_secure import SecureSession, _IPSecureTransportLayer
from xknx.io.transport import KNXIPTransport, TCPTransport
from xknx.knxip import HPAI, KNXIPFrame, KNXIPHeader, KNXIPServiceType, SecureWrapper, SessionRequest, SessionResponse, SessionStatus, TunnellingRequest
from xknx.knxip.knxip_enum import SecureSessionStatusCode

MAX48 = (1 << 48) - 1
# the statement: nested wrappers and remote diagnosis / configuration services never come out of a wrapper
FORBIDDEN_WRAPPED_SERVICES = (
    KNXIPServiceType.SECURE_WRAPPER,
    KNXIPServiceType.REMOTE_DIAG_REQUEST,
    KNXIPServiceType.REMOTE_DIAG_RESPONSE,
    KNXIPServiceType.REMOTE_CONFIG_REQUEST,
    KNXIPServiceType.REMOTE_RESET_REQUEST,
)
B16 = Bytes(length=16)
WRAPPER = Obj(
    SecureWrapper,
    secure_session_id=Int(0, 0xFFFF),
    sequence_information=Bytes(length=6),
    serial_number=Bytes(length=6),
    message_tag=Bytes(length=2),
    encrypted_data=Bytes(max_len=40),
    message_authentication_code=B16,
)


def frame_of(body_spec, service):
    return Obj(KNXIPFrame, header=Obj(KNXIPHeader, service_type_ident=service, total_length=Int(0, 0xFFFF)), body=body_spec)


WRAPPED = frame_of(WRAPPER, Const(KNXIPServiceType.SECURE_WRAPPER))
INNER = frame_of(Const(None), EnumOf(KNXIPServiceType))
SESSION = Obj(
    SecureSession,
    session_id=Int(0, 0xFFFF),
    _key=B16,
    _sequence_number=Int(0, MAX48 + 2),
    _sequence_number_received=Int(-1, MAX48),
    initialized=Bool(),
    transport=Choice(None, "open"),
    _keepalive_task=None,
)


@lemma("C29", params=dict(s=SESSION, f=WRAPPED, dec=Bytes(max_len=40), mac_tr=B16, mac_cbc=B16, inner=Choice(None, INNER)), stubs=CRYPTO_STUBS)
def decrypt_frame_accepts_only_verified_wrappers(s, f, dec, mac_tr, mac_cbc, inner):
    """decrypt_frame over the real body, AES primitives and the inner parser uninterpreted: the inner
    frame is returned only if the wrapper names this session, the transmitted MAC (decrypted with
    counter block sequence|serial|tag|ff00) equals the CBC-MAC computed over header|session id and the
    decrypted payload with block sequence|serial|tag|len, and the inner service is neither a wrapper nor
    remote diagnosis/configuration; every other case is KNXSecureValidationError (or the parser's
    CouldNotParseKNXIP)."""
    ghost("dec_out").append((dec, mac_tr))
    ghost("cbc_out").append(mac_cbc)
    ghost("parse_out").append(inner)
    w = f.body
    r = None
    err = None
    try:
        r = s.decrypt_frame(f)
    except KNXSecureValidationError:
        err = "validation"
    except CouldNotParseKNXIP:
        err = "parse"
    if w.secure_session_id != s.session_id:
        assert err == "validation" and ghost("crypto") == []
        return
    calls = ghost("crypto")
    assert calls[0] == ("dec", s._key, w.sequence_information + w.serial_number + w.message_tag + b"\xff\x00", w.message_authentication_code, w.encrypted_data)
    assert calls[1][0] == "cbc" and calls[1][1] == s._key and calls[1][3] == dec
    assert calls[1][2] == f.header.to_knx() + w.secure_session_id.to_bytes(2, "big")
    assert calls[1][4] == w.sequence_information + w.serial_number + w.message_tag + len(dec).to_bytes(2, "big")
    if mac_cbc != mac_tr:
        assert err == "validation" and ghost("parsed") == []
    elif inner is None:
        assert err == "parse"
    elif inner.header.service_type_ident in FORBIDDEN_WRAPPED_SERVICES:
        assert err == "validation"
    else:
        assert r is inner and ghost("parsed") == [dec]


PLAIN_BODY = Choice(
    Obj(SessionResponse, secure_session_id=Int(0, 0xFFFF), ecdh_server_public_key=Bytes(length=32), message_authentication_code=B16),
    Obj(SessionStatus, status=EnumOf(SecureSessionStatusCode)),
    Obj(TunnellingRequest, communication_channel_id=Int(0, 255), sequence_counter=Int(0, 255), raw_cemi=Const(b"\x11\x00")),
)
RECV_STUBS = [(_IPSecureTransportLayer, "decrypt_frame", decrypt_frame_contract), (KNXIPTransport, "handle_knxipframe", recv_super)]


@lemma("C29", params=dict(s=SESSION, f=Choice(WRAPPED, frame_of(PLAIN_BODY, EnumOf(KNXIPServiceType))), inner=INNER), stubs=RECV_STUBS)
def receive_passes_on_only_fresh_verified_frames(s, f, inner):
    """handle_knxipframe, any session state and any frame: a wrapper is passed on (as its inner frame)
    only if the session is initialized, its sequence number is strictly greater than the last accepted
    one and decrypt_frame accepted it - then that number becomes the last accepted one; in every other
    case nothing is passed on and the counter is unchanged. A plain frame is passed on only if it is a
    SessionResponse and the session is not yet initialized."""
    ghost("inner").append(inner)
    last = s._sequence_number_received
    raised = False
    try:
        s.handle_knxipframe(f, HPAI())
    except CouldNotParseKNXIP:
        raised = True
    passed = ghost("passed_on")
    if isinstance(f.body, SecureWrapper):
        n = int.from_bytes(f.body.sequence_information, "big")
        if not s.initialized:
            assert raised and passed == [] and s._sequence_number_received == last and ghost("decrypt_calls") == []
        elif n <= last:
            assert passed == [] and s._sequence_number_received == last and ghost("decrypt_calls") == []
        elif passed:
            assert passed == [inner] and s._sequence_number_received == n and n > last
        else:
            assert s._sequence_number_received == last
        assert not (raised and s.initialized)
    else:
        assert not raised and s._sequence_number_received == last and ghost("decrypt_calls") == []
        if passed:
            assert passed == [f] and isinstance(f.body, SessionResponse) and not s.initialized
        if isinstance(f.body, SessionResponse) and not s.initialized:
            assert passed == [f]


def _keepalive(self):
    ghost("keepalive").append(1)


def _plain_to_knx(self):
    """KNXIPFrame.to_knx of the frame to wrap: some octets (C21)."""
    return ghost("plain")[-1]


OUT_BODY = Choice(
    Obj(SessionRequest, ecdh_client_public_key=Bytes(length=32)),
    Obj(SessionStatus, status=EnumOf(SecureSessionStatusCode)),
    Obj(TunnellingRequest, communication_channel_id=Int(0, 255), sequence_counter=Int(0, 255), raw_cemi=Const(b"\x11\x00")),
)
SEND_STUBS = CRYPTO_STUBS + [(TCPTransport, "send", send_super), (SecureSession, "start_keepalive_task", _keepalive), (KNXIPFrame, "to_knx", _plain_to_knx)]


@lemma("C29", params=dict(s=SESSION, f=frame_of(OUT_BODY, EnumOf(KNXIPServiceType)), plain=Bytes(max_len=40), mac_cbc=B16, enc=Bytes(max_len=40), mac=B16), stubs=SEND_STUBS)
def send_wraps_everything_after_the_handshake(s, f, plain, mac_cbc, enc, mac):
    """send(), any session state and frame: before the handshake only a SessionRequest leaves (plain),
    anything else is refused with IPSecureError; afterwards exactly one frame leaves and it is a
    SecureWrapper for this session carrying the current sequence number, which then grows by one -
    consecutive wrappers are strictly increasing; at 2^48 the send is refused and nothing leaves. The
    MAC is computed over header|session id and the plain octets, the payload encrypted with the same
    sequence|serial|tag."""
    ghost("plain").append(plain)
    ghost("cbc_out").append(mac_cbc)
    ghost("enc_out").append((enc, mac))
    n = s._sequence_number
    err = False
    try:
        s.send(f)
    except IPSecureError:
        err = True
    sent = ghost("sent")
    if not s.initialized:
        assert s._sequence_number == n and ghost("crypto") == []
        if isinstance(f.body, SessionRequest):
            assert not err and sent == [f]
        else:
            assert err and sent == []
        return
    if n > MAX48:
        assert err and sent == [] and s._sequence_number == n
        return
    assert not err and len(sent) == 1 and s._sequence_number == n + 1 and ghost("keepalive") == [1]
    w = sent[0].body
    assert isinstance(w, SecureWrapper) and sent[0].header.service_type_ident == KNXIPServiceType.SECURE_WRAPPER
    assert w.secure_session_id == s.session_id and w.serial_number == XKNX_SERIAL_NUMBER and w.message_tag == b"\x00\x00"
    assert int.from_bytes(w.sequence_information, "big") == n and len(w.sequence_information) == 6
    assert w.encrypted_data == enc and w.message_authentication_code == mac
    assert sent[0].header.total_length == 38 + len(enc)
    c = ghost("crypto")
    assert c[0][0] == "cbc" and c[0][1] == s._key and c[0][3] == plain
    assert c[0][2] == b"\x06\x10\x09\x50" + (38 + len(plain)).to_bytes(2, "big") + s.session_id.to_bytes(2, "big")
    assert c[0][4] == w.sequence_information + XKNX_SERIAL_NUMBER + b"\x00\x00" + len(plain).to_bytes(2, "big")
    assert c[1] == ("enc", s._key, w.sequence_information + XKNX_SERIAL_NUMBER + b"\x00\x00" + b"\xff\x00", mac_cbc, plain)


ASSUMPTIONS = [
    "AES primitives uninterpreted (arbitrary octets); KNXIPFrame.from_knx/to_knx per their own contracts (C20/C21)",
]


# ------------------------------------------------------------------ closing the session


def _rec_send(self, knxipframe, addr=None):
    # (the real send wraps with get_sequence_information(): the counter as it stands at this moment)
    ghost("T").append(("send", knxipframe, self.initialized, self._sequence_number, self._sequence_number_received))


def _rec_super_stop(self):
    ghost("T").append("transport_stop")


def _rec_stop_keepalive(self):
    ghost("T").append("keepalive_stop")


STOP_SESSION = Obj(SecureSession, session_id=Int(0, 0xFFFF), _key=B16, _sequence_number=Int(0, MAX48), _sequence_number_received=Int(-1, MAX48), initialized=Bool(), transport=Choice(None, "open"), _keepalive_task=None, _session_status_handler=None, callbacks=Const([]))


@lemma("C29", params=dict(s=STOP_SESSION), stubs=[(SecureSession, "send", _rec_send), (TCPTransport, "stop", _rec_super_stop), (SecureSession, "stop_keepalive_task", _rec_stop_keepalive)])
def close_goes_through_the_wrapping_send(s):
    """stop(): the session-close status leaves through send() while the session still counts as
    initialized (so it is wrapped - send lemma above), at most once, and only on an open, initialized
    session; afterwards the session is not initialized and the transport is stopped."""
    was_init, was_open = s.initialized, s.transport is not None
    n_out, n_in = s._sequence_number, s._sequence_number_received
    s.stop()
    tr = ghost("T")
    sends = [x for x in tr if isinstance(x, tuple) and x[0] == "send"]
    if was_init and was_open:
        assert len(sends) == 1 and sends[0][2] is True
        # the close frame continues the session's numbering: the counters are untouched when it is wrapped
        assert sends[0][3] == n_out and sends[0][4] == n_in
        b = sends[0][1].body
        assert isinstance(b, SessionStatus) and b.status == SecureSessionStatusCode.STATUS_CLOSE
    else:
        assert sends == []
    assert not s.initialized and tr[-1] == "transport_stop"


# the sizes of the fields of a received SecureWrapper (the WRAPPER spec above) are owed by its parser - proved in C30
from contracts import c30_secure_routing as _c30  # noqa: E402
from pyvc.api import rely_on  # noqa: E402

rely_on("C29", _c30.a_parsed_secure_body_has_its_fixed_field_sizes)
