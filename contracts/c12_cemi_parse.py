"""C12 - cEMI frame parsing is total with declared errors only."""

from contracts.cemi_common import APCI_STUBS
from pyvc.api import Bytes, lemma
from xknx.cemi.cemi_frame import CEMIFrame
from xknx.exceptions import CouldNotParseCEMI, UnsupportedCEMIMessage


@lemma("C12", params=dict(raw=Bytes()), stubs=APCI_STUBS)
def cemi_from_knx_total(raw):
    """CEMIFrame.from_knx returns a frame or raises CouldNotParseCEMI / UnsupportedCEMIMessage,
    for every byte string (length 0 included); APCI.from_knx enters through its contract."""
    try:
        f = CEMIFrame.from_knx(raw)
    except (CouldNotParseCEMI, UnsupportedCEMIMessage):
        return
    assert isinstance(f, CEMIFrame)


# ----------------------------------------------------------------------------- receive handler

from pyvc.api import Int, Obj, exception_logged, ghost  # noqa: E402
from xknx.cemi.cemi_handler import CEMIHandler  # noqa: E402
from xknx.core.connection_manager import ConnectionManager  # noqa: E402
from contracts.world import World  # noqa: E402


def _record_handled(self, cemi):
    """Contract stub of handle_cemi_frame for this lemma: only records the hand-over."""
    ghost("handled").append(cemi)


HANDLER = Obj(
    CEMIHandler,
    data_secure=None,
    xknx=Obj(World, connection_manager=Obj(ConnectionManager, cemi_count_incoming_error=Int(0, 10**9), cemi_count_incoming=Int(0, 10**9))),
)


@lemma("C12", params=dict(handler=HANDLER, raw=Bytes()), stubs=APCI_STUBS + [(CEMIHandler, "handle_cemi_frame", _record_handled)])
def handle_raw_cemi_never_needs_last_resort(handler, raw):
    """For every byte string the receive handler returns normally, never enters its last-resort
    `except Exception` guard, and either hands exactly one parsed frame on or counts one error."""
    cm = handler.xknx.connection_manager
    before = cm.cemi_count_incoming_error
    handler.handle_raw_cemi(raw)
    assert not exception_logged()
    handled = ghost("handled")
    if len(handled) == 0:
        assert cm.cemi_count_incoming_error == before + 1
    else:
        assert len(handled) == 1
        assert cm.cemi_count_incoming_error == before


# ------------------------------------------------------------------ the APDU decoder contract this property relies on
# (APCI_STUBS: APCI.from_knx raises only ConversionError / UnsupportedAPCIService) - proved over every real
# service decoder in C04; an obligation here too: an undeclared exception from a service decoder escapes
# CEMIFrame.from_knx and reaches the last-resort guard.

from contracts import c04_apci_decode as _c04  # noqa: E402
from pyvc.api import rely_on  # noqa: E402

rely_on("C12", _c04.service_decode_raises_only_declared)
rely_on("C12", _c04.dispatcher_total)
