"""C03 - Transport-layer control octets decode only to PDUs that re-encode to them."""

from pyvc.api import Bool, Choice, Const, Int, lemma
from xknx.exceptions import ConversionError
from xknx.telegram.tpci import (
    TPCI,
    TAck,
    TConnect,
    TDataBroadcast,
    TDataConnected,
    TDataGroup,
    TDataIndividual,
    TDataTagGroup,
    TDisconnect,
    TNak,
)

# destination kinds: (dst_is_group_address, dst_is_zero)
INDIVIDUAL = (False, False)
GROUP = (True, False)
BROADCAST = (True, True)
KINDS = [dict(group=g, zero=z) for g, z in (INDIVIDUAL, GROUP, BROADCAST)]


def admissible(t, group, zero):
    """PDU classes the Transport Layer defines per destination kind (03_03_04 §2)."""
    if group and zero:
        # T_Data_Tag_Group (LTE) is group addressed; the statement does not exclude zone/address 0
        return isinstance(t, (TDataBroadcast, TDataTagGroup))
    if group:
        return isinstance(t, (TDataGroup, TDataTagGroup))
    return isinstance(t, (TDataIndividual, TDataConnected, TConnect, TDisconnect, TAck, TNak))


@lemma("C03", params=dict(octet=Int(0, 255)), family=KINDS)
def decode_then_encode(octet, group, zero):
    """Every octet is rejected or decodes to a PDU whose encoding reproduces the transport bits."""
    try:
        t = TPCI.resolve(octet, group, zero)
    except ConversionError:
        return
    # low two bits of a data TPDU belong to the APCI
    mask = 0xFF if t.control else 0xFC
    assert t.to_knx() & mask == octet & mask
    assert admissible(t, group, zero)


@lemma(
    "C03",
    params=dict(seq=Int(0, 15)),
    family=[
        dict(cls=TDataGroup, group=True, zero=False),
        dict(cls=TDataBroadcast, group=True, zero=True),
        dict(cls=TDataTagGroup, group=True, zero=False),
        dict(cls=TDataIndividual, group=False, zero=False),
        dict(cls=TDataConnected, group=False, zero=False),
        dict(cls=TConnect, group=False, zero=False),
        dict(cls=TDisconnect, group=False, zero=False),
        dict(cls=TAck, group=False, zero=False),
        dict(cls=TNak, group=False, zero=False),
    ],
)
def encode_then_decode(cls, seq, group, zero):
    """Every PDU the library builds decodes back to the same PDU for its destination kind."""
    t = cls(seq) if cls in (TDataConnected, TAck, TNak) else cls()
    back = TPCI.resolve(t.to_knx(), group, zero)
    assert type(back) is cls
    assert back == t
    assert back.sequence_number == t.sequence_number
