"""C03 - Transport-layer control octets decode only to PDUs that re-encode to them."""

from pyvc.api import Bool, Choice, Const, Int, lemma
from xknx.exceptions import ConversionError
from xknx.telegram.tpci import (
    TPCI,
    TAck,
    TConnect,
    TDataBroadcast,
    TDataConnected,
    TDataGroup,
    TDataIndividual,
    TDataTagGroup,
    TDisconnect,
    TNak,
)

# destination kinds: (dst_is_group_address, dst_is_zero)
INDIVIDUAL = (False, False)
GROUP = (True, False)
BROADCAST = (True, True)
KINDS = [dict(group=g, zero=z) for g, z in (INDIVIDUAL, GROUP, BROADCAST)]


def admissible(t, group, zero):
    """PDU classes the Transport Layer defines per destination kind (03_03_04 §2)."""
    if group and zero:
        # T_Data_Tag_Group (LTE) is group addressed; the statement does not exclude zone/address 0
        return isinstance(t, (TDataBroadcast, TDataTagGroup))
    if group:
        return isinstance(t, (TDataGroup, TDataTagGroup))
    return isinstance(t, (TDataIndividual, TDataConnected, TConnect, TDisconnect, TAck, TNak))


@lemma("C03", params=dict(octet=Int(0, 255)), family=KINDS)
def decode_then_encode(octet, group, zero):
    """Every octet is rejected or decodes to a PDU whose encoding reproduces the transport bits."""
    try:
        t = TPCI.resolve(octet, group, zero)
    except ConversionError:
        return
    # low two bits of a data TPDU belong to the APCI
    mask = 0xFF if t.control else 0xFC
    assert t.to_knx() & mask == octet & mask
    assert admissible(t, group, zero)


@lemma(
    "C03",
    params=dict(seq=Int(0, 15)),
    family=[
        dict(cls=TDataGroup, group=True, zero=False),
        dict(cls=TDataBroadcast, group=True, zero=True),
        dict(cls=TDataTagGroup, group=True, zero=False),
        dict(cls=TDataIndividual, group=False, zero=False),
        dict(cls=TDataConnected, group=False, zero=False),
        dict(cls=TConnect, group=False, zero=False),
        dict(cls=TDisconnect, group=False, zero=False),
        dict(cls=TAck, group=False, zero=False),
        dict(cls=TNak, group=False, zero=False),
    ],
)
def encode_then_decode(cls, seq, group, zero):
    """Every PDU the library builds decodes back to the same PDU for its destination kind."""
    t = cls(seq) if cls in (TDataConnected, TAck, TNak) else cls()
    back = TPCI.resolve(t.to_knx(), group, zero)
    assert type(back) is cls
    assert back == t
    assert back.sequence_number == t.sequence_number


# ------------------------------------------------------------------ the octet as the library puts it into a frame
# "every transport PDU the library builds": the PDU leaves through CEMILData.to_knx, which merges it with the
# first octet of the APDU (data PDUs) or sends it alone (control PDUs); CEMILData.from_knx reads it back.

from contracts.cemi_common import APCI_STUBS, AnyAPCI  # noqa: E402
from pyvc.api import Bytes, Obj, assume  # noqa: E402
from xknx.cemi.cemi_frame import CEMILData  # noqa: E402
from xknx.cemi.flags import CEMIFlags  # noqa: E402
from xknx.telegram.address import GroupAddress, IndividualAddress  # noqa: E402

_SRC = Obj(IndividualAddress, raw=Int(0, 0xFFFF))
_DST = Choice(Obj(GroupAddress, raw=Int(0, 0xFFFF)), Obj(IndividualAddress, raw=Int(0, 0xFFFF)))
_ALL = (TDataGroup, TDataBroadcast, TDataTagGroup, TDataIndividual, TDataConnected, TConnect, TDisconnect, TAck, TNak)


@lemma("C03", params=dict(seq=Int(0, 15), src=_SRC, dst=_DST, enc=Bytes(min_len=2, max_len=16)), family=[dict(cls=c) for c in _ALL], stubs=APCI_STUBS)
def the_octet_in_a_built_frame_decodes_to_the_same_pdu(cls, seq, src, dst, enc):
    """CEMILData.to_knx / from_knx, every PDU class with every destination it is defined for, any APDU whose
    encoder leaves the six transport bits clear (C06): the TPCI octet of the frame carries exactly the PDU's
    transport bits (all eight for control PDUs) and the frame parses back to the same PDU."""
    group, zero = isinstance(dst, GroupAddress), dst.raw == 0
    t = cls(seq) if cls in (TDataConnected, TAck, TNak) else cls()
    if not admissible(t, group, zero):
        return
    if isinstance(t, TDataBroadcast) != (group and zero) and not isinstance(t, TDataTagGroup):
        return
    assume(enc[0] & 0xFC == 0)
    payload = None if t.control else AnyAPCI(enc=enc)
    w = CEMILData(flags=CEMIFlags(), src_addr=src, dst_addr=dst, tpci=t, payload=payload).to_knx()
    octet = w[7]
    if t.control:
        assert octet == t.to_knx() and len(w) == 8
    else:
        assert octet & 0xFC == t.to_knx() & 0xFC and octet & 0x03 == enc[0] & 0x03
    back = CEMILData.from_knx(bytes(w)).tpci
    assert type(back) is cls and back == t and back.sequence_number == t.sequence_number
