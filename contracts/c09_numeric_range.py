"""C09 - Numeric datapoints encode every in-range value within one resolution step."""

import random

from contracts.dpt_common import dpt_classes
from pyvc.api import Float, Int, assume, lemma, standin
from xknx.dpt import DPTArray
from xknx.dpt.dpt import DPTNumeric
from xknx.exceptions import ConversionError


def numeric_classes():
    return [c for c in dpt_classes() if issubclass(c, DPTNumeric)]


def module_of(c):
    return c.__module__.split(".")[-1]


RAW_SCALED = ("dpt_7", "dpt_8")  # value_min / value_max are bounds of the raw field, value = raw * resolution


def physical_range(c):
    """The declared range in the unit of the values to_knx takes."""
    if module_of(c) in RAW_SCALED:
        return c.value_min * c.resolution, c.value_max * c.resolution
    if module_of(c) == "dpt_14":
        # declared -inf..inf: what an IEEE 754 single can hold (beyond it: ConversionError)
        return max(c.value_min, -3.4028234663852886e38), min(c.value_max, 3.4028234663852886e38)
    return c.value_min, c.value_max


def step(c):
    """One resolution step of the values the type can represent (1 for the integer types)."""
    return c.resolution if module_of(c) in RAW_SCALED else max(c.resolution, 1) if module_of(c) not in ("dpt_9", "dpt_14") else c.resolution


INT_MODULES = ("dpt_5", "dpt_6", "dpt_7", "dpt_12", "dpt_13", "dpt_17", "dpt_29")


def int_numeric():
    return [c for c in numeric_classes() if module_of(c) in INT_MODULES and c.__name__ not in ("DPTScaling", "DPTAngle")]


@lemma("C09", family=lambda: [dict(T=c) for c in int_numeric()], params=dict(v=Int(-(1 << 70), 1 << 70)))
def integer_types_encode_in_range_and_refuse_the_rest(T, v):
    """Integer datapoint types (1, 2, 4, 8 octet signed/unsigned, with resolution 1, 10 or 100), every
    integer value however large: a value inside the declared range is accepted; an accepted value gives a
    DPTArray of the declared length that decodes to within one resolution step below-or-at the input
    (never a wrapped value); a value more than one step outside the range is refused with
    ConversionError - nothing else is raised."""
    lo, hi = physical_range(T)
    res = step(T)
    try:
        p = T.to_knx(v)
    except ConversionError:
        assert not (lo <= v <= hi)
        return
    assert isinstance(p, DPTArray) and len(p.value) == T.payload_length
    d = T.from_knx(p)
    assert 0 <= v - d < res
    assert lo - res < v < hi + res


# ------------------------------------------------------------------ stand-ins: types whose codecs compute with floats

import math  # noqa: E402
import struct  # noqa: E402


def _check(T, v, local_step, nearest=False, strict_range=False):
    """nearest=True (codecs that round to the nearest raw value): the error is strictly below one step - so
    an exactly representable input comes back exactly, not one step off - and nothing further than half a
    step outside the range is accepted."""
    lo, hi = physical_range(T)
    try:
        p = T.to_knx(v)
    except ConversionError:
        assert not (lo <= v <= hi), (T.__name__, v, "in range but refused")
        return
    assert isinstance(p, DPTArray) and len(p.value) == T.payload_length, (T.__name__, v)
    assert all(isinstance(o, int) and 0 <= o <= 255 for o in p.value), (T.__name__, v, p.value, "not octets")
    if strict_range:
        # codecs that test the value itself against the declared range: nothing outside it is encoded at all
        assert lo <= v <= hi, (T.__name__, v, "outside the declared range but encoded")
    d = T.from_knx(p)
    st = local_step(p)
    if nearest:
        assert abs(d - v) < st, (T.__name__, v, d, st, "not less than one resolution step")
        assert lo - st / 2 * (1 + 1e-9) <= v <= hi + st / 2 * (1 + 1e-9), (T.__name__, v, "outside the range but encoded")
        return
    assert abs(d - v) < st * (1 + 1e-9) + 1e-12, (T.__name__, v, d, st)
    assert lo - st * (1 + 1e-9) <= v <= hi + st * (1 + 1e-9), (T.__name__, v, "outside the range but encoded")


def _scaled_cases(tier, T):
    lo, hi = int(T.value_min), int(T.value_max)
    res = T.resolution
    for r in range(lo - 3, hi + 4):
        for off in (0.0, 0.3, -0.3, 0.49, -0.49, 0.51, -0.51):
            yield (T, (r + off) * res)
    for v in (1e9, -1e9, 1e300, -1e300, float(1 << 62)):
        yield (T, v)


@standin("C09", cases=_scaled_cases, family=lambda: [dict(T=c) for c in numeric_classes() if module_of(c) == "dpt_8"], kind="enum-native", exhaustive=True, bound="DPT 8.x (2 octet signed, resolution 0.01/1/10/100): every raw value -32771..32770 x 7 sub-step offsets, plus huge values")
def two_byte_signed_scaled(T, v):
    _check(T, v, lambda p: T.resolution, nearest=True)


def _floor_cases(tier, T):
    lo, hi = int(T.value_min), int(T.value_max)
    res = T.resolution
    step = 1 if tier != "quick" else 7
    for r in list(range(lo - 3, lo + 4)) + list(range(lo + 4, hi - 3, step)) + list(range(hi - 3, hi + 4)):
        for off in (0.0, 0.3, 0.5, 0.99, -0.01):
            v = (r + off) * res
            yield (T, v)
            if float(v).is_integer():
                yield (T, int(v))
    for v in (-1, -res + 1, -res, -res - 1, 10**9, -(10**9)):
        yield (T, v)


@standin("C09", cases=_floor_cases, family=lambda: [dict(T=c) for c in numeric_classes() if module_of(c) == "dpt_7"], kind="enum-native", exhaustive=False, bound="DPT 7.x (2 octet unsigned, resolution 1/10/100; the codec floors): raw values around both ends densely and every 7th (quick) / every (thorough) raw value in between x 5 sub-step offsets, as floats and as integers, plus small negative values and huge ones")
def two_byte_unsigned_scaled(T, v):
    """to_knx takes the value as an integer (int(): a fraction is dropped, so -0.7 counts as 0 - the declared
    unit is the integer) and floors it to the resolution: accepted exactly when that integer lies in
    value_min .. value_max + one step - 1 (physical units), decoding to the step at or below it; everything
    else - in particular every negative integer, however small - is refused."""
    lo, hi = physical_range(T)
    res = T.resolution
    if v != v or v in (float("inf"), float("-inf")):
        return
    iv = int(v)
    try:
        p = T.to_knx(v)
    except ConversionError:
        assert not (lo <= iv < hi + res), (T.__name__, v, "in range but refused")
        return
    assert lo <= iv < hi + res, (T.__name__, v, "outside the range but encoded", p.value)
    d = T.from_knx(p)
    assert d <= iv < d + res, (T.__name__, v, d, "not the step at or below the input")


def _percent_cases(tier, T):
    lo, hi = T.value_min, T.value_max
    n = 20000 if tier == "quick" else 400000
    for i in range(-200, n + 201):
        yield (T, lo + (hi - lo) * i / n)
    for v in (-1e9, 1e9, lo - 1, hi + 1, lo - 0.0001, hi + 0.0001):
        yield (T, v)


@standin("C09", cases=_percent_cases, family=lambda: [dict(T=c) for c in numeric_classes() if c.__name__ in ("DPTScaling", "DPTAngle")], kind="enum-native", exhaustive=False, bound="DPT 5.001 / 5.003: 2*10^4 (quick) / 4*10^5 (thorough) equidistant values across and slightly beyond the declared range")
def one_octet_scaled(T, v):
    # representable values are round(k/255*range): neighbouring ones are at most ceil(range/255) apart
    _check(T, v, lambda p: max(1.0, math.ceil((T.value_max - T.value_min) / 255)), strict_range=True)


def _f16_step(p):
    e = (p.value[0] >> 3) & 0x0F
    return 0.01 * (1 << e)


def _f16_cases(tier, T):
    rnd = random.Random(9)
    lo, hi = T.value_min, T.value_max
    # every representable value and the midpoints to its neighbours
    for e in range(16):
        for m in range(-2048, 2048, 1 if tier == "thorough" else 7):
            x = 0.01 * m * (1 << e)
            for v in (x, x + 0.0049 * (1 << e), x - 0.0049 * (1 << e)):
                yield (T, v)
    for _ in range(20000 if tier == "quick" else 300000):
        yield (T, rnd.uniform(max(lo, -700000), min(hi, 700000)))
    for v in (lo, hi, lo - 0.01, hi + 0.01, lo - 1000, hi + 1000, 1e12, -1e12, 0.0, -0.0, 0.004, -0.004):
        yield (T, v)


@standin("C09", cases=_f16_cases, family=lambda: [dict(T=c) for c in numeric_classes() if module_of(c) == "dpt_9"], kind="enum-native", exhaustive=False, bound="DPT 9.x (KNX 2 octet float): every representable value (thorough; every 7th mantissa quick) of every exponent and points just inside the midpoints to its neighbours, 2*10^4 / 3*10^5 random values, the range ends and beyond")
def two_octet_float(T, v):
    _check(T, v, _f16_step)


def _f32_cases(tier, T):
    rnd = random.Random(14)
    for _ in range(5000 if tier == "quick" else 100000):
        yield (T, struct.unpack(">f", struct.pack(">I", rnd.getrandbits(32)))[0])
    for _ in range(5000 if tier == "quick" else 100000):
        yield (T, rnd.uniform(-1, 1) * 10 ** rnd.randint(-40, 38))
    for v in (0.0, -0.0, 3.4028234e38, -3.4028234e38, 1e-45, 1e-50, 3.5e38, -3.5e38, 1e300, -1e300):
        yield (T, v)


def _f32_step(p):
    x = abs(struct.unpack(">f", bytes(p.value))[0])
    if x == 0 or math.isinf(x):
        return 2.0**-149 if x == 0 else float("inf")
    # one unit in the last place of the single, or of the 7 significant decimal digits from_knx rounds to
    return max(2.0 ** (math.floor(math.log2(x)) - 23), 2.0**-149, 10.0 ** (math.ceil(math.log10(x)) - 7))


@standin("C09", cases=_f32_cases, family=lambda: [dict(T=c) for c in numeric_classes() if module_of(c) == "dpt_14"][:6], kind="enum-native", exhaustive=False, bound="DPT 14.x (IEEE 754 single; 6 of the 84 classes - they share one codec): 5000 / 10^5 random bit patterns and random magnitudes 1e-40..1e38, the extremes, values beyond the single range and infinities")
def four_octet_float(T, v):
    if math.isnan(v):
        return
    _check(T, v, _f32_step)
