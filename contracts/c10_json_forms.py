"""C10 - Complex and enum datapoint values round-trip through their JSON form."""

from contracts.dpt_common import dpt_classes, uses_floats
from pyvc.api import ByteTuple, Choice, Int, Obj, lemma
from xknx.dpt import DPTArray, DPTBinary
from xknx.dpt.dpt import DPTComplex, DPTEnum
from xknx.exceptions import ConversionError, CouldNotParseTelegram

PAYLOAD = Choice(Obj(DPTBinary, value=Int(0, 0x3F)), Obj(DPTArray, value=ByteTuple()))


def json_classes():
    return [c for c in dpt_classes() if issubclass(c, (DPTComplex, DPTEnum))]


def json_serializable(v):
    """What json.dumps accepts without custom encoders."""
    if v is None or isinstance(v, (bool, int, float, str)):
        return True
    if isinstance(v, (list, tuple)):
        return all(json_serializable(x) for x in v)
    if isinstance(v, dict):
        return all(isinstance(k, str) and json_serializable(x) for k, x in v.items())
    return False


def json_cycle(v):
    """json.loads(json.dumps(v)) for serializable v (trusted contract of the json module): identity,
    except that tuples come back as lists."""
    if isinstance(v, (list, tuple)):
        return [json_cycle(x) for x in v]
    if isinstance(v, dict):
        return {k: json_cycle(x) for k, x in v.items()}
    return v


@lemma("C10", params=dict(payload=PAYLOAD), family=lambda: [dict(T=c) for c in json_classes() if not uses_floats(c)])
def json_form_roundtrip(T, payload):
    """Every decoded value has a JSON-serializable dictionary / name form which the same type's encoder
    accepts (after a JSON cycle) and which encodes to a payload decoding to the same value."""
    try:
        v = T.from_knx(payload)
    except (CouldNotParseTelegram, ConversionError):
        return
    form = v.name.lower() if issubclass(T, DPTEnum) else v.as_dict()
    assert json_serializable(form)
    q = T.to_knx(json_cycle(form))
    assert T.from_knx(q) == v


# ----------------------------------------------------------------------------- float-carrying dicts (stand-in)

import json  # noqa: E402

from contracts.c08_dpt_roundtrip import _six_octet_cases  # noqa: E402
from pyvc.api import standin  # noqa: E402


@standin(
    "C10",
    cases=_six_octet_cases,
    family=lambda: [dict(T=c) for c in json_classes() if uses_floats(c)],
    kind="enum-native",
    exhaustive=False,
    bound="DPT 242/243/249.600 (their dicts carry round(x, n) floats, which have no encoding): every value of each 16 bit field with the other fields from a sample set and all validity-flag patterns + seeded random payloads, through a real json.dumps/json.loads cycle",
)
def float_dict_roundtrip(T, octets):
    try:
        v = T.from_knx(DPTArray(octets))
    except (CouldNotParseTelegram, ConversionError):
        return
    form = json.loads(json.dumps(v.as_dict()))
    q = T.to_knx(form)
    assert T.from_knx(q) == v, (T.__name__, octets, form)
