"""
Executable contract of the application layer codec as the cEMI layer sees it.

`AnyAPCI(enc)` stands for an arbitrary service object whose encoding is `enc`.  What the real
codec is proved to satisfy (C04, C05, C06) and what this contract therefore offers its callers:
  * APCI.from_knx(raw) raises only ConversionError / UnsupportedAPCIService (C04) or returns an object
  * for an object o accepted by its encoder: len(o.to_knx()) == o.calculated_length() + 1, the six
    TPCI bits of octet 0 are clear, and APCI.from_knx(o.to_knx()) == o (C06)
Nothing else is promised: for octets that are not the encoding of a known object the contract picks
any outcome (both exceptions, or some unknown object).
"""

from dataclasses import dataclass

from pyvc.api import ghost, nondet
from xknx.exceptions import ConversionError, UnsupportedAPCIService
from xknx.telegram.apci import APCI


@dataclass
class AnyAPCI(APCI):
    enc: bytes = b"\x00\x00"

    def calculated_length(self) -> int:
        return len(self.enc) - 1

    def to_knx(self) -> bytearray:
        ghost("apci_encoded").append(self)
        return bytearray(self.enc)

    @classmethod
    def from_knx(cls, raw):
        return apci_from_knx_contract(cls, raw)


def apci_from_knx_contract(cls, raw):
    """Executable contract of APCI.from_knx (installed instead of the real dispatcher)."""
    for o in ghost("apci_encoded"):
        if bytes(raw) == bytes(o.enc):
            return o
    k = nondet(3)
    if k == 0:
        raise UnsupportedAPCIService("unsupported (contract)")
    if k == 1:
        raise ConversionError("malformed (contract)")
    return AnyAPCI(enc=bytes(raw))


APCI_STUBS = [(APCI, "from_knx", classmethod(apci_from_knx_contract))]


# ----------------------------------------------------------------------------- L_Data body as CEMIFrame sees it

from xknx.cemi.cemi_frame import CEMILData  # noqa: E402
from xknx.exceptions import CouldNotParseCEMI, UnsupportedCEMIMessage  # noqa: E402


class AnyLData(CEMILData):
    """Executable contract of CEMILData for the frame level: some link-layer body whose encoding is
    `enc` (C12: from_knx raises only the two declared errors; C13 parse_then_build: to_knx gives
    back the received octets up to the frame type / reserved control bit; calculated_length is the
    encoded length)."""

    def __init__(self, enc):
        self.enc = enc

    def calculated_length(self):
        return len(self.enc)

    def to_knx(self):
        return bytes(self.enc)

    def __repr__(self):
        return f"AnyLData({self.enc!r})"


def ldata_from_knx_contract(cls, raw):
    k = nondet(3)
    if k == 0:
        raise CouldNotParseCEMI("malformed (contract)")
    if k == 1:
        raise UnsupportedCEMIMessage("unsupported (contract)")
    return AnyLData(bytes(raw))


LDATA_STUBS = [(CEMILData, "from_knx", classmethod(ldata_from_knx_contract))]
