"""C38 - Eager group-address decoding never changes what devices see."""

import importlib
import pkgutil

import xknx
from contracts.world import Holder, World
from pyvc.api import Bool, Choice, Const, Int, Obj, assume, ghost, lemma
from xknx.core.group_address_dpt import GroupAddressDPT
from xknx.dpt import DPTArray, DPTBinary
from xknx.exceptions import ConversionError, CouldNotParseTelegram
from xknx.remote_value.remote_value import RemoteValue
from xknx.telegram import GroupAddress, Telegram, TelegramDecodedData
from xknx.telegram.address import InternalGroupAddress
from xknx.telegram.apci import GroupValueRead, GroupValueResponse, GroupValueWrite


class StubDPT:
    """Contract of a datapoint type's from_knx: a pure function of the payload - it either raises a
    conversion error or returns a value, the same one every time (the lemma chooses both freely;
    what the real transcoders compute is C07/C08)."""

    unit = None

    @classmethod
    def from_knx(cls, payload):
        ghost("decode_calls").append(cls)
        fails, value = ghost("dpt")[-1]
        if fails == 1:
            raise ConversionError("cannot decode")
        if fails == 2:
            raise CouldNotParseTelegram("wrong payload type")
        return value

    @classmethod
    def dpt_name(cls):
        return "stub"


class OtherDPT(StubDPT):
    """A different transcoder (configured for the address but not the remote value's own type)."""

    @classmethod
    def from_knx(cls, payload):
        ghost("decode_calls").append(cls)
        fails, value = ghost("other")[-1]
        if fails == 1:
            raise ConversionError("cannot decode")
        if fails == 2:
            raise CouldNotParseTelegram("wrong payload type")
        return value


class RV(RemoteValue):
    """A remote value with the inherited (real) process / from_knx and a datapoint type."""

    dpt_class = StubDPT


class RecStateUpdater:
    def update_received(self, rv):
        ghost("state_updater").append(rv)


class RecCb:
    def __call__(self, value):
        ghost("callbacks").append(value)


GA = Obj(GroupAddress, raw=Int(0, 0xFFFF))
VALUE = Choice(Obj(DPTArray, value=Const((1, 2))), Obj(DPTBinary, value=Int(0, 63)))
PAYLOAD = Choice(Obj(GroupValueWrite, value=VALUE), Obj(GroupValueResponse, value=VALUE))
TELEGRAM = Obj(Telegram, destination_address=GA, direction=None, payload=PAYLOAD, source_address=None, tpci=None, decoded_data=None, data_secure=None)
DECODED = Int(-1000, 1000)
RVS = Obj(
    RV,
    xknx=Obj(World, state_updater=Const(RecStateUpdater())),
    passive_group_addresses=Const([]),
    group_address=GA,
    group_address_state=Choice(None, GA),
    device_name="dev",
    feature_name="feat",
    _value=Choice(None, DECODED),
    _payload=None,
    telegram=None,
    after_update_cb=Choice(None, Const(RecCb())),
    _sync_state=None,
)


class OneEntryDict:
    """dict {raw: transcoder} with one entry (dict semantics: lookup by ==)."""

    def __init__(self, raw, transcoder):
        self.raw, self.transcoder = raw, transcoder

    def get(self, key, default=None):
        return self.transcoder if key == self.raw else default


def _table(configured, address):
    t = GroupAddressDPT()
    if configured == "own":
        t._ga_dpts = OneEntryDict(address.raw, StubDPT)
    elif configured == "other":
        t._ga_dpts = OneEntryDict(address.raw, OtherDPT)
    elif configured == "elsewhere":
        t._ga_dpts = OneEntryDict((address.raw + 1) % 0x10000, StubDPT)
    return t


CASES = [dict(configured=c) for c in ("none", "own", "other", "elsewhere")]


@lemma("C38", family=CASES, params=dict(t=TELEGRAM, fails=Choice(0, 1, 2), value=DECODED, ofails=Choice(0, 1, 2), ovalue=DECODED, pre=Bool()))
def eager_decoding_sets_exactly_the_decoded_value(t, configured, fails, value, ofails, ovalue, pre):
    """set_decoded_data(t), group telegram with a value payload: with a transcoder configured for the
    destination and a decodable payload the telegram carries (that transcoder, its decoded value);
    without configuration, on a decoding error, or when the telegram already carries decoded data nothing
    is attached / changed; the payload itself is never touched and nothing is raised."""
    ghost("dpt").append((fails, value))
    ghost("other").append((ofails, ovalue))
    table = _table(configured, t.destination_address)
    before = TelegramDecodedData(OtherDPT, 7) if pre else None
    t.decoded_data = before
    payload, pv = t.payload, t.payload.value
    table.set_decoded_data(t)
    assert t.payload is payload and t.payload.value is pv
    if pre:
        assert t.decoded_data is before and ghost("decode_calls") == []
    elif configured in ("none", "elsewhere"):
        assert t.decoded_data is None
    elif configured == "own":
        if fails:
            assert t.decoded_data is None and t.destination_address in table.ga_decoding_error
        else:
            assert t.decoded_data.transcoder is StubDPT and t.decoded_data.value == value
    else:
        if ofails:
            assert t.decoded_data is None
        else:
            assert t.decoded_data.transcoder is OtherDPT and t.decoded_data.value == ovalue


@lemma("C38", params=dict(t=Obj(Telegram, destination_address=GA, direction=None, payload=Choice(Obj(GroupValueRead), None), source_address=None, tpci=None, decoded_data=None, data_secure=None)))
def telegrams_without_value_are_left_alone(t):
    table = _table("own", t.destination_address)
    table.set_decoded_data(t)
    assert t.decoded_data is None and ghost("decode_calls") == []


@lemma("C38", family=CASES, max_paths=20000, params=dict(rv=RVS, t=TELEGRAM, fails=Choice(0, 1, 2), value=DECODED, ofails=Choice(0, 1, 2), ovalue=DECODED, always=Bool()))
def remote_value_state_is_independent_of_eager_decoding(rv, t, configured, fails, value, ofails, ovalue, always):
    """Two runs of the real RemoteValue.process on the same remote value state and the same telegram: once
    as received, once after GroupAddressDPT.set_decoded_data with no / the same / a disagreeing
    datapoint type configured for the address. Return value, stored value and payload, callback
    arguments and state-updater notifications are identical - whatever the transcoders return or raise
    (each transcoder is a pure function of the payload)."""
    if configured != "other":
        assume(ofails == 0 and ovalue == 0)  # (the other transcoder is not involved)
    ghost("dpt").append((fails, value))
    ghost("other").append((ofails, ovalue))
    init = (rv._value, rv._payload, rv.telegram)
    # run 1: no eager decoding
    r1 = rv.process(t, always_callback=always)
    out1 = (r1, rv._value, rv._payload, rv.telegram is t, list(ghost("callbacks")), len(ghost("state_updater")))
    # run 2: same initial state, telegram passed through the eager decoder first
    rv._value, rv._payload, rv.telegram = init
    n_cb, n_su = len(ghost("callbacks")), len(ghost("state_updater"))
    table = _table(configured, t.destination_address)
    table.set_decoded_data(t)
    r2 = rv.process(t, always_callback=always)
    out2 = (r2, rv._value, rv._payload, rv.telegram is t, list(ghost("callbacks"))[n_cb:], len(ghost("state_updater")) - n_su)
    assert out1[0] == out2[0]
    assert (out1[1] is None and out2[1] is None) or out1[1] == out2[1]
    assert out1[2] is out2[2]
    assert out1[3] == out2[3]
    assert out1[4] == out2[4]
    assert out1[5] == out2[5]


def _remote_value_classes():
    for m in pkgutil.walk_packages(xknx.__path__, "xknx."):
        try:
            importlib.import_module(m.name)
        except Exception:  # noqa: BLE001
            pass
    seen = []

    def walk(c):
        for s in c.__subclasses__():
            if s not in seen and s.__module__.startswith("xknx."):
                seen.append(s)
                walk(s)

    walk(RemoteValue)
    return sorted(seen, key=lambda c: c.__qualname__)


@lemma("C38", family=lambda: [dict(C=c) for c in _remote_value_classes()])
def own_decoder_is_the_datapoint_types_decoder(C):
    """Premise of the lemma above for every RemoteValue class of the library: a class that names a
    datapoint type (as class attribute or per-instance slot) decodes with exactly that type's from_knx
    (the inherited RemoteValue.from_knx) and uses the inherited process(); classes with their own
    from_knx (inversion, scaling, step codes ...) name no datapoint type, so eagerly decoded data can
    never be taken for their value."""
    names_dpt = getattr(C, "dpt_class", None) is not None or "dpt_class" in getattr(C, "__slots__", ())
    if names_dpt:
        assert C.from_knx is RemoteValue.from_knx
    assert C.process is RemoteValue.process


@lemma("C38")
def only_remote_value_process_reads_decoded_data():
    """Frame condition for the two-run lemma: in the current tree, decoded data is read only by the eager
    decoder itself (its 'already decoded' test), RemoteValue.process and Telegram.__str__ - no device or
    other component can see it."""
    from pyvc.framecheck import readers_of_attribute

    assert readers_of_attribute("decoded_data") == ["core/group_address_dpt.py", "remote_value/remote_value.py", "telegram/telegram.py"]


ASSUMPTIONS = [
    "datapoint transcoders are pure functions of the payload (C07/C08)",
]


# ------------------------------------------------------------------ bounded stand-in: a decoded value shared by several devices
# With a table entry one decoded object is handed to every remote value on the address; without it each decodes
# its own. A consumer that updates a remembered value in place then changes what *other* devices report. The
# frame condition "nobody mutates a decoded value" is not syntactic; it is decided here for the devices that
# merge partially valid structured values (xyY and RGBW lights), natively.

import itertools  # noqa: E402

from pyvc.api import standin  # noqa: E402


def _shared_value_cases(tier):
    xyy = [((0.3, 0.4), 100), (None, 200), ((0.1, 0.2), None), ((0.5, 0.5), 0), (None, 1)]
    n = 3 if tier == "quick" else 4
    for length in range(1, n + 1):
        for steps in itertools.product(itertools.product(range(len(xyy)), (0, 1)), repeat=length):
            yield ("xyy", steps)
    rgbw = [(10, 20, 30, 40), (None, None, None, 200), (0, 0, 0, 0), (255, None, 0, None)]
    for length in range(1, n + 1):
        for steps in itertools.product(itertools.product(range(len(rgbw)), (0, 1)), repeat=length):
            yield ("rgbw", steps)


@standin("C38", cases=_shared_value_cases, kind="enum-native", exhaustive=True, bound="two lights sharing one colour address (the second also listening on a state address of its own), xyY (5 full / partial values) and RGBW (4 values): every history of up to 3 (quick) / 4 (thorough) writes to the shared or the own address, replayed with and without a table entry for both addresses: every light reports the same colour in both runs after every step")
def devices_sharing_an_address_see_the_same_with_and_without_the_table(kind, steps):
    import asyncio

    from xknx import XKNX
    from xknx.devices import Light
    from xknx.dpt import DPTColorRGBW, DPTColorXYY
    from xknx.dpt.dpt_242 import XYYColor
    from xknx.dpt.dpt_251 import RGBWColor
    from xknx.telegram import TelegramDirection

    xyy = [((0.3, 0.4), 100), (None, 200), ((0.1, 0.2), None), ((0.5, 0.5), 0), (None, 1)]
    rgbw = [(10, 20, 30, 40), (None, None, None, 200), (0, 0, 0, 0), (255, None, 0, None)]

    async def replay(with_table):
        xknx = XKNX()
        if kind == "xyy":
            a = Light(xknx, "a", group_address_switch="1/0/1", group_address_xyy_color="1/1/1", group_address_xyy_color_state="1/1/2")
            b = Light(xknx, "b", group_address_switch="1/0/2", group_address_xyy_color="1/1/1")
            dpt, value_of = DPTColorXYY, (lambda i: XYYColor(*xyy[i]))
            state = lambda d: (d.current_xyy_color, d.xyy_color.value)  # noqa: E731
        else:
            a = Light(xknx, "a", group_address_switch="1/0/1", group_address_rgbw="1/1/1", group_address_rgbw_state="1/1/2")
            b = Light(xknx, "b", group_address_switch="1/0/2", group_address_rgbw="1/1/1")
            dpt, value_of = DPTColorRGBW, (lambda i: RGBWColor(*rgbw[i]))
            state = lambda d: (d.current_color, d.rgbw.value)  # noqa: E731
        for d in (a, b):
            xknx.devices.async_add(d)
        if with_table:
            number = "242.600" if kind == "xyy" else "251.600"
            xknx.group_address_dpt.set({"1/1/1": number, "1/1/2": number})
        seen = []
        for i, own in steps:
            t = Telegram(destination_address=GroupAddress("1/1/2" if own else "1/1/1"), direction=TelegramDirection.INCOMING, payload=GroupValueWrite(dpt.to_knx(value_of(i))))
            xknx.group_address_dpt.set_decoded_data(t)
            assert (t.decoded_data is not None) == with_table, "the table entry was not used"
            xknx.devices.process(t)
            seen.append((repr(state(a)), repr(state(b))))
        return seen

    async def go():
        plain = await replay(False)
        eager = await replay(True)
        assert plain == eager, (kind, steps, plain, eager)

    asyncio.run(go())


# ------------------------------------------------------------------ the decoder outcomes the lemmas above range over
# eager_decoding_sets_exactly_the_decoded_value lets the configured transcoder return a value or raise one of its
# two declared errors (fails = 0, 1, 2). That every real transcoder has no third outcome - an undeclared
# exception would leave set_decoded_data and end the telegram consumer, so that devices see nothing at all with
# the table and everything without it - is proved per datapoint type in C07; an obligation here too.

from contracts import c07_dpt_decode as _c07  # noqa: E402
from pyvc.api import rely_on  # noqa: E402

rely_on("C38", _c07.dpt_from_knx_declared_errors)
