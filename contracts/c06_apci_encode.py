"""C06 - Encoding an application PDU never silently changes a field."""

from contracts.apci_common import ALL_10BIT, constructor_kwargs_spec, service_classes  # noqa: F401 (ALL_10BIT: known-finding region)
from pyvc.api import lemma
from xknx.telegram.apci import APCI


def _family():
    return [dict(S=c) for c in service_classes()]


def _params():
    return {}


@lemma("C06", family=_family, dynamic_params=lambda fixed: dict(kw=constructor_kwargs_spec(fixed["S"])))
def encode_refuses_or_roundtrips(S, kw):
    """Every constructible service object (ints unconstrained, bytes of any length) is refused by the
    encoder or encodes to a PDU that decodes back to an equal object."""
    try:
        o = S(**kw)
    except Exception:
        return  # not a service object
    try:
        w = o.to_knx()
    except Exception:
        return  # refused
    back = APCI.from_knx(bytes(w))
    assert back == o
