"""C21 - KNX/IP bodies round-trip exactly."""

from contracts.knxip_common import body_classes
from pyvc.api import Bytes, forall_range, lemma
from xknx.exceptions import ConversionError, CouldNotParseKNXIP
from xknx.knxip import KNXIPFrame
from xknx.knxip.description_response import DescriptionResponse
from xknx.knxip.search_request_extended import SearchRequestExtended
from xknx.knxip.search_response import SearchResponse
from xknx.knxip.search_response_extended import SearchResponseExtended

# octet positions of a body the specification reserves (the parser ignores them, the encoder emits 0)
RESERVED = {
    "ConnectRequest": (19,),  # CRI: reserved octet after the KNX layer
    "ConnectionStateRequest": (1,),
    "DisconnectRequest": (1,),
    "DeviceConfigurationRequest": (3,),
    "TunnellingRequest": (3,),
    "SessionAuthenticate": (0,),
    "SessionStatus": (1,),
    "TunnellingFeatureGet": (5,),
    "TunnellingFeatureInfo": (5,),
    "TunnellingFeatureResponse": (5,),
    "TunnellingFeatureSet": (5,),
}


def _same_octet(B, out, raw, i):
    return i in RESERVED.get(B.__name__, ()) or out[i] == raw[i]

LIST_BODIES = (DescriptionResponse, SearchResponse, SearchResponseExtended, SearchRequestExtended)


def _cases():
    out = []
    for c in body_classes():
        if c in LIST_BODIES:
            continue  # bodies carrying DIB / SRP lists: generated instances, see the stand-in below
        out.append(dict(B=c, max_len=600))
    return out


@lemma("C21", params=dict(), family=_cases, dynamic_params=lambda fixed: dict(raw=Bytes(max_len=fixed["max_len"])), max_paths=60000)
def wire_value_roundtrip(B, max_len, raw):
    """Every body with field values that can appear on the wire - i.e. every body the parser produces
    from some octets - serializes to exactly calculated_length() octets inside a frame whose header
    length is correct; parsing that frame yields an equal body and leaves nothing over."""
    body = B()
    try:
        body.from_knx(raw)
    except (CouldNotParseKNXIP, ConversionError, IndexError, ValueError):
        return
    try:
        out = body.to_knx()
    except ConversionError:
        return  # refused by the encoder: outside "can be serialized"
    assert len(out) == body.calculated_length()
    # the parser must not lose information: whatever it accepted is reproduced by the encoder
    # (up to reserved octets and octets after the structure, which the parser ignores by design)
    common = len(out) if len(out) <= len(raw) else len(raw)
    assert forall_range(common, lambda i: _same_octet(B, out, raw, i))
    frame = KNXIPFrame.init_from_body(body)
    wire = frame.to_knx()
    assert frame.header.total_length == len(wire) == 6 + body.calculated_length()
    back, rest = KNXIPFrame.from_knx(wire)
    assert len(rest) == 0
    assert type(back.body) is B
    assert back.body == body
    assert back.header.service_type_ident == B.SERVICE_TYPE and back.header.total_length == len(wire)


# ----------------------------------------------------------------------------- list-bearing bodies (stand-in)

import os  # noqa: E402
import random  # noqa: E402

from pyvc.api import standin  # noqa: E402
from xknx.knxip import HPAI, HostProtocol  # noqa: E402
from xknx.knxip.dib import (  # noqa: E402
    DIBDeviceInformation,
    DIBGeneric,
    DIBSecuredServiceFamilies,
    DIBServiceFamily,
    DIBSuppSVCFamilies,
    DIBTunnelingInfo,
    DIBTypeCode,
    TunnelingSlotStatus,
)
from xknx.knxip.knxip_enum import KNXMedium  # noqa: E402
from xknx.knxip.srp import SRP  # noqa: E402
from xknx.telegram.address import IndividualAddress  # noqa: E402


def _hpai(rnd):
    return HPAI(ip_addr=".".join(str(rnd.randrange(256)) for _ in range(4)), port=rnd.randrange(65536), protocol=rnd.choice(list(HostProtocol)))


def _dib(rnd):
    k = rnd.randrange(5)
    if k == 0:
        d = DIBDeviceInformation()
        d.knx_medium = rnd.choice(list(KNXMedium))
        d.programming_mode = rnd.random() < 0.5
        d.individual_address = IndividualAddress(rnd.randrange(65536))
        d.installation_number = rnd.randrange(16)
        d.project_number = rnd.randrange(4096)
        d.serial_number = ":".join(f"{rnd.randrange(256):02x}" for _ in range(6))
        d.multicast_address = ".".join(str(rnd.randrange(256)) for _ in range(4))
        d.mac_address = ":".join(f"{rnd.randrange(256):02x}" for _ in range(6))
        d.name = "".join(rnd.choice("abcXYZ 0123äöüß-_") for _ in range(rnd.randrange(0, 31)))
        return d
    if k in (1, 2):
        d = DIBSuppSVCFamilies() if k == 1 else DIBSecuredServiceFamilies()
        for _ in range(rnd.randrange(0, 6)):
            d.families.append(DIBSuppSVCFamilies.Family(rnd.choice(list(DIBServiceFamily)), rnd.randrange(256)))
        return d
    if k == 3:
        slots = {}
        for _ in range(rnd.randrange(0, 5)):
            slots[IndividualAddress(rnd.randrange(65536))] = TunnelingSlotStatus(rnd.random() < 0.5, rnd.random() < 0.5, rnd.random() < 0.5)
        d = DIBTunnelingInfo(slots)
        d.max_apdu_length = rnd.randrange(65536)
        return d
    d = DIBGeneric()
    d.dtc = rnd.choice([DIBTypeCode.IP_CONFIG, DIBTypeCode.IP_CUR_CONFIG, DIBTypeCode.KNX_ADDRESSES, DIBTypeCode.MFR_DATA])
    d.data = bytes(rnd.randrange(256) for _ in range(2 * rnd.randrange(0, 8)))  # even: the structure is padded otherwise
    return d


def _srp(rnd):
    k = rnd.randrange(6)
    if k >= 4:
        # any type with either value of the mandatory flag, drawn independently (the factories below always set it)
        from xknx.knxip.knxip_enum import SearchRequestParameterType as _T

        t = rnd.choice(list(_T))
        data = {_T.SELECT_BY_SERVICE: bytes([rnd.choice(list(DIBServiceFamily)).value, rnd.randrange(256)]), _T.SELECT_BY_MAC_ADDRESS: bytes(rnd.randrange(256) for _ in range(6)), _T.REQUEST_DIBS: bytes(rnd.choice(list(DIBTypeCode)).value for _ in range(2 * rnd.randrange(1, 4)))}.get(t, b"")
        return SRP(t, mandatory=rnd.random() < 0.5, data=data)
    if k == 0:
        return SRP.with_programming_mode()
    if k == 1:
        return SRP.with_mac_address(bytes(rnd.randrange(256) for _ in range(6)))
    if k == 2:
        return SRP.with_service(rnd.choice(list(DIBServiceFamily)), rnd.randrange(256))
    return SRP.request_device_description([rnd.choice(list(DIBTypeCode)) for _ in range(2 * rnd.randrange(1, 4))])


def _list_body_cases(tier, B):
    rnd = random.Random(int(os.environ.get("VERIF_SEED", "0") or 0) + hash(B.__name__) % 1000)
    for _ in range(3000 if tier == "quick" else 100000):
        if B is SearchRequestExtended:
            b = B(discovery_endpoint=_hpai(rnd))
            b.srps = [_srp(rnd) for _ in range(rnd.randrange(0, 5))]
        elif B is DescriptionResponse:
            b = B()
            b.dibs = [_dib(rnd) for _ in range(rnd.randrange(0, 5))]
        else:
            b = B(control_endpoint=_hpai(rnd))
            b.dibs = [_dib(rnd) for _ in range(rnd.randrange(0, 5))]
        yield (b,)


@standin("C21", cases=_list_body_cases, family=[dict(B=c) for c in LIST_BODIES], kind="enum-native", exhaustive=False, bound="bodies with DIB / SRP lists: 3000 (quick) / 100000 (thorough) seeded random instances each, 0..4 list elements drawn from all DIB classes / SRP kinds with random field values from their enums and ranges")
def list_body_roundtrip(body):
    B = type(body)
    out = body.to_knx()
    assert len(out) == body.calculated_length()
    frame = KNXIPFrame.init_from_body(body)
    wire = frame.to_knx()
    assert frame.header.total_length == len(wire) == 6 + body.calculated_length()
    back, rest = KNXIPFrame.from_knx(wire)
    assert len(rest) == 0 and type(back.body) is B
    assert back.body == body, (body, back.body)


# ------------------------------------------------------------------ the other direction: built bodies parse back

import enum as _enum  # noqa: E402
import inspect as _inspect  # noqa: E402

from xknx.knxip import ConnectRequestInformation, ConnectResponseData  # noqa: E402
from xknx.knxip.knxip_enum import ConnectRequestType, TunnellingLayer  # noqa: E402

_INT_RANGES = {"secure_session_id": 0xFFFF, "timer_value": (1 << 48) - 1, "wait_time": 0xFFFF, "lost_messages": 0xFFFF}


def _field(rnd, B, name, par, hints):
    ann, default = hints.get(name), par.default
    if isinstance(default, _enum.Enum):
        return rnd.choice(list(type(default)))
    if name in ("control_endpoint", "data_endpoint", "discovery_endpoint"):
        return _hpai(rnd) if rnd.random() < 0.8 else None
    if name == "cri":
        ct = rnd.choice(list(ConnectRequestType))
        if ct is not ConnectRequestType.TUNNEL_CONNECTION:
            return ConnectRequestInformation(connection_type=ct)  # (layer / address exist for tunnel connections only)
        ia = IndividualAddress(rnd.randrange(65536)) if rnd.random() < 0.5 else None
        return ConnectRequestInformation(connection_type=ct, knx_layer=rnd.choice(list(TunnellingLayer)), individual_address=ia)
    if name == "crd":
        ct = rnd.choice(list(ConnectRequestType))
        if ct is not ConnectRequestType.TUNNEL_CONNECTION:
            return ConnectResponseData(request_type=ct)
        return ConnectResponseData(request_type=ct, individual_address=IndividualAddress(rnd.randrange(65536)))
    if isinstance(default, bytes):
        if len(default):
            return bytes(rnd.randrange(256) for _ in range(len(default)))  # fixed-size field
        if name == "encrypted_data":
            n = rnd.choice((6, 7, 8, 20, 40))  # a wrapped frame has at least its own 6 octet header
        elif name == "raw_cemi":
            n = rnd.choice((1, 2, 11, 30))
        else:
            n = rnd.choice((0, 0, 2, 2, 4, 12, 30))  # feature values: even lengths (odd ones: known finding)
        return bytes(rnd.randrange(256) for _ in range(n))
    if isinstance(default, int):
        hi = _INT_RANGES.get(name, 255)
        return rnd.choice((0, 1, hi, rnd.randrange(hi + 1)))
    raise AssertionError(f"no generator for {B.__name__}.{name}")


def _fixed_body_cases(tier, B):
    rnd = random.Random(int(os.environ.get("VERIF_SEED", "0") or 0) + 7 * (hash(B.__name__) % 1000))
    sig = _inspect.signature(B.__init__)
    pars = [(n, p) for n, p in sig.parameters.items() if n != "self"]
    for _ in range(400 if tier == "quick" else 20000):
        kw = {n: _field(rnd, B, n, p, {}) for n, p in pars}
        yield (B, kw)


_FIXED = [c for c in body_classes() if c not in LIST_BODIES]


@standin("C21", cases=_fixed_body_cases, family=[dict(B=c) for c in _FIXED], kind="enum-native", exhaustive=False, bound="the 25 fixed-layout bodies built through their constructors: 400 (quick) / 20000 (thorough) seeded random instances each, every enum member, integers at the ends of their wire range, HPAIs / CRI / CRD variants, empty and non-empty variable octet fields; built -> frame -> octets -> parsed must give an equal body with nothing left over (a body the encoder refuses with ConversionError is not 'allowed on the wire')")
def constructed_body_roundtrip(B, kw):
    body = B(**kw)
    name = B.__name__
    # known findings (known_findings.json) are excluded by their exact region
    if name in ("TunnellingFeatureInfo", "TunnellingFeatureResponse", "TunnellingFeatureSet") and len(kw["data"]) % 2 == 1:
        return
    if name == "ConnectResponse" and kw["status_code"].value != 0:
        return
    # a feature value is mandatory except in a response that reports an error (KNX 03_08_04 Tunnelling 4.4.x)
    if name in ("TunnellingFeatureInfo", "TunnellingFeatureSet") and len(kw["data"]) == 0:
        return
    if name == "TunnellingFeatureResponse" and len(kw["data"]) == 0 and kw["return_code"].value == 0:
        return
    try:
        out = body.to_knx()
    except ConversionError:
        return
    assert len(out) == body.calculated_length(), (name, kw)
    frame = KNXIPFrame.init_from_body(body)
    wire = frame.to_knx()
    assert frame.header.total_length == len(wire) == 6 + len(out), (name, kw)
    back, rest = KNXIPFrame.from_knx(wire)
    assert len(rest) == 0 and type(back.body) is B, (name, kw)
    assert back.body == body, (name, kw, back.body)
