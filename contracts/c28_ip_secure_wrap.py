"""C28 - IP Secure wrapping is correct and tamper-evident (in the symbolic model of the AES primitives)."""

import xknx.io.ip_secure as ips
from contracts.crypto_model import decrypt_ctr, encrypt_ctr, mac_cbc
from pyvc.api import Bool, Bytes, Choice, Const, EnumOf, Int, Obj, assume, ghost, lemma
from xknx.exceptions import CouldNotParseKNXIP, KNXSecureValidationError
from xknx.io.const import XKNX_SERIAL_NUMBER
from xknx.io.ip_secure import SecureSession
from xknx.knxip import KNXIPFrame, KNXIPHeader, KNXIPServiceType, SecureWrapper

MAX48 = (1 << 48) - 1
B16 = Bytes(length=16)
ALLOWED = [s for s in KNXIPServiceType if s not in (KNXIPServiceType.SECURE_WRAPPER, KNXIPServiceType.REMOTE_DIAG_REQUEST, KNXIPServiceType.REMOTE_DIAG_RESPONSE, KNXIPServiceType.REMOTE_CONFIG_REQUEST, KNXIPServiceType.REMOTE_RESET_REQUEST)]


def _to_knx(self):
    """KNXIPFrame.to_knx / from_knx as an inverse pair on the frame being wrapped (C21): the plain frame
    serializes to some octets P and only P parses back to it."""
    if self is ghost("plain_frame")[-1]:
        return ghost("plain_octets")[-1]
    raise AssertionError("to_knx of an unexpected frame")


def _from_knx(data):
    if data == ghost("plain_octets")[-1]:
        return ghost("plain_frame")[-1], b""
    raise CouldNotParseKNXIP("not the wrapped frame")


STUBS = [
    (ips, "calculate_message_authentication_code_cbc", mac_cbc),
    (ips, "encrypt_data_ctr", encrypt_ctr),
    (ips, "decrypt_ctr", decrypt_ctr),
    (KNXIPFrame, "to_knx", _to_knx),
    (KNXIPFrame, "from_knx", staticmethod(_from_knx)),
]


def session(key, session_id, seq=0):
    return Obj(SecureSession, session_id=session_id, _key=key, _sequence_number=seq, _sequence_number_received=-1, initialized=True)


PLAIN = Obj(KNXIPFrame, header=Obj(KNXIPHeader, service_type_ident=Choice(*[Const(s) for s in ALLOWED[:6]]), total_length=Int(6, 200)), body=None)
FIELDS = ["total_length", "session_id", "sequence", "serial", "tag", "ciphertext", "mac", "key", "receiver_session"]


def _wrap(tx, plain, octets):
    ghost("plain_frame").append(plain)
    ghost("plain_octets").append(octets)
    return tx.encrypt_frame(plain)


@lemma("C28", params=dict(tx=session(B16, Int(0, 0xFFFF), Int(0, MAX48)), rx=session(B16, Int(0, 0xFFFF)), plain=PLAIN, octets=Bytes(min_len=6, max_len=12)), stubs=STUBS)
def a_wrapped_frame_unwraps_to_the_same_frame(tx, rx, plain, octets):
    """encrypt_frame by one session end, decrypt_frame by the other holding the same session key and id,
    for every key, session id, 48 bit sequence number and plain frame: the wrapper has the specified layout
    (total length 38 + payload, own session id, sequence number, xknx serial, tunnelling tag 0000) and
    unwraps to the identical frame; both ends compute the MAC over identical inputs."""
    assume(rx._key == tx._key and rx.session_id == tx.session_id)
    n = tx._sequence_number
    w = _wrap(tx, plain, octets)
    b = w.body
    assert isinstance(b, SecureWrapper) and w.header.service_type_ident == KNXIPServiceType.SECURE_WRAPPER
    assert w.header.total_length == 38 + len(octets) and len(b.encrypted_data) == len(octets) and len(b.message_authentication_code) == 16
    assert b.secure_session_id == tx.session_id and b.serial_number == XKNX_SERIAL_NUMBER and b.message_tag == b"\x00\x00"
    assert int.from_bytes(b.sequence_information, "big") == n
    macs = len(ghost("H"))
    out = rx.decrypt_frame(w)
    assert out is plain
    assert len(ghost("H")) == macs == 1


@lemma("C28", family=[dict(field=f) for f in FIELDS], params=dict(tx=session(B16, Int(0, 0xFFFF), Int(0, MAX48)), rx=session(None, None), plain=PLAIN, octets=Bytes(min_len=6, max_len=12), key2=B16, sid2=Int(0, 0xFFFF), len2=Int(0, 0xFFFF), seq2=Bytes(length=6), serial2=Bytes(length=6), tag2=Bytes(length=2), data2=Bytes(min_len=0, max_len=12), mac2=B16), stubs=STUBS, max_paths=20000)
def any_change_to_a_wrapper_is_rejected(field, tx, rx, plain, octets, key2, sid2, len2, seq2, serial2, tag2, data2, mac2):
    """One part of a genuine wrapper is replaced by any other value - the header's total length, the
    session id, the sequence information, the serial number, the message tag, the ciphertext (also its
    length), the MAC - or the receiver holds another key or another session id: decrypt_frame raises
    KNXSecureValidationError (or the inner octets no longer parse); the original frame never comes out."""
    w = _wrap(tx, plain, octets)
    b = w.body
    hdr = KNXIPHeader()
    hdr.service_type_ident = w.header.service_type_ident
    hdr.total_length = w.header.total_length
    sid, seq, serial, tag, data, mac = b.secure_session_id, b.sequence_information, b.serial_number, b.message_tag, b.encrypted_data, b.message_authentication_code
    key, rx_sid = tx._key, tx.session_id
    if field == "total_length":
        assume(len2 != hdr.total_length)
        hdr.total_length = len2
    elif field == "session_id":
        assume(sid2 != sid)
        sid = sid2
    elif field == "sequence":
        assume(seq2 != seq)
        seq = seq2
    elif field == "serial":
        assume(serial2 != serial)
        serial = serial2
    elif field == "tag":
        assume(tag2 != tag)
        tag = tag2
    elif field == "ciphertext":
        assume(data2 != data)
        data = data2
    elif field == "mac":
        assume(mac2 != mac)
        mac = mac2
    elif field == "key":
        assume(key2 != key)
        key = key2
    else:
        assume(sid2 != rx_sid)
        rx_sid = sid2
    forged = KNXIPFrame(header=hdr, body=SecureWrapper(secure_session_id=sid, sequence_information=seq, serial_number=serial, message_tag=tag, encrypted_data=data, message_authentication_code=mac))
    rx._key, rx.session_id = key, rx_sid
    try:
        rx.decrypt_frame(forged)
    except (KNXSecureValidationError, CouldNotParseKNXIP):
        return
    assert False, "a modified wrapper was accepted"


ASSUMPTIONS = [
    "ideal-cipher model of AES-CBC-MAC / AES-CTR (contracts/crypto_model.py): no MAC collisions (also not on 32 transmitted bits), CTR decryption inverse to encryption under the same key and counter block and unrelated otherwise; 2^-32 / 2^-128 events treated as impossible",
    "KNXIPFrame.to_knx/from_knx are inverse on the wrapped frame (C21)",
]
