"""C28 - IP Secure wrapping is correct and tamper-evident (in the symbolic model of the AES primitives)."""

import xknx.io.ip_secure as ips
from contracts.crypto_model import decrypt_ctr, encrypt_ctr, mac_cbc
from pyvc.api import Bool, Bytes, Choice, Const, EnumOf, Int, Obj, assume, ghost, lemma
from xknx.exceptions import CouldNotParseKNXIP, KNXSecureValidationError
from xknx.io.const import XKNX_SERIAL_NUMBER
from xknx.io.ip_secure import SecureSession
from xknx.knxip import KNXIPFrame, KNXIPHeader, KNXIPServiceType, SecureWrapper

MAX48 = (1 << 48) - 1
B16 = Bytes(length=16)
ALLOWED = [s for s in KNXIPServiceType if s not in (KNXIPServiceType.SECURE_WRAPPER, KNXIPServiceType.REMOTE_DIAG_REQUEST, KNXIPServiceType.REMOTE_DIAG_RESPONSE, KNXIPServiceType.REMOTE_CONFIG_REQUEST, KNXIPServiceType.REMOTE_RESET_REQUEST)]


def _to_knx(self):
    """KNXIPFrame.to_knx / from_knx as an inverse pair on the frame being wrapped (C21): the plain frame
    serializes to some octets P and only P parses back to it."""
    if self is ghost("plain_frame")[-1]:
        return ghost("plain_octets")[-1]
    raise AssertionError("to_knx of an unexpected frame")


def _from_knx(data):
    if data == ghost("plain_octets")[-1]:
        return ghost("plain_frame")[-1], b""
    raise CouldNotParseKNXIP("not the wrapped frame")


STUBS = [
    (ips, "calculate_message_authentication_code_cbc", mac_cbc),
    (ips, "encrypt_data_ctr", encrypt_ctr),
    (ips, "decrypt_ctr", decrypt_ctr),
    (KNXIPFrame, "to_knx", _to_knx),
    (KNXIPFrame, "from_knx", staticmethod(_from_knx)),
]


def session(key, session_id, seq=0):
    return Obj(SecureSession, session_id=session_id, _key=key, _sequence_number=seq, _sequence_number_received=-1, initialized=True)


PLAIN = Obj(KNXIPFrame, header=Obj(KNXIPHeader, service_type_ident=Choice(*[Const(s) for s in ALLOWED[:6]]), total_length=Int(6, 200)), body=None)
FIELDS = ["total_length", "session_id", "sequence", "serial", "tag", "ciphertext", "mac", "key", "receiver_session"]


def _wrap(tx, plain, octets):
    ghost("plain_frame").append(plain)
    ghost("plain_octets").append(octets)
    return tx.encrypt_frame(plain)


@lemma("C28", params=dict(tx=session(B16, Int(0, 0xFFFF), Int(0, MAX48)), rx=session(B16, Int(0, 0xFFFF)), plain=PLAIN, octets=Bytes(min_len=6, max_len=12)), stubs=STUBS)
def a_wrapped_frame_unwraps_to_the_same_frame(tx, rx, plain, octets):
    """encrypt_frame by one session end, decrypt_frame by the other holding the same session key and id,
    for every key, session id, 48 bit sequence number and plain frame: the wrapper has the specified layout
    (total length 38 + payload, own session id, sequence number, xknx serial, tunnelling tag 0000) and
    unwraps to the identical frame; both ends compute the MAC over identical inputs."""
    assume(rx._key == tx._key and rx.session_id == tx.session_id)
    n = tx._sequence_number
    w = _wrap(tx, plain, octets)
    b = w.body
    assert isinstance(b, SecureWrapper) and w.header.service_type_ident == KNXIPServiceType.SECURE_WRAPPER
    assert w.header.total_length == 38 + len(octets) and len(b.encrypted_data) == len(octets) and len(b.message_authentication_code) == 16
    assert b.secure_session_id == tx.session_id and b.serial_number == XKNX_SERIAL_NUMBER and b.message_tag == b"\x00\x00"
    assert int.from_bytes(b.sequence_information, "big") == n
    macs = len(ghost("H"))
    out = rx.decrypt_frame(w)
    assert out is plain
    assert len(ghost("H")) == macs == 1


class FreshTagLayer(ips._IPSecureTransportLayer):
    """A secure transport layer whose message tag is a fresh value on every call, as SecureGroup's is
    (random.randbytes(2)); sequence information as supplied (SecureGroup: the timer value, C30)."""

    def __init__(self, key, session_id, seq):
        self._key, self.session_id, self.seq = key, session_id, seq

    def get_sequence_information(self):
        return self.seq

    def get_message_tag(self):
        return ghost("message_tags").pop(0)


@lemma("C28", params=dict(tx=Obj(FreshTagLayer, _key=B16, session_id=Int(0, 0xFFFF), seq=Bytes(length=6)), plain=PLAIN, octets=Bytes(min_len=6, max_len=12), t1=Bytes(length=2), t2=Bytes(length=2), t3=Bytes(length=2)), stubs=STUBS)
def the_tag_on_the_wire_is_the_tag_that_was_authenticated(tx, plain, octets, t1, t2, t3):
    """encrypt_frame on a layer that hands out a different tag per call (secure routing): the tag written
    into the wrapper is the one the MAC and the counter blocks were computed with - the receiver holding the
    same key and session id unwraps the identical frame."""
    assume(t1 != t2 and t2 != t3 and t1 != t3)
    for t in (t1, t2, t3):
        ghost("message_tags").append(t)
    w = _wrap(tx, plain, octets)
    assert w.body.message_tag == t1 and ghost("message_tags") == [t2, t3]  # asked once
    rx = FreshTagLayer(tx._key, tx.session_id, tx.seq)
    assert rx.decrypt_frame(w) is plain


@lemma("C28", family=[dict(field=f) for f in FIELDS], params=dict(tx=session(B16, Int(0, 0xFFFF), Int(0, MAX48)), rx=session(None, None), plain=PLAIN, octets=Bytes(min_len=6, max_len=12), key2=B16, sid2=Int(0, 0xFFFF), len2=Int(0, 0xFFFF), seq2=Bytes(length=6), serial2=Bytes(length=6), tag2=Bytes(length=2), data2=Bytes(min_len=0, max_len=12), mac2=B16), stubs=STUBS, max_paths=20000)
def any_change_to_a_wrapper_is_rejected(field, tx, rx, plain, octets, key2, sid2, len2, seq2, serial2, tag2, data2, mac2):
    """One part of a genuine wrapper is replaced by any other value - the header's total length, the
    session id, the sequence information, the serial number, the message tag, the ciphertext (also its
    length), the MAC - or the receiver holds another key or another session id: decrypt_frame raises
    KNXSecureValidationError (or the inner octets no longer parse); the original frame never comes out."""
    w = _wrap(tx, plain, octets)
    b = w.body
    hdr = KNXIPHeader()
    hdr.service_type_ident = w.header.service_type_ident
    hdr.total_length = w.header.total_length
    sid, seq, serial, tag, data, mac = b.secure_session_id, b.sequence_information, b.serial_number, b.message_tag, b.encrypted_data, b.message_authentication_code
    key, rx_sid = tx._key, tx.session_id
    if field == "total_length":
        assume(len2 != hdr.total_length)
        hdr.total_length = len2
    elif field == "session_id":
        assume(sid2 != sid)
        sid = sid2
    elif field == "sequence":
        assume(seq2 != seq)
        seq = seq2
    elif field == "serial":
        assume(serial2 != serial)
        serial = serial2
    elif field == "tag":
        assume(tag2 != tag)
        tag = tag2
    elif field == "ciphertext":
        assume(data2 != data)
        data = data2
    elif field == "mac":
        assume(mac2 != mac)
        mac = mac2
    elif field == "key":
        assume(key2 != key)
        key = key2
    else:
        assume(sid2 != rx_sid)
        rx_sid = sid2
    forged = KNXIPFrame(header=hdr, body=SecureWrapper(secure_session_id=sid, sequence_information=seq, serial_number=serial, message_tag=tag, encrypted_data=data, message_authentication_code=mac))
    rx._key, rx.session_id = key, rx_sid
    try:
        rx.decrypt_frame(forged)
    except (KNXSecureValidationError, CouldNotParseKNXIP):
        return
    assert False, "a modified wrapper was accepted"


ASSUMPTIONS = [
    "ideal-cipher model of AES-CBC-MAC / AES-CTR (contracts/crypto_model.py): no MAC collisions (also not on 32 transmitted bits), CTR decryption inverse to encryption under the same key and counter block and unrelated otherwise; 2^-32 / 2^-128 events treated as impossible",
    "KNXIPFrame.to_knx/from_knx are inverse on the wrapped frame (C21)",
]


# ------------------------------------------------------------------ bounded stand-in: bit-exact equality with an
# independent implementation of the specification (contracts/ipsecure_reference.py: own AES-128, CBC-MAC, CTR,
# X25519; PBKDF2 / SHA-256 from hashlib). The real code runs natively; nothing here is counted as proved.

import asyncio  # noqa: E402
import random as _random  # noqa: E402

from contracts import ipsecure_reference as ref  # noqa: E402
from pyvc.api import standin  # noqa: E402

# ISO 8859-1: the specification derives keys from the ISO 8859-1 octets of the password
_PW_ALPHABET = [chr(c) for c in range(0x20, 0x7F)] + [chr(c) for c in range(0xA0, 0x100)]


def _reference_cases(tier):
    n = 24 if tier == "quick" else 400
    for i in range(n):
        yield ("handshake", i)
    for i in range(60 if tier == "quick" else 3000):
        yield ("wrapper", i)
    for i in range(20 if tier == "quick" else 1000):
        yield ("timer_notify", i)


def _plain_frame(rng):
    from xknx.knxip import ConnectionStateRequest, RoutingIndication, SessionStatus, TunnellingAck, TunnellingRequest
    from xknx.knxip.knxip_enum import SecureSessionStatusCode

    k = rng.randrange(5)
    if k == 0:
        body = TunnellingRequest(communication_channel_id=rng.randrange(256), sequence_counter=rng.randrange(256), raw_cemi=rng.randbytes(rng.randrange(2, 70)))
    elif k == 1:
        body = RoutingIndication(raw_cemi=rng.randbytes(rng.randrange(2, 70)))
    elif k == 2:
        body = ConnectionStateRequest(communication_channel_id=rng.randrange(256))
    elif k == 3:
        body = TunnellingAck(communication_channel_id=rng.randrange(256), sequence_counter=rng.randrange(256))
    else:
        body = SessionStatus(status=rng.choice(list(SecureSessionStatusCode)))
    return KNXIPFrame.init_from_body(body)


@standin("C28", cases=_reference_cases, kind="enum-native", exhaustive=False, bound="seeded random inputs against contracts/ipsecure_reference.py (own AES-128/CBC-MAC/CTR/X25519, hashlib PBKDF2/SHA-256; primitives self-tested against FIPS-197, SP 800-38A and RFC 7748 vectors on every run): 24 (quick) / 400 (thorough) session handshakes with random key pairs, user ids, session ids and ISO 8859-1 passwords of 1-20 characters (octets of SessionAuthenticate MAC and session key equal, the reference's SessionResponse MAC accepted, every single-bit change of it refused in a sample); 60 / 3000 SecureWrapper frames of 5 body types, lengths 8-76, random key, session id, 48 bit sequence number (wire octets equal; the reference's wrapper unwraps to the frame); 20 / 1000 TimerNotify frames (wire octets equal; the reference's notify verifies, a flipped bit does not)")
def wire_octets_equal_an_independent_implementation(kind, i):
    """SecureSession.handshake / encrypt_frame / decrypt_frame and SecureSequenceTimer.send_timer_notify /
    verify_timer_notify_mac produce and accept exactly the octets of the independent implementation."""
    from cryptography.hazmat.primitives.asymmetric.x25519 import X25519PrivateKey
    from xknx.exceptions import IPSecureError
    from xknx.io.ip_secure import SecureSequenceTimer
    from xknx.knxip import SessionResponse, TimerNotify

    assert ref.self_test()
    rng = _random.Random(f"C28-{kind}-{i}")
    if kind == "handshake":
        user_id = rng.randrange(1, 128)
        pw = "".join(rng.choice(_PW_ALPHABET) for _ in range(rng.randrange(1, 21)))
        dev_pw = "".join(rng.choice(_PW_ALPHABET) for _ in range(rng.randrange(1, 21)))
        if i % 3 == 0:  # every third case certainly holds octets above 0x7f
            pw += rng.choice(_PW_ALPHABET[95:])
            dev_pw = rng.choice(_PW_ALPHABET[95:]) + dev_pw
        client_priv, server_priv = rng.randbytes(32), rng.randbytes(32)
        client_pub, server_pub = ref.x25519(client_priv, ref.X25519_BASE), ref.x25519(server_priv, ref.X25519_BASE)
        sid = rng.randrange(1, 0x10000)
        s = SecureSession(("127.0.0.1", 3671), user_id=user_id, user_password=pw, device_authentication_password=dev_pw)
        s._private_key = X25519PrivateKey.from_private_bytes(client_priv)
        s.public_key = client_pub
        assert s._user_password == ref.user_password_key(pw), ("user password key", pw)
        assert s._device_authentication_code == ref.device_authentication_key(dev_pw), ("device authentication key", dev_pw)
        server_mac = ref.session_response_mac(ref.device_authentication_key(dev_pw), sid, client_pub, server_pub)
        got = s.handshake(SessionResponse(secure_session_id=sid, ecdh_server_public_key=server_pub, message_authentication_code=server_mac))
        want = ref.session_authenticate_mac(ref.user_password_key(pw), user_id, client_pub, server_pub)
        assert got == want, ("SessionAuthenticate MAC", user_id, pw, got.hex(), want.hex())
        assert s._key == ref.session_key(server_priv, client_pub) == ref.session_key(client_priv, server_pub), "session key"
        assert s.session_id == sid
        for bit in rng.sample(range(128), 6):
            bad = bytearray(server_mac)
            bad[bit // 8] ^= 1 << (bit % 8)
            try:
                s.handshake(SessionResponse(secure_session_id=sid, ecdh_server_public_key=server_pub, message_authentication_code=bytes(bad)))
            except IPSecureError:
                continue
            raise AssertionError(("a SessionResponse with a changed MAC bit was accepted", bit))
    elif kind == "wrapper":
        key, sid, seq = rng.randbytes(16), rng.randrange(1, 0x10000), rng.choice((0, 1, 255, 256, rng.randrange(1 << 48), (1 << 48) - 1))
        s = SecureSession.__new__(SecureSession)
        s._key, s.session_id, s._sequence_number, s._sequence_number_received = key, sid, seq, -1
        plain = _plain_frame(rng)
        octets = plain.to_knx()
        wire = s.encrypt_frame(plain).to_knx()
        want = ref.secure_wrapper(key, sid, seq.to_bytes(6, "big"), XKNX_SERIAL_NUMBER, bytes(2), octets)
        assert wire == want, ("SecureWrapper", wire.hex(), want.hex())
        serial, tag, seq2 = rng.randbytes(6), rng.randbytes(2), rng.randrange(1 << 48)
        incoming, rest = KNXIPFrame.from_knx(ref.secure_wrapper(key, sid, seq2.to_bytes(6, "big"), serial, tag, octets))
        assert rest == b"" and s.decrypt_frame(incoming).to_knx() == octets
    else:
        key, serial, tag = rng.randbytes(16), rng.randbytes(6), rng.randbytes(2)

        async def go():
            sent = []
            t = SecureSequenceTimer(backbone_key=key, latency_ms=1000, transport_send=lambda frame, addr: sent.append(frame))
            t._clock_difference = rng.randrange(1 << 47)
            t.send_timer_notify(message_tag=tag, serial_number=serial)
            assert len(sent) == 1
            wire = sent[0].to_knx()
            want = ref.timer_notify(key, sent[0].body.timer_value, serial, tag)
            assert wire == want, ("TimerNotify", wire.hex(), want.hex())
            value = rng.randrange(1 << 48)
            good, _ = KNXIPFrame.from_knx(ref.timer_notify(key, value, serial, tag))
            t.verify_timer_notify_mac(good.body)
            bad = bytearray(ref.timer_notify(key, value, serial, tag))
            pos = rng.randrange(6, len(bad))
            bad[pos] ^= 1 << rng.randrange(8)
            forged, _ = KNXIPFrame.from_knx(bytes(bad))
            try:
                t.verify_timer_notify_mac(forged.body)
            except KNXSecureValidationError:
                return
            raise AssertionError(("a TimerNotify with a changed bit verified", pos))

        asyncio.run(go())
