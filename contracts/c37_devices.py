"""C37 - The device registry dispatches each telegram to exactly the right devices.

Bounded stand-in (labelled, not a proof): the registry's invariant quantifies over an unbounded list of
devices and an unbounded index of lists; PyVC has no sequence theory to carry that invariant, so the
real Devices class is driven natively through EVERY history of add / remove / re-add operations up to
a stated length over a small pool of devices sharing group addresses, and compared with a naive scan.
"""

import itertools

from pyvc.api import standin
from xknx.devices.device import Device
from xknx.devices.devices import Devices
from xknx.telegram import GroupAddress, Telegram
from xknx.telegram.address import IndividualAddress, InternalGroupAddress
from xknx.telegram.apci import GroupValueWrite
from xknx.dpt import DPTBinary


class _RV:
    def __init__(self, gas):
        self._gas = gas

    def group_addresses(self):
        return iter(self._gas)

    def register_state_updater(self):
        pass

    def unregister_state_updater(self):
        pass


class ProbeDevice(Device):
    """A device with a fixed set of group addresses that records the telegrams it processes."""

    def __init__(self, name, gas, log):
        super().__init__(None, name)
        self._rv = _RV(gas)
        self._log = log

    def _iter_remote_values(self):
        yield self._rv

    def process(self, telegram):
        self._log.append(self.key)


class _Started:
    def is_set(self):
        return False


GAS = [GroupAddress("1/1/1"), GroupAddress("1/1/2"), InternalGroupAddress("i-x")]
# device -> addresses it uses (shared addresses, one device on all, one on none)
POOL = {"a": [0], "b": [0, 1], "c": [1, 2], "d": [0, 1, 2], "e": []}
# two more devices that carry the *same name* as "a" / "b" (names are not identities)
NAMES = {"a": "a", "b": "b", "c": "c", "d": "d", "e": "e", "a2": "a", "b2": "b"}
POOL.update({"a2": [0, 2], "b2": [1]})


def _histories(tier):
    n = 4 if tier == "quick" else 5
    ops = [(k, d) for k in ("add", "remove") for d in POOL]
    for length in range(0, n + 1):
        for h in itertools.product(ops, repeat=length):
            yield (h,)


@standin("C37", cases=_histories, kind="enum-native", exhaustive=True, bound="every history of up to 4 (quick) / 5 (thorough) add/remove operations over 7 devices (two pairs with equal names) sharing 3 group addresses (4*10^4 / 5*10^5 histories), after every step: dispatch for each address compared with a naive scan")
def registry_matches_naive_scan(history):
    log = []
    devs = {n: ProbeDevice(NAMES[n], [GAS[i] for i in idx], log) for n, idx in POOL.items()}
    for n, d in devs.items():
        d.key = n
    registry = Devices(started=_Started())
    model = []  # registration order
    for op, name in history:
        d = devs[name]
        before = list(model)
        try:
            if op == "add":
                registry.async_add(d)
                assert name not in before, "adding a registered device must raise"
                model.append(name)
            else:
                registry.async_remove(d)
                assert name in before, "removing an unregistered device must raise"
                model.remove(name)
        except ValueError:
            assert (op == "add") == (name in before), (op, name, before)
        # the registry's observable state equals the model after every step (also after a refused one)
        assert [x.key for x in registry] == model and len(registry) == len(model)
        for i, ga in enumerate(GAS):
            del log[:]
            registry.process(Telegram(destination_address=ga, payload=GroupValueWrite(DPTBinary(1))))
            assert log == [n for n in model if i in POOL[n]], (history, ga, log, model)
        del log[:]
        registry.process(Telegram(destination_address=IndividualAddress("1.1.1"), payload=GroupValueWrite(DPTBinary(1))))
        assert log == []
