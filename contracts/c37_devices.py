"""C37 - The device registry dispatches each telegram to exactly the right devices.

Bounded stand-in (labelled, not a proof): the registry's invariant quantifies over an unbounded list of
devices and an unbounded index of lists; PyVC has no sequence theory to carry that invariant, so the
real Devices class is driven natively through EVERY history of add / remove / re-add operations up to
a stated length over a small pool of devices sharing group addresses, and compared with a naive scan.
"""

import itertools

from pyvc.api import standin
from xknx.devices.device import Device
from xknx.devices.devices import Devices
from xknx.telegram import GroupAddress, Telegram
from xknx.telegram.address import IndividualAddress, InternalGroupAddress
from xknx.telegram.apci import GroupValueWrite
from xknx.dpt import DPTBinary


class _RV:
    def __init__(self, gas):
        self._gas = gas

    def group_addresses(self):
        return iter(self._gas)

    def register_state_updater(self):
        pass

    def unregister_state_updater(self):
        pass


class ProbeDevice(Device):
    """A device with a fixed set of group addresses that records the telegrams it processes."""

    def __init__(self, name, gas, log):
        super().__init__(None, name)
        self._rv = _RV(gas)
        self._log = log

    def _iter_remote_values(self):
        yield self._rv

    def process(self, telegram):
        self._log.append(self.key)


class _Started:
    def is_set(self):
        return False


GAS = [GroupAddress("1/1/1"), GroupAddress("1/1/2"), InternalGroupAddress("i-x")]
# device -> addresses it uses (shared addresses, one device on all, one on none)
POOL = {"a": [0], "b": [0, 1], "c": [1, 2], "d": [0, 1, 2], "e": []}
# two more devices that carry the *same name* as "a" / "b" (names are not identities)
NAMES = {"a": "a", "b": "b", "c": "c", "d": "d", "e": "e", "a2": "a", "b2": "b"}
POOL.update({"a2": [0, 2], "b2": [1]})


def _histories(tier):
    n = 4 if tier == "quick" else 5
    ops = [(k, d) for k in ("add", "remove") for d in POOL]
    for length in range(0, n + 1):
        for h in itertools.product(ops, repeat=length):
            yield (h,)


@standin("C37", cases=_histories, kind="enum-native", exhaustive=True, bound="every history of up to 4 (quick) / 5 (thorough) add/remove operations over 7 devices (two pairs with equal names) sharing 3 group addresses (4*10^4 / 5*10^5 histories), after every step: dispatch for each address compared with a naive scan")
def registry_matches_naive_scan(history):
    log = []
    devs = {n: ProbeDevice(NAMES[n], [GAS[i] for i in idx], log) for n, idx in POOL.items()}
    for n, d in devs.items():
        d.key = n
    registry = Devices(started=_Started())
    model = []  # registration order
    for op, name in history:
        d = devs[name]
        before = list(model)
        try:
            if op == "add":
                registry.async_add(d)
                assert name not in before, "adding a registered device must raise"
                model.append(name)
            else:
                registry.async_remove(d)
                assert name in before, "removing an unregistered device must raise"
                model.remove(name)
        except ValueError:
            assert (op == "add") == (name in before), (op, name, before)
        # the registry's observable state equals the model after every step (also after a refused one)
        assert [x.key for x in registry] == model and len(registry) == len(model)
        for i, ga in enumerate(GAS):
            del log[:]
            registry.process(Telegram(destination_address=ga, payload=GroupValueWrite(DPTBinary(1))))
            assert log == [n for n in model if i in POOL[n]], (history, ga, log, model)
        del log[:]
        registry.process(Telegram(destination_address=IndividualAddress("1.1.1"), payload=GroupValueWrite(DPTBinary(1))))
        assert log == []


# ------------------------------------------------------------------ every real device type: the index key is what the device uses


def _real_device_cases(tier):
    yield ("all",)


def _build_real_devices(xknx):
    """One device of every exported type with a distinct group address for every address argument of
    its constructor (a Climate gets its own addresses *and* a ClimateMode)."""
    import inspect

    import xknx.devices as dv
    from xknx.devices.climate import SetpointShiftMode

    counter = [0]

    def fresh():
        counter[0] += 1
        n = counter[0]
        return f"{1 + n // 2048}/{(n // 256) % 8}/{n % 256}"

    extra = {
        "ExposeSensor": dict(value_type="temperature"),
        "Sensor": dict(value_type="temperature"),
        "NumericValue": dict(value_type="temperature"),
        "RawValue": dict(payload_length=1),
        "Scene": dict(scene_number=1),
        "Climate": dict(setpoint_shift_mode=SetpointShiftMode.DPT6010),
        "SelectDevice": dict(value_type="hvac_mode"),
    }
    out, used = [], {}
    by_param = fresh.by_param = {}
    names = [n for n in dv.__all__ if inspect.isclass(getattr(dv, n)) and issubclass(getattr(dv, n), dv.Device) and getattr(dv, n) is not dv.Device]
    for n in sorted(names):
        cls = getattr(dv, n)
        params = inspect.signature(cls.__init__).parameters
        kw = {p: fresh() for p in params if p.startswith("group_address")}
        kw.update({k: v for k, v in extra.get(n, {}).items() if k in params})
        if n == "Climate":
            mode_params = inspect.signature(dv.ClimateMode.__init__).parameters
            kw["mode"] = dv.ClimateMode(xknx, "mode_of_climate", **{p: fresh() for p in mode_params if p.startswith("group_address")})
        try:
            d = cls(xknx, n.lower(), **kw)
        except TypeError:
            continue  # a type that needs further mandatory configuration is not built
        out.append(d)
        used[d.name] = [v for k, v in kw.items() if k.startswith("group_address")]
        by_param[d.name] = {k: v for k, v in kw.items() if k.startswith("group_address")}
        if n == "Climate":
            used[d.name] += [str(ga) for ga in kw["mode"].group_addresses()]
    return out, used, fresh


@standin("C37", cases=_real_device_cases, kind="enum-native", exhaustive=False, bound="one device of every exported device type (a Climate with own addresses and a ClimateMode) built with a distinct group address for every address argument: group_addresses() - the registry's index key - holds every address the constructor was given (but the state address of a date/time device in localtime mode) and exactly the addresses has_group_address() answers for (over all constructor addresses and two foreign ones), the attached mode's among them; registered in one registry, a telegram to each address reaches exactly the devices that use it, in registration order, and none after removal")
def every_device_type_is_indexed_under_all_the_addresses_it_uses(_):
    import asyncio

    from xknx import XKNX

    async def go():
        import logging

        logging.disable(logging.CRITICAL)  # (a date/time device in localtime mode warns about its ignored state address)
        xknx = XKNX()
        devices, used, fresh = _build_real_devices(xknx)
        logging.disable(logging.NOTSET)
        assert len(devices) >= 15, [d.name for d in devices]
        universe = sorted({GroupAddress(a) for v in used.values() for a in v} | {GroupAddress(fresh()), GroupAddress(fresh())}, key=lambda g: g.raw)
        for d in devices:
            index_key = d.group_addresses()
            for ga in universe:
                assert (ga in index_key) == d.has_group_address(ga), (d.name, str(ga), "group_addresses() and has_group_address() disagree")
            # every address the device was configured with is one it uses - the expectation comes from the
            # constructor arguments, not from the device's own answer. One documented exception: a date/time
            # device in localtime mode ignores its state address by design (it logs a warning saying so).
            for param, a in fresh.by_param[d.name].items():
                if type(d).__name__ in ("DateDevice", "TimeDevice", "DateTimeDevice") and param == "group_address_state":
                    continue
                assert GroupAddress(a) in index_key, (d.name, param, a, "configured address is not in group_addresses(): telegrams to it would not reach the device")
            assert not used[d.name] or index_key, (d.name, "no address at all")
            mode = getattr(d, "mode", None)
            if isinstance(mode, Device):
                for ga in mode.group_addresses():
                    assert ga in index_key, (d.name, str(ga), "an address of the attached mode is missing")
        registry = Devices(started=_Started())
        for d in devices:
            if d.name != "mode_of_climate":
                registry.async_add(d)
        registered = list(registry)
        seen = []
        for d in registered:
            d.process = (lambda dev: (lambda telegram: seen.append(dev.name)))(d)
        for ga in universe:
            del seen[:]
            registry.process(Telegram(destination_address=ga, payload=GroupValueWrite(DPTBinary(1))))
            assert seen == [d.name for d in registered if d.has_group_address(ga)], (str(ga), seen)
        for d in registered[::2]:
            registry.async_remove(d)
        left = list(registry)
        for ga in universe:
            del seen[:]
            registry.process(Telegram(destination_address=ga, payload=GroupValueWrite(DPTBinary(1))))
            assert seen == [d.name for d in left if d.has_group_address(ga)], (str(ga), seen)

    asyncio.run(go())
