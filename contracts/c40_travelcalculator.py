"""C40 - Cover position estimates stay within bounds and never fail."""

import time

from pyvc.api import Bool, Choice, EnumOf, Float, Int, Obj, assume, ghost, lemma
from xknx.devices.travelcalculator import TravelCalculator, TravelStatus


def _clock():
    """time.time() stand-in: the reading the lemma set for the current query (one reading per query)."""
    return ghost("now")[-1]


POS = Int(0, 100)
CALC = Obj(
    TravelCalculator,
    travel_direction=EnumOf(TravelStatus),
    travel_time_down=Float(lo=0.001, hi=100000.0),
    travel_time_up=Float(lo=0.001, hi=100000.0),
    _last_known_position=Choice(None, POS),
    _last_known_position_timestamp=Float(lo=0.0, hi=4.0e9),
    _position_confirmed=Bool(),
    _travel_to_position=Choice(None, POS),
    position_closed=100,
    position_open=0,
)
STUBS = [(time, "time", _clock)]


def spec_travel_time(c, a, b):
    """Reference: full travel time of the direction, scaled by the share of the 0..100 range to cover."""
    if b > a:
        return c.travel_time_down * (b - a) / 100
    return c.travel_time_up * (a - b) / 100


def overshot(c):
    """The last report is already at or beyond the target in the direction of travel."""
    rel = c._travel_to_position - c._last_known_position
    return (rel <= 0 and c.travel_direction == TravelStatus.DIRECTION_DOWN) or (
        rel >= 0 and c.travel_direction == TravelStatus.DIRECTION_UP
    )


def between(x, a, b):
    return (a <= x <= b) or (b <= x <= a)


@lemma("C40", params=dict(c=CALC, now=Float(lo=0.0, hi=4.0e9)), stubs=STUBS, float_mode="real")
def current_position_is_bounded_and_total(c, now):
    """For any calculator state (positions 0..100 or unknown, positive travel times, any direction) and any
    clock reading not before the last timestamp: querying never raises; the estimate is unknown or an
    integer between the last known position and the target; once the travel time has elapsed it is the
    target."""
    assume(now >= c._last_known_position_timestamp)
    ghost("now").append(now)
    last, target = c._last_known_position, c._travel_to_position
    p = c.current_position()
    if last is None:
        assert p is None
        return
    assert isinstance(p, int)
    if target is None or c._position_confirmed:
        assert p == last
        return
    assert between(p, last, target)
    ts = c._last_known_position_timestamp
    total = spec_travel_time(c, last, target)
    if now >= ts + total or overshot(c):
        assert p == target
    else:
        # exact rational reference: linear in elapsed time, truncated to an integer
        exact = last + (target - last) * (now - ts) / total
        # (int() truncates toward zero, so an upward move shows the target up to one position unit early;
        # the estimate is an integer, "exactly" is read as "within one unit of the rational reference")
        assert abs(p - exact) < 1


@lemma("C40", params=dict(c=CALC, now1=Float(lo=0.0, hi=4.0e9), now2=Float(lo=0.0, hi=4.0e9)), stubs=STUBS, float_mode="real")
def estimate_moves_monotonically_toward_the_target(c, now1, now2):
    """Two queries at non-decreasing readings (equal ones included): the later estimate is at least as
    close to the target."""
    assume(c._last_known_position_timestamp <= now1)
    assume(now1 <= now2)
    assume(c._last_known_position is not None and c._travel_to_position is not None and not c._position_confirmed)
    target = c._travel_to_position
    ghost("now").append(now1)
    p1 = c.current_position()
    ghost("now").append(now2)
    p2 = c.current_position()
    assert abs(target - p2) <= abs(target - p1)


@lemma("C40", params=dict(c=CALC, now=Float(lo=0.0, hi=4.0e9), op=Choice("stop", "start_travel", "update_position", "set_position"), arg=POS), stubs=STUBS, float_mode="real")
def commands_keep_the_state_queryable(c, now, op, arg):
    """Every command, at any clock reading, leaves a state in which the query (at the same reading:
    equal clock readings are allowed) does not raise and stays within bounds - in particular stop()
    right after start_travel() with no time elapsed."""
    assume(now >= c._last_known_position_timestamp)
    ghost("now").append(now)
    before = c.current_position()
    if op == "stop":
        c.stop()
    elif op == "start_travel":
        c.start_travel(arg)
    elif op == "update_position":
        c.update_position(arg)
    else:
        c.set_position(arg)
    p = c.current_position()
    if c._last_known_position is not None and c._travel_to_position is not None:
        assert between(p, c._last_known_position, c._travel_to_position)
    if op == "stop":
        assert p == before
    elif op == "start_travel" and before is not None:
        # no time has elapsed since the start: still at the position it started from, target recorded
        assert p == before and c._travel_to_position == arg
        assert not overshot(c) or before == arg
    elif op in ("update_position", "set_position"):
        # a report (also one that repeats the stored position) restarts the segment: the estimate continues from
        # the reported position *at the time of the report* - 'reaches the target exactly when the travel time
        # [from there] has elapsed' is current_position_is_bounded_and_total applied to this new segment
        assert c._last_known_position == arg and c._last_known_position_timestamp == now
    if op == "start_travel":
        assert c._last_known_position_timestamp == now
    # the state invariant the other lemmas assume is re-established (induction over command histories)
    assert c._last_known_position is None or (isinstance(c._last_known_position, int) and 0 <= c._last_known_position <= 100)
    assert c._travel_to_position is None or (isinstance(c._travel_to_position, int) and 0 <= c._travel_to_position <= 100)
    assert c._last_known_position_timestamp <= now
    assert c.travel_time_down > 0 and c.travel_time_up > 0


ASSUMPTIONS = [
    "time.time() is read once per query/command (one clock reading per call)",
]
