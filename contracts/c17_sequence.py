"""C17 - Data Secure enforces sequence-number freshness in both directions."""

from contracts.cemi_common import APCI_STUBS
from contracts.secure_common import SECURE_DATA_STUBS
from pyvc.api import Bool, Bytes, Choice, Const, EnumOf, Int, MapOf, Obj, ghost, lemma
from xknx.cemi.cemi_frame import CEMILData
from xknx.cemi.flags import CEMIFlags
from xknx.exceptions import ConversionError, DataSecureError
from xknx.secure.data_secure import DataSecure
from xknx.secure.data_secure_asdu import SecureData, SecurityALService, SecurityAlgorithmIdentifier, SecurityControlField
from xknx.telegram.address import GroupAddress, IndividualAddress
from xknx.telegram.apci import SecureAPDU
from xknx.telegram.tpci import TDataGroup

from xknx.cemi.flags import CEMIFrameFormat, CEMIFrameType, CEMIPriority  # noqa: E402

FULL_FLAGS = Obj(
    CEMIFlags,
    priority=EnumOf(CEMIPriority),
    repeat_on_error=Bool(),
    system_broadcast=Bool(),
    acknowledge_request=Bool(),
    confirm_error=Bool(),
    hop_count=Int(0, 7),
    frame_type=EnumOf(CEMIFrameType),
    frame_format=Const(CEMIFrameFormat.STANDARD),
)
MAX48 = (1 << 48) - 1

DS = Obj(
    DataSecure,
    _group_key_table=MapOf(GroupAddress, value_len=16),
    _individual_address_table=MapOf(IndividualAddress),
    _sequence_number_sending=Int(0, MAX48 + 5),
)
SCF = Obj(SecurityControlField, tool_access=Bool(), algorithm=EnumOf(SecurityAlgorithmIdentifier), system_broadcast=Bool(), service=EnumOf(SecurityALService))
SAPDU = Obj(SecureAPDU, scf=SCF, secured_data=Obj(SecureData, sequence_number_bytes=Bytes(length=6), secured_apdu=Bytes(max_len=255), message_authentication_code=Bytes(length=4)))
FRAME = Obj(
    CEMILData,
    flags=FULL_FLAGS,
    src_addr=Obj(IndividualAddress, raw=Int(0, 0xFFFF)),
    dst_addr=Choice(Obj(GroupAddress, raw=Int(0, 0xFFFF)), Obj(IndividualAddress, raw=Int(0, 0xFFFF))),
    tpci=Const(TDataGroup()),
    payload=SAPDU,
)
ANY_SENDER = Obj(IndividualAddress, raw=Int(0, 0xFFFF))


@lemma("C17", params=dict(ds=DS, frame=FRAME, other=ANY_SENDER), stubs=APCI_STUBS + SECURE_DATA_STUBS)
def received_secure_frame_step(ds, frame, other):
    """One received secured frame against an arbitrary Security Individual Address Table (any number of
    senders): it is delivered only if the sender is known and its sequence number is strictly greater
    than the last one recorded, which then becomes the recorded one; when it is rejected the table is
    unchanged; the entry of every other sender is unchanged either way. By induction over the history,
    delivered sequence numbers per sender strictly increase and unknown senders are never delivered."""
    table = ds._individual_address_table
    src = frame.src_addr
    seq = int.from_bytes(frame.payload.secured_data.sequence_number_bytes, "big")
    known_before = src in table
    last_before = table.get(src, -1)
    other_known_before = other in table
    other_last_before = table.get(other, -1)
    delivered = False
    try:
        out = ds.received_cemi(frame)
        delivered = True
    except DataSecureError:
        if len(ghost("mac_verified")) == 0:
            # failed verification (or never got that far): nothing in the table moved
            assert (src in table) == known_before and table.get(src, -1) == last_before
        else:
            # verified, but the decrypted content is not a usable APDU: not delivered; the number is used up
            assert known_before and seq > last_before and table.get(src, -1) == seq
    if delivered:
        assert known_before and seq > last_before
        assert table.get(src, -1) == seq
        assert out.payload is not frame.payload  # the plain APDU, not the secured one, is handed on
    if other.raw != src.raw:
        assert (other in table) == other_known_before and table.get(other, -1) == other_last_before


@lemma("C17", params=dict(ds=DS))
def outgoing_sequence_numbers(ds):
    """get_sequence_number returns the stored number and stores the next one; past 48 bits it raises
    instead of wrapping - so the numbers sent strictly increase and never exceed 48 bits."""
    old = ds._sequence_number_sending
    try:
        n = ds.get_sequence_number()
    except DataSecureError:
        assert old > MAX48 and ds._sequence_number_sending == old
        return
    assert n == old and n <= MAX48 and ds._sequence_number_sending == old + 1



from contracts.cemi_common import AnyAPCI  # noqa: E402

PLAIN_OUT = Obj(
    CEMILData,
    flags=FULL_FLAGS,
    src_addr=Obj(IndividualAddress, raw=Int(0, 0xFFFF)),
    dst_addr=Obj(GroupAddress, raw=Int(0, 0xFFFF)),
    tpci=Const(TDataGroup()),
    payload=Obj(AnyAPCI, enc=Bytes(min_len=2, max_len=255)),
)


@lemma("C17", params=dict(ds=DS, frame=PLAIN_OUT, other=ANY_SENDER), stubs=APCI_STUBS + SECURE_DATA_STUBS)
def a_sent_frame_uses_up_its_number_and_a_refused_one_changes_nothing(ds, frame, other):
    """outgoing_cemi for a keyed group address, any counter state (also past the end): either the frame
    leaves carrying exactly the stored number (at most 48 bit) and the stored number grows by one, or
    DataSecureError is raised and the stored number is unchanged - in particular it never goes *down*, so a
    number is never used twice and exhaustion is permanent. Sending never touches the table of known senders
    (frame: any address, the frame's own source included, is known afterwards exactly if it was before, with
    the same last number) - an unknown sender stays unknown whatever this side sends."""
    old = ds._sequence_number_sending
    keyed = frame.dst_addr in ds._group_key_table
    table = ds._individual_address_table
    known_before, last_before = other in table, table.get(other, -1)
    src_known_before, src_last_before = frame.src_addr in table, table.get(frame.src_addr, -1)
    try:
        out = ds.outgoing_cemi(frame)
    except DataSecureError:
        assert keyed and old > MAX48 and ds._sequence_number_sending == old
        return
    finally:
        assert ds._individual_address_table is table
        assert (other in table) == known_before and table.get(other, -1) == last_before
        assert (frame.src_addr in table) == src_known_before and table.get(frame.src_addr, -1) == src_last_before
    if not keyed:
        assert out is frame and ds._sequence_number_sending == old
        return
    assert isinstance(out.payload, SecureAPDU)
    assert int.from_bytes(out.payload.secured_data.sequence_number_bytes, "big") == old and old <= MAX48
    assert ds._sequence_number_sending == old + 1
