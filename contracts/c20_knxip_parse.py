"""C20 - KNX/IP frame parsing terminates and fails only with declared errors."""

import struct

from contracts.knxip_common import body_classes
from pyvc.api import Bytes, LoopSpec, lemma
from xknx.exceptions import ConversionError, CouldNotParseKNXIP, IncompleteKNXIPFrame
from xknx.knxip import KNXIPFrame
from xknx.knxip.header import KNXIPHeader

# the three `while raw[pos:]` loops: pos stays inside the body, one element is appended per iteration
# (list length <= octets consumed: memory linear in the input), and every iteration consumes >= 1 octet
for _q, _lst in (("DescriptionResponse.from_knx", "self.dibs"), ("SearchResponse.from_knx", "self.dibs"), ("SearchRequestExtended.from_knx", "self.srps")):
    if _lst == "self.dibs":
        LoopSpec(_q, 0, modifies=["pos", _lst], invariant=lambda self, raw, pos: 0 <= pos <= len(raw) and len(self.dibs) <= pos, decreases=lambda raw, pos: len(raw) - pos)
    else:
        LoopSpec(_q, 0, modifies=["pos", _lst], invariant=lambda self, raw, pos: 0 <= pos and len(self.srps) <= pos, decreases=lambda raw, pos: len(raw) - pos)


# the fixed-stride loops over service families / tunnelling slots: nothing needs to survive them
LoopSpec("_DIBServiceFamilies.from_knx", 0, modifies=["self.families"], invariant=lambda: True)
LoopSpec("DIBTunnelingInfo.from_knx", 0, modifies=["self.slots"], invariant=lambda: True)


@lemma("C20", params=dict(raw=Bytes(max_len=65535)), family=lambda: [dict(B=c) for c in body_classes()])
def body_from_knx_declared_errors(B, raw):
    """Every body parser terminates (loops: invariant + variant) and lets only the exception kinds
    escape that KNXIPFrame.from_knx converts into the declared parse error."""
    body = B()
    try:
        body.from_knx(raw)
    except (CouldNotParseKNXIP, ConversionError, IndexError, ValueError, struct.error):
        return


@lemma("C20", params=dict(data=Bytes(max_len=70000)))
def frame_header_and_length(data):
    """KNXIPFrame.from_knx up to the body: raises only CouldNotParseKNXIP; 'incomplete' only when
    appending octets could complete the frame."""
    h = KNXIPHeader()
    try:
        pos = h.from_knx(data)
    except IncompleteKNXIPFrame:
        assert len(data) < 6
        return
    except CouldNotParseKNXIP:
        return
    assert pos == 6 and len(data) >= 6
    assert h.total_length == data[4] * 256 + data[5]


def _service_cases():
    from xknx.knxip.knxip_enum import KNXIPServiceType

    return [dict(service=m.value) for m in KNXIPServiceType] + [dict(service=-1)]


@lemma("C20", params=dict(data=Bytes(max_len=70000)), family=_service_cases)
def frame_from_knx_total(data, service):
    """KNXIPFrame.from_knx: returns (frame, rest) having consumed exactly the announced length, or
    raises CouldNotParseKNXIP; IncompleteKNXIPFrame only when appending octets could complete the frame."""
    if service == -1:
        if len(data) >= 6 and data[0] == 6 and data[1] == 0x10:
            from xknx.knxip.knxip_enum import KNXIPServiceType

            if (data[2] * 256 + data[3]) in tuple(m.value for m in KNXIPServiceType):
                return
    else:
        if len(data) < 6 or data[2] * 256 + data[3] != service:
            return
    try:
        frame, rest = KNXIPFrame.from_knx(data)
    except IncompleteKNXIPFrame:
        # a shorter prefix of a frame: too short for a header, or a readable header announcing more
        assert len(data) < 6 or (data[0] == 6 and len(data) < data[4] * 256 + data[5])
        return
    except CouldNotParseKNXIP:
        # ... and conversely a proper prefix of a frame is never reported as malformed (the TCP transport
        # would throw the octets away instead of waiting for the rest): fewer than 6 octets, or a
        # well-formed header (length 6, version 0x10, known service, total >= 6) announcing more octets
        assert len(data) >= 6
        if service != -1 and data[0] == 6 and data[1] == 0x10 and data[4] * 256 + data[5] >= 6:
            assert len(data) >= data[4] * 256 + data[5]
        return
    total = data[4] * 256 + data[5]
    assert frame.header.total_length == total
    assert 6 <= total <= len(data)
    assert bytes(rest) == bytes(data[total:])


# ------------------------------------------------------------------ "having consumed exactly the announced length": the body too
# frame_from_knx_total fixes what is returned as the rest; this fixes what the body parser is handed. A body parser
# that is handed more than the announced octets (the start of the next frame of a TCP stream) either fails on a
# well-formed frame or - for bodies that end with open data such as the cEMI of a tunnelling request - takes the
# following octets for its own.

from xknx.knxip import RoutingIndication as _RoutingIndication, TunnellingRequest as _TunnellingRequest  # noqa: E402
from pyvc.api import ghost as _ghost  # noqa: E402


def _record_body(self, raw):
    _ghost("body_octets").append(raw)
    return len(raw)


@lemma("C20", family=[dict(service=0x0420, B=_TunnellingRequest), dict(service=0x0530, B=_RoutingIndication)], params=dict(data=Bytes(max_len=64)), dynamic_params=lambda fixed: dict(), stubs=[(_TunnellingRequest, "from_knx", _record_body), (_RoutingIndication, "from_knx", _record_body)])
def the_body_parser_is_handed_exactly_the_announced_octets(service, B, data):
    """KNXIPFrame.from_knx for the two services whose body ends with open data, any octets (also with further
    frames behind): the body parser gets data[6:total] - not an octet more - and the rest is data[total:]."""
    if len(data) < 6 or data[2] * 256 + data[3] != service:
        return
    try:
        frame, rest = KNXIPFrame.from_knx(data)
    except (CouldNotParseKNXIP, IncompleteKNXIPFrame):
        return
    total = data[4] * 256 + data[5]
    seen = _ghost("body_octets")
    assert len(seen) == 1 and bytes(seen[0]) == bytes(data[6:total])
    assert bytes(rest) == bytes(data[total:])
