"""C25 - Connection lifecycle stays consistent (the per-call part that contracts can carry)."""

import asyncio
import warnings

import xknx.io.tunnel as tunnel_mod
from contracts.world import Holder, World
from pyvc.api import Bool, Choice, Const, EnumOf, Int, ListOfAny, LoopSpec, Obj, assume, ghost, lemma, nondet, run
from xknx.core.connection_manager import ConnectionManager
from xknx.core.connection_state import XknxConnectionState, XknxConnectionType
from xknx.exceptions import CommunicationError, RequestResponseError
from xknx.io.data_connection import IncomingSequenceCounter
from xknx.io.routing import Routing
from xknx.io.tunnel import SecureTunnel, TCPTunnel, UDPTunnel, _Tunnel
from xknx.knxip import HPAI, DisconnectRequest

warnings.filterwarnings("ignore", message="coroutine .* was never awaited")

S = XknxConnectionState

# ------------------------------------------------------------------ stand-ins (contracts of the surroundings)


class FakeTask:
    """asyncio.Task stand-in: live until cancelled; done-callbacks are only recorded."""

    def __init__(self, coro, name):
        self.coro, self.name, self.cancelled, self.callbacks = coro, name, False, []

    def cancel(self):
        self.cancelled = True
        ghost("T").append(("task_cancel", self))

    def add_done_callback(self, cb):
        self.callbacks.append(cb)

    def __await__(self):
        ghost("T").append(("await_task", self))
        return iter(())


def _create_task(coro, name=None):
    t = FakeTask(coro, name)
    ghost("created").append(t)
    return t


class RecCM:
    """connection_manager stand-in: records the reported state (its own behaviour is proved below)."""

    def connection_state_changed(self, state, connection_type=XknxConnectionType.NOT_CONNECTED):
        ghost("T").append(("state", state))
        if state == S.CONNECTED:
            ghost("connected").append(1)


class RecHeartbeat:
    def start(self):
        ghost("T").append("hb_start")

    def stop(self):
        ghost("T").append("hb_stop")


class FakeTransport:
    """KNXIPTransport stand-in. `transport` is the asyncio transport (None when closed); connect() may
    fail with OSError; send()/stop() are recorded."""

    def __init__(self, transport):
        self.transport = transport

    async def connect(self):
        if nondet(2):
            ghost("T").append("transport_connect_failed")
            raise OSError("unreachable")
        ghost("T").append("transport_connect")

    def send(self, frame, addr=None):
        ghost("T").append(("send", frame))

    def stop(self):
        ghost("T").append("transport_stop")


class FakeDisconnect:
    """Disconnect(...).request(): answered, or RequestResponseError (error status, no answer in time, or
    the request could not be sent - request() converts a CommunicationError of the transport)."""

    def __init__(self, transport, communication_channel_id, local_hpai):
        self.channel = communication_channel_id

    async def request(self):
        ghost("T").append(("disconnect_request", self.channel))
        if nondet(2):
            raise RequestResponseError("no response")


async def _setup_tunnel(self):
    ghost("T").append("setup_tunnel")


async def _connect_request(self):
    if nondet(2):
        ghost("T").append("connect_request_failed")
        raise CommunicationError("no ConnectResponse")
    ghost("T").append("connect_request")
    self.communication_channel = 1


COMMON = dict(
    xknx=Obj(World, connection_manager=Const(RecCM())),
    auto_reconnect=Bool(),
    auto_reconnect_wait=3,
    communication_channel=Choice(None, Int(0, 255)),
    local_hpai=Const(HPAI()),
    sequence_number=Int(0, 255),
    _heartbeat=Const(RecHeartbeat()),
    _reconnect_task=Choice(None, Obj(FakeTask, coro=None, name="reconnect", cancelled=False, callbacks=Const([]))),
    _data_endpoint_addr=None,
    transport=Obj(FakeTransport, transport=Choice(None, "open")),
)
TUNNELS = {
    "UDPTunnel": Obj(UDPTunnel, _invalid_sequence_number_reconnect_task=Choice(None, Obj(FakeTask, coro=None, name="seq", cancelled=False, callbacks=Const([]))), _sequence=Const(IncomingSequenceCounter()), route_back=True, **COMMON),
    "TCPTunnel": Obj(TCPTunnel, **COMMON),
    "SecureTunnel": Obj(SecureTunnel, **COMMON),
}
STUBS = [
    (asyncio, "create_task", _create_task),
    (tunnel_mod, "Disconnect", FakeDisconnect),
    (UDPTunnel, "setup_tunnel", _setup_tunnel),
    (TCPTunnel, "setup_tunnel", _setup_tunnel),
    (SecureTunnel, "setup_tunnel", _setup_tunnel),
    (_Tunnel, "_connect_request", _connect_request),
]


tunnel_family = [dict(cls=name) for name in TUNNELS]
DYN = dict(dynamic_params=lambda fixed: dict(t=TUNNELS[fixed["cls"]]))


def states(tr):
    return [x[1] for x in tr if isinstance(x, tuple) and x[0] == "state"]


def sends(tr):
    return [x[1] for x in tr if isinstance(x, tuple) and x[0] == "send"]


# ------------------------------------------------------------------ tunnel


@lemma("C25", family=tunnel_family, stubs=STUBS, **DYN)
def tunnel_lost_runs_at_most_one_reconnect(cls, t):
    """_tunnel_lost() (heartbeat failure, server disconnect, transport loss all end here), any tunnel state:
    with auto-reconnect a reconnect task is created only if none is registered, and one is registered
    afterwards - calling it again creates nothing; without auto-reconnect the tunnel is shut down:
    heartbeat stopped, DISCONNECTED reported, at most one frame (a DisconnectRequest for the open channel)
    sent and the transport stopped last."""
    old = t._reconnect_task
    channel = t.communication_channel
    was_open = t.transport.transport is not None
    t._tunnel_lost()
    tr = ghost("T")
    if t.auto_reconnect:
        if old is None:
            assert len(ghost("created")) == 1 and t._reconnect_task is ghost("created")[0]
            assert len(t._reconnect_task.callbacks) == 1
        else:
            assert ghost("created") == [] and t._reconnect_task is old
        assert tr == [] and not (old is not None and old.cancelled)
        n = len(ghost("created"))
        t._tunnel_lost()
        assert len(ghost("created")) == n
    else:
        assert ghost("created") == []
        assert "hb_stop" in tr and states(tr) == [S.DISCONNECTED]
        if was_open:
            assert tr[-1] == "transport_stop"
            if channel is not None:
                assert len(sends(tr)) == 1
                body = sends(tr)[0].body
                assert isinstance(body, DisconnectRequest) and body.communication_channel_id == channel
            else:
                assert sends(tr) == []
        else:
            assert sends(tr) == [] and "transport_stop" not in tr


@lemma("C25", family=tunnel_family, stubs=STUBS, **DYN)
def user_disconnect_stops_everything(cls, t):
    """disconnect(), any tunnel state and any outcome of the DisconnectRequest: the heartbeat is stopped,
    DISCONNECTED is reported, a registered reconnect task is cancelled, nothing but (at most one)
    DisconnectRequest for the open channel goes out and the transport is stopped as the very last action -
    also when the request fails; no reconnect task is created unless auto-reconnect ... (see below)."""
    old = t._reconnect_task
    channel = t.communication_channel
    failed = False
    try:
        run(t.disconnect())
    except CommunicationError:
        failed = True
    tr = ghost("T")
    assert tr[-1] == "transport_stop"
    assert "hb_stop" in tr and states(tr)[0] == S.DISCONNECTED and S.CONNECTED not in states(tr) and S.CONNECTING not in states(tr)
    reqs = [x for x in tr if isinstance(x, tuple) and x[0] == "disconnect_request"]
    if old is not None:
        assert old.cancelled
        # ... and before anything is awaited: while disconnect() waits for the DisconnectResponse a still
        # running reconnect task would go on connecting
        if reqs:
            assert tr.index(("task_cancel", old)) < tr.index(reqs[0])
    assert reqs == ([("disconnect_request", channel)] if channel is not None else [])
    if not failed:
        assert t.communication_channel is None


@lemma("C25", family=tunnel_family, stubs=STUBS, **DYN)
def connect_reports_connected_only_when_established(cls, t):
    """connect(): CONNECTING is reported first; CONNECTED is reported (last, after the heartbeat was
    started) iff transport, setup and ConnectRequest all succeeded; otherwise DISCONNECTED is reported,
    the transport is closed and CommunicationError raised."""
    ok = True
    try:
        run(t.connect())
    except CommunicationError:
        ok = False
    tr = ghost("T")
    st = states(tr)
    assert st[0] == S.CONNECTING and tr[0] == ("state", S.CONNECTING)
    if ok:
        assert "connect_request" in tr and "transport_connect" in tr
        assert st == [S.CONNECTING, S.CONNECTED] and tr[-1] == ("state", S.CONNECTED) and tr[-2] == "hb_start"
        assert t.sequence_number == 0
    else:
        assert st == [S.CONNECTING, S.DISCONNECTED] and tr[-1] == "transport_stop"
        assert "hb_start" not in tr


@lemma("C25", family=tunnel_family, params=dict(channel=Int(0, 255)), stubs=STUBS, **DYN)
def server_disconnect_is_answered_only_for_the_own_channel(cls, t, channel):
    """A DisconnectRequest of the server, any tunnel state and any channel id: it is answered with a
    DisconnectResponse only if it names the open channel, which is then closed; in every case the tunnel
    is treated as lost exactly once (reconnect or shutdown per _tunnel_lost above) and nothing else is
    sent by this handler itself."""
    own = t.communication_channel
    had_task = t._reconnect_task is not None
    t._disconnect_request_received(DisconnectRequest(communication_channel_id=channel, control_endpoint=HPAI()))
    tr = ghost("T")
    responses = [x[1] for x in tr if isinstance(x, tuple) and x[0] == "send" and type(x[1].body).__name__ == "DisconnectResponse"]
    if own is not None and channel == own:
        assert len(responses) == 1 and responses[0].body.communication_channel_id == own and tr[0] == ("send", responses[0])
        assert t.communication_channel is None
    else:
        assert responses == [] and t.communication_channel == own
    if t.auto_reconnect:
        assert len(ghost("created")) == (0 if had_task else 1)
    else:
        assert states(tr) == [S.DISCONNECTED] and ghost("created") == []


async def _connect_contract(self):
    """Contract of connect() as proved above, for use inside _reconnect."""
    ghost("T").append(("state", S.CONNECTING))
    if nondet(2):
        ghost("T").append(("state", S.DISCONNECTED))
        ghost("T").append("transport_stop")
        raise CommunicationError("Tunnel connection could not be established")
    ghost("T").append("hb_start")
    ghost("T").append(("state", S.CONNECTED))
    ghost("connected").append(1)


async def _sleep(delay, result=None):
    ghost("T").append(("sleep", delay))


LoopSpec(
    "_Tunnel._reconnect",
    0,
    modifies=["ghost:T", "attempt"],
    invariant=lambda: len(ghost("connected")) == 0,
)


@lemma("C25", family=tunnel_family, stubs=STUBS + [(_Tunnel, "connect", _connect_contract), (asyncio, "sleep", _sleep)], **DYN)
def reconnect_retries_until_connected(cls, t):
    """_reconnect(): first the old connection is torn down (heartbeat stopped, DISCONNECTED reported,
    DisconnectRequest only for a still-open channel, transport stopped), then connect() is retried, with
    a pause after each failure, until it succeeds: CONNECTED is never reported before the attempt that
    succeeds (loop invariant) and is the last thing reported when the task ends. A nested _tunnel_lost()
    (from _disconnect_request) starts no second reconnect while this one is registered."""
    assume(t._reconnect_task is not None)  # we are running inside the registered reconnect task
    assume(t.auto_reconnect)
    run(t._reconnect())
    tr = ghost("T")
    assert tr[-1] == ("state", S.CONNECTED)
    assert len(ghost("connected")) == 1
    assert ghost("created") == []


@lemma("C25", params=dict(t=TUNNELS["UDPTunnel"]), stubs=STUBS)
def invalid_sequence_schedule_respects_running_reconnect(t):
    """UDP only: the delayed 'tunnel lost' for a wrong sequence number is scheduled at most once and
    never while a reconnect is registered."""
    old_r, old_s = t._reconnect_task, t._invalid_sequence_number_reconnect_task
    t._invalid_sequence_number_reconnect_schedule()
    if old_r is None and old_s is None:
        assert len(ghost("created")) == 1 and t._invalid_sequence_number_reconnect_task is ghost("created")[0]
    else:
        assert ghost("created") == [] and t._invalid_sequence_number_reconnect_task is old_s
    t._prepare_disconnect()
    assert t._invalid_sequence_number_reconnect_task is None
    assert old_s is None or old_s.cancelled


# ------------------------------------------------------------------ connection manager


class FakeEvent:
    def __init__(self, flag):
        self.flag = flag

    def set(self):
        self.flag = True

    def clear(self):
        self.flag = False

    def is_set(self):
        return self.flag


class StateCallback:
    def __call__(self, state):
        ghost("called").append((self, state))


def _reset_counters(self):
    ghost("reset").append(1)


LoopSpec(
    "ConnectionManager._connection_state_changed",
    0,
    modifies=[],
    invariant=lambda: True,
    post=lambda connection_state_change_cb, state: ghost("called") == [(connection_state_change_cb, state)],
)

CM = Obj(
    ConnectionManager,
    _main_loop=None,
    connected=Obj(FakeEvent, flag=Bool()),
    _state=EnumOf(XknxConnectionState),
    _connection_state_changed_cbs=ListOfAny(Obj(StateCallback)),
    connection_type=EnumOf(XknxConnectionType),
    connected_since=None,
)


@lemma("C25", params=dict(cm=CM, state=EnumOf(XknxConnectionState), ctype=EnumOf(XknxConnectionType)), stubs=[(ConnectionManager, "_reset_counters", _reset_counters)])
def state_changes_only_on_real_transitions(cm, state, ctype):
    """Connection manager with any number of callbacks, invariant 'connected event set iff state is
    CONNECTED': reporting the current state again does nothing at all (no callback, no event change);
    a different state is stored, the event follows it, and each callback is called exactly once with
    the new state (loop rule, per-iteration postcondition); the invariant is re-established."""
    assume(cm.connected.flag == (cm._state == S.CONNECTED))
    old, old_type = cm._state, cm.connection_type
    cm.connection_state_changed(state, ctype)
    assert cm._state == state and cm.state == state
    assert cm.connected.is_set() == (state == S.CONNECTED)
    if old == state:
        assert cm.connection_type == old_type and ghost("reset") == []
    else:
        assert cm.connection_type == ctype
        assert len(ghost("reset")) == (1 if state == S.CONNECTED else 0)


CM0 = Obj(
    ConnectionManager,
    _main_loop=None,
    connected=Obj(FakeEvent, flag=Bool()),
    _state=EnumOf(XknxConnectionState),
    _connection_state_changed_cbs=Const(None),
    connection_type=EnumOf(XknxConnectionType),
    connected_since=None,
)


@lemma("C25", params=dict(cm=CM0, state=EnumOf(XknxConnectionState), n=Choice(0, 1, 2, 3)), stubs=[(ConnectionManager, "_reset_counters", _reset_counters)])
def no_callback_without_transition(cm, state, n):
    """Concrete registries of 0..3 callbacks: same state -> no callback at all; new state -> every
    registered callback exactly once, in registration order; unregistering removes exactly that one."""
    assume(cm.connected.flag == (cm._state == S.CONNECTED))
    cbs = [StateCallback() for _ in range(n)]
    cm._connection_state_changed_cbs = []
    unreg = [cm.register_connection_state_changed_cb(cb) for cb in cbs]
    old = cm._state
    cm.connection_state_changed(state)
    if old == state:
        assert ghost("called") == []
    else:
        assert ghost("called") == [(cb, state) for cb in cbs]
    if n:
        unreg[0]()  # the function returned by register
        assert cm._connection_state_changed_cbs == cbs[1:]
        unreg[0]()  # unregistering twice is harmless
        assert cm._connection_state_changed_cbs == cbs[1:]


class RecLoop:
    def call_soon_threadsafe(self, fn, *args):
        ghost("soon").append((fn, args))


@lemma("C25", params=dict(cm=Obj(ConnectionManager, _main_loop=Const(RecLoop()), connected=Obj(FakeEvent, flag=Bool()), _state=EnumOf(XknxConnectionState), _connection_state_changed_cbs=Const([]), connection_type=EnumOf(XknxConnectionType), connected_since=None), state=EnumOf(XknxConnectionState), ctype=EnumOf(XknxConnectionType)))
def threadsafe_path_defers_the_same_transition(cm, state, ctype):
    """With a registered main loop the very same transition function is scheduled once with the same
    arguments and nothing changes synchronously."""
    old = cm._state
    cm.connection_state_changed(state, ctype)
    assert cm._state == old
    assert len(ghost("soon")) == 1
    fn, args = ghost("soon")[0]
    assert args == (state, ctype)
    assert fn == cm._connection_state_changed


# ------------------------------------------------------------------ routing


class RecFlow:
    def cancel(self):
        ghost("T").append("flow_cancel")


ROUTING = Obj(Routing, xknx=Obj(World, connection_manager=Const(RecCM()), current_address=None), individual_address=None, transport=Obj(FakeTransport, transport=Choice(None, "open")), _flow_control=Const(RecFlow()))


@lemma("C25", params=dict(r=ROUTING))
def routing_reports_connected_only_when_started(r):
    """Routing.connect(): CONNECTING first; CONNECTED iff the transport came up, else DISCONNECTED, the
    transport closed and CommunicationError. disconnect(): transport stopped, DISCONNECTED reported."""
    ok = True
    try:
        run(r.connect())
    except CommunicationError:
        ok = False
    tr = ghost("T")
    if ok:
        assert states(tr) == [S.CONNECTING, S.CONNECTED] and "transport_connect" in tr
    else:
        assert states(tr) == [S.CONNECTING, S.DISCONNECTED] and tr[-1] == "transport_stop"
    n = len(tr)
    run(r.disconnect())
    rest = ghost("T")[n:]
    assert "transport_stop" in rest and states(rest) == [S.DISCONNECTED] and sends(rest) == []


ASSUMPTIONS = [
    "asyncio is trusted behind the contract stubs: a cancelled task/future does not continue, asyncio.timeout cancels what it guards, locks are mutually exclusive, queues are FIFO, tasks switch only at awaits; interleavings inside one await are represented by 'the awaited object completes with any admissible value, times out, or the connection closes'",
    "Disconnect/Connect request objects answer, or raise RequestResponseError (RequestResponse.request's documented contract)",
]


# ------------------------------------------------------------------ a send that finds the tunnel closed by the user

from contracts import c24_tunnel_send as _c24  # noqa: E402
from xknx.cemi import CEMIFrame as _CEMIFrame  # noqa: E402
from xknx.exceptions import CommunicationError as _CommunicationError, TunnellingAckError as _TunnellingAckError  # noqa: E402
from xknx.io.tunnel import UDPTunnel as _UDPTunnel, _Tunnel as _TunnelBase  # noqa: E402


async def _request_finds_channel_closed(self, frame):
    """UDPTunnel._send_tunnelling_request while the user disconnects: the n-th request gets no ACK
    (TunnellingAckError) or the tunnel is closed meanwhile - the next _tunnelling_request then finds no
    communication channel (CommunicationError, raised by the real _tunnelling_request)."""
    ghost("T").append(("request", frame.communication_channel_id, frame.sequence_counter))
    if nondet(2):
        self.communication_channel = None  # disconnect() ran while this request waited for its ACK
    raise _TunnellingAckError("no ack")


@lemma("C25", params=dict(t=_c24.UDP, cemi=_c24.CEMI), stubs=[(_CEMIFrame, "to_knx", _c24._to_knx), (_UDPTunnel, "_send_tunnelling_request", _request_finds_channel_closed), (_TunnelBase, "_tunnel_lost", _c24._tunnel_lost)])
def a_send_that_finds_the_tunnel_closed_gives_up_at_once(t, cemi):
    """UDP send_cemi whose requests are never acknowledged, with the user's disconnect() completing at any
    point in between: as soon as a request finds no communication channel the error goes to the caller -
    no further request, no _tunnel_lost(), no reconnect (nothing is sent after the user disconnected)."""
    assume(t.communication_channel is not None and t._reconnect_task is None)
    ghost("new_channel").append(9)
    try:
        run(t.send_cemi(cemi))
        assert False, "an unacknowledged send cannot succeed"
    except _CommunicationError:
        pass
    tr = ghost("T")
    requests = len([x for x in tr if isinstance(x, tuple) and x[0] == "request"])
    if "await_reconnect" not in tr and t.communication_channel is None:
        # the channel was closed by the user during the first or the second request
        assert "tunnel_lost" not in tr and t._reconnect_task is None and requests <= 2
    else:
        # nobody closed it: both requests failed, then the tunnel is given up / reconnected
        assert requests >= 2 and "tunnel_lost" in tr


# ------------------------------------------------------------------ the loss report of the TCP transport
# tunnel_lost_runs_at_most_one_reconnect starts at _tunnel_lost; on TCP that callback is called by the
# transport, which is where "the user closed it" is told apart from "it was lost".

from xknx.io.transport.tcp_transport import TCPTransport as _TCPTransport  # noqa: E402


class AsyncioSocket:
    """asyncio.Transport by contract: close() is recorded (the loop reports connection_lost(None) later)."""

    def close(self):
        ghost("T").append("socket_close")


class LostCallback:
    def __call__(self):
        ghost("T").append("loss_reported")


@lemma("C25", family=[dict(history=h) for h in ("lost", "stopped_then_lost", "lost_twice", "never_connected")])
def a_socket_closed_on_purpose_reports_no_loss(history):
    """TCPTransport (also the base of the secure session): the owner's connection-lost callback - _tunnel_lost
    for a tunnel - is called exactly once for a connection that was up and got lost (the socket closed and
    forgotten first), and never for the connection_lost asyncio delivers after stop() - a user disconnect -
    nor for a second report or a transport that never connected."""
    tr = _TCPTransport(("192.168.1.2", 3671), connection_lost_cb=LostCallback())
    protocol = _TCPTransport.TCPTransportFactory(data_received_callback=tr.data_received_callback, connection_lost_callback=tr._connection_lost)
    if history != "never_connected":
        tr.transport = AsyncioSocket()
    if history == "stopped_then_lost":
        tr.stop()
        assert ghost("T") == ["socket_close"] and tr.transport is None
    protocol.connection_lost(None)
    if history == "lost_twice":
        protocol.connection_lost(None)
    if history in ("lost", "lost_twice"):
        assert ghost("T") == ["socket_close", "loss_reported"]
    elif history == "stopped_then_lost":
        assert ghost("T") == ["socket_close"]
    else:
        assert ghost("T") == []
    assert tr.transport is None
