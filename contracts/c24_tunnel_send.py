"""C24 - Outgoing tunnel frames are sequenced and confirmed only by their own ACK."""

import asyncio
import warnings

import xknx.io.tunnel as tunnel_mod
from contracts.world import FakeTimeout, World
from pyvc.api import Bool, Bytes, Choice, Const, EnumOf, Int, Obj, assume, ghost, lemma, nondet, run
from xknx.cemi import CEMIFrame
from xknx.exceptions import CommunicationError, RequestResponseError, TunnellingAckError
from xknx.io.request_response import Tunnelling
from xknx.io.tunnel import SecureTunnel, TCPTunnel, UDPTunnel, _Tunnel
from xknx.knxip import HPAI, ErrorCode, KNXIPFrame, KNXIPHeader, KNXIPServiceType, TunnellingAck, TunnellingRequest

warnings.filterwarnings("ignore", message="coroutine .* was never awaited")

RAW = b"\\x11\\x00\\xbc\\xe0\\x00\\x00\\x08\\x01\\x01\\x00\\x81"


def _to_knx(self):
    return RAW


class Lock:
    async def __aenter__(self):
        ghost("T").append("lock")

    async def __aexit__(self, exc_type, exc, tb):
        ghost("T").append("unlock")
        return False


class RecTransport:
    def send(self, frame, addr=None):
        ghost("T").append(("send", frame))

    def register_callback(self, cb, services):
        ghost("T").append(("register", services))
        return cb

    def unregister_callback(self, cb):
        ghost("T").append("unregister")


class ReconnectTask:
    """The reconnect task (C25): awaiting it ends after a new connection was established - sequence
    counter 0 again (_tunnel_established), a new channel - or it was cancelled."""

    def __init__(self, tunnel):
        self.tunnel = tunnel

    async def __pyvc_await__(self):
        ghost("T").append("await_reconnect")
        if nondet(2):
            raise asyncio.CancelledError()
        self.tunnel.sequence_number = 0
        self.tunnel.communication_channel = ghost("new_channel")[-1]
        self.tunnel._reconnect_task = None

    def __await__(self):
        return self.__pyvc_await__().__await__()


def _tunnel_lost(self):
    ghost("T").append("tunnel_lost")
    if self.auto_reconnect and self._reconnect_task is None:
        self._reconnect_task = ReconnectTask(self)


async def _send_tunnelling_request_udp(self, frame):
    """Contract of UDPTunnel._send_tunnelling_request (Tunnelling.request, lemma below): returns after the
    frame's own ACK arrived, or TunnellingAckError."""
    ghost("T").append(("request", frame.communication_channel_id, frame.sequence_counter, frame.raw_cemi))
    if nondet(2):
        raise TunnellingAckError("no ack")


COMMON = dict(
    xknx=Obj(World),
    auto_reconnect=Bool(),
    communication_channel=Choice(None, Int(0, 255)),
    sequence_number=Int(0, 255),
    _reconnect_task=None,
    _send_lock=Obj(Lock),
    _data_endpoint_addr=None,
    transport=Const(RecTransport()),
)
CEMI = Obj(CEMIFrame, code=None, info=None, data=None)


@lemma("C24", family=[dict(cls=c) for c in ("TCPTunnel", "SecureTunnel")], dynamic_params=lambda fixed: dict(t=Obj({"TCPTunnel": TCPTunnel, "SecureTunnel": SecureTunnel}[fixed["cls"]], **COMMON)), params=dict(cemi=CEMI), stubs=[(CEMIFrame, "to_knx", _to_knx)])
def tcp_send_carries_the_next_counter(cls, t, cemi):
    """TCP / Secure send_cemi: under the send lock exactly one TunnellingRequest leaves, carrying the open
    channel, the current counter and the cEMI octets; afterwards the counter is the next one modulo 256
    (also when nothing could be sent)."""
    ch, seq = t.communication_channel, t.sequence_number
    err = False
    try:
        run(t.send_cemi(cemi))
    except CommunicationError:
        err = True
    tr = ghost("T")
    assert tr[0] == "lock" and tr[-1] == "unlock"
    assert t.sequence_number == (seq + 1) % 256
    sends = [x[1] for x in tr if isinstance(x, tuple) and x[0] == "send"]
    if ch is None:
        assert err and sends == []
    else:
        assert not err and len(sends) == 1
        b = sends[0].body
        assert isinstance(b, TunnellingRequest) and b.communication_channel_id == ch and b.sequence_counter == seq and b.raw_cemi == RAW


class RecHeartbeat:
    def start(self):
        ghost("T").append("hb_start")


class RecCM:
    def connection_state_changed(self, state, connection_type=None):
        ghost("T").append(("state", state))


class ConnTransport(RecTransport):
    async def connect(self):
        ghost("T").append("transport_connect")

    def getsockname(self):
        return ("192.168.1.5", 50000)

    def stop(self):
        ghost("T").append("transport_stop")


async def _connect_request(self):
    ghost("T").append("connect_request")
    self.communication_channel = ghost("new_channel")[-1]


class Seq:
    def reset(self):
        ghost("T").append("incoming_reset")


def _connect_spec(cls):
    extra = dict(_invalid_sequence_number_reconnect_task=None, _sequence=Const(Seq()), route_back=Bool()) if cls is UDPTunnel else {}
    common = dict(COMMON)
    common["transport"] = Const(ConnTransport())
    common["xknx"] = Obj(World, connection_manager=Const(RecCM()))
    return Obj(cls, _heartbeat=Const(RecHeartbeat()), local_hpai=None, **extra, **common)


@lemma("C24", family=[dict(cls=c) for c in ("TCPTunnel", "SecureTunnel", "UDPTunnel")], dynamic_params=lambda fixed: dict(t=_connect_spec({"TCPTunnel": TCPTunnel, "SecureTunnel": SecureTunnel, "UDPTunnel": UDPTunnel}[fixed["cls"]])), params=dict(new_channel=Int(0, 255)), stubs=[(_Tunnel, "_connect_request", _connect_request)])
def counter_restarts_at_zero_on_every_connection(cls, t, new_channel):
    """connect() over the real setup_tunnel / _tunnel_established of each tunnel class (UDP with and
    without route-back), from any previous counter value: once the ConnectRequest succeeded the outgoing
    counter is 0 - wherever in the connect sequence the code resets it."""
    ghost("new_channel").append(new_channel)
    lock = t._send_lock
    run(t.connect())
    assert t.sequence_number == 0 and t.communication_channel == new_channel
    assert "hb_start" in ghost("T")
    # one lock for the life of the tunnel object: a sender that is waiting for the reconnect holds it,
    # and later senders must queue behind it ("only one request awaits acknowledgement at a time")
    assert t._send_lock is lock


@lemma("C24", family=[dict(cls=c) for c in ("TCPTunnel", "SecureTunnel")], dynamic_params=lambda fixed: dict(t=Obj({"TCPTunnel": TCPTunnel, "SecureTunnel": SecureTunnel}[fixed["cls"]], **COMMON)), params=dict(cemi=CEMI, new_channel=Int(0, 255)), stubs=[(CEMIFrame, "to_knx", _to_knx)])
def a_frame_queued_during_a_reconnect_waits_for_it(cls, t, cemi, new_channel):
    """send_cemi while a reconnect is registered: inside the send lock the sender first waits for the end
    of the reconnect and only then builds its request - with the channel and the counter of the new
    connection (0), never with the stale ones; if the reconnect was cancelled the frame goes out on
    whatever connection state is left (refused when there is no channel)."""
    ghost("new_channel").append(new_channel)
    t._reconnect_task = ReconnectTask(t)
    old_ch, old_seq = t.communication_channel, t.sequence_number
    err = False
    try:
        run(t.send_cemi(cemi))
    except CommunicationError:
        err = True
    tr = ghost("T")
    assert tr[0] == "lock" and tr[1] == "await_reconnect" and tr[-1] == "unlock"
    sends = [x[1] for x in tr if isinstance(x, tuple) and x[0] == "send"]
    if t._reconnect_task is None:
        # the reconnect completed: new connection
        assert not err and len(sends) == 1
        assert sends[0].body.communication_channel_id == new_channel and sends[0].body.sequence_counter == 0
        assert t.sequence_number == 1
    else:
        # cancelled: nothing changed meanwhile
        if old_ch is None:
            assert err and sends == []
        else:
            assert len(sends) == 1 and sends[0].body.communication_channel_id == old_ch and sends[0].body.sequence_counter == old_seq


UDP = Obj(UDPTunnel, _invalid_sequence_number_reconnect_task=None, _sequence=None, route_back=True, **COMMON)


@lemma("C24", params=dict(t=UDP, cemi=CEMI, new_channel=Int(0, 255)), stubs=[(CEMIFrame, "to_knx", _to_knx), (UDPTunnel, "_send_tunnelling_request", _send_tunnelling_request_udp), (_Tunnel, "_tunnel_lost", _tunnel_lost)])
def udp_send_repeats_once_then_reconnects(t, cemi, new_channel):
    """UDP send_cemi, any ACK history: under the send lock (one request awaits its ACK at a time) the frame
    is requested once, repeated at most once with the same channel and counter, and only then - after
    _tunnel_lost and the end of the reconnect - sent a third time on the new connection with counter 0;
    it succeeds only if one of these requests was acknowledged; afterwards the counter is the next one
    after the counter last used."""
    ghost("new_channel").append(new_channel)
    ch, seq = t.communication_channel, t.sequence_number
    ok = True
    try:
        run(t.send_cemi(cemi))
    except CommunicationError:
        ok = False
    tr = ghost("T")
    assert tr[0] == "lock" and tr[-1] == "unlock" and tr.count("lock") == 1
    reqs = [x for x in tr if isinstance(x, tuple) and x[0] == "request"]
    assert len(reqs) <= 3
    if ch is None:
        assert not ok and reqs == []
        return
    before = reqs[:2] if "await_reconnect" in tr else reqs
    assert 1 <= len(before) <= 2
    for r in before:
        assert r == ("request", ch, seq, RAW)
    if "await_reconnect" in tr:
        i = tr.index("await_reconnect")
        assert len([x for x in tr[:i] if isinstance(x, tuple) and x[0] == "request"]) == 2
        assert "tunnel_lost" in tr[:i]
        after = reqs[2:]
        assert len(after) <= 1
        if after:
            assert after[0] == ("request", new_channel, 0, RAW) and t.sequence_number == 1
    else:
        assert len(reqs) <= 2
        assert t.sequence_number == (seq + 1) % 256
    if len(reqs) == 2 and "await_reconnect" not in tr and not ok:
        assert "tunnel_lost" in tr and t._reconnect_task is None and not t.auto_reconnect


class BusyLock:
    """The send lock while another frame is in flight: the caller queues for it, and the caller's task is
    cancelled there (xknx.stop(), a timeout around the device call) before it ever gets the lock."""

    async def __aenter__(self):
        ghost("T").append("queued")
        raise asyncio.CancelledError()

    async def __aexit__(self, exc_type, exc, tb):
        ghost("T").append("unlock")
        return False


def _queued_spec(cls):
    fields = dict(COMMON)
    fields["_send_lock"] = Obj(BusyLock)
    if cls is UDPTunnel:
        fields.update(_invalid_sequence_number_reconnect_task=None, _sequence=None, route_back=True)
    return Obj(cls, **fields)


@lemma("C24", family=[dict(cls=c) for c in ("TCPTunnel", "SecureTunnel", "UDPTunnel")], dynamic_params=lambda fixed: dict(t=_queued_spec({"TCPTunnel": TCPTunnel, "SecureTunnel": SecureTunnel, "UDPTunnel": UDPTunnel}[fixed["cls"]])), params=dict(cemi=CEMI), stubs=[(CEMIFrame, "to_knx", _to_knx), (UDPTunnel, "_send_tunnelling_request", _send_tunnelling_request_udp), (_Tunnel, "_tunnel_lost", _tunnel_lost)])
def a_sender_cancelled_while_queued_uses_no_counter(cls, t, cemi):
    """A send_cemi call cancelled while it still waits for the send lock has sent nothing and leaves the
    counter alone - it belongs to the frame in flight, whose repetition must carry the same counter, and
    the next new frame must carry the next one."""
    seq, ch = t.sequence_number, t.communication_channel
    cancelled = False
    try:
        run(t.send_cemi(cemi))
    except asyncio.CancelledError:
        cancelled = True
    assert cancelled
    assert ghost("T") == ["queued"]
    assert t.sequence_number == seq and t.communication_channel == ch


# ------------------------------------------------------------------ the ACK that confirms a request


class Event:
    """asyncio.Event stand-in. wait() hands control to the environment: frames arrive at the registered
    callback (ghost 'incoming') until the event is set or the timeout fires."""

    def __init__(self):
        self.flag = False

    def set(self):
        self.flag = True

    def is_set(self):
        return self.flag

    async def wait(self):
        rr = ghost("rr")[-1]
        incoming = ghost("incoming")
        while not self.flag:
            if len(incoming) == 0:
                raise TimeoutError()
            rr._response_rec_callback(incoming.pop(0), HPAI(), rr._transport)


ACK = Obj(TunnellingAck, communication_channel_id=Int(0, 255), sequence_counter=Int(0, 255), status_code=EnumOf(ErrorCode))


def frame_of(body, service):
    return Obj(KNXIPFrame, header=Obj(KNXIPHeader, service_type_ident=service, total_length=0), body=body)


ACK_FRAME = frame_of(ACK, Const(KNXIPServiceType.TUNNELLING_ACK))
REQUEST = Obj(TunnellingRequest, communication_channel_id=Int(0, 255), sequence_counter=Int(0, 255), raw_cemi=Const(RAW))
RR = Obj(Tunnelling, data_endpoint_addr=None, tunnelling_request=REQUEST, _transport=Const(RecTransport()), _response_received_event=Obj(Event, flag=False), timeout_in_seconds=1.0, _response=None, _error_code=None)


@lemma("C24", params=dict(rr=RR, f1=ACK_FRAME, f2=ACK_FRAME, n=Choice(0, 1, 2)), stubs=[(asyncio, "timeout", FakeTimeout)])
def a_request_is_confirmed_only_by_its_own_ack(rr, f1, f2, n):
    """Tunnelling(...).request() over the real RequestResponse.request / _response_rec_callback, any
    sequence of up to two TunnellingAck frames arriving while it waits: it returns only after an ACK with
    the request's channel id, the request's sequence counter and status E_NO_ERROR; acknowledgements of
    other frames (late ACK of the previous frame, another channel) do not confirm it; every other history
    ends in RequestResponseError; the request frame is sent once and the callback is always removed."""
    ghost("rr").append(rr)
    ghost("incoming").extend([f1, f2][:n])
    req = rr.tunnelling_request
    r = None
    try:
        r = run(rr.request())
    except RequestResponseError:
        pass
    tr = ghost("T")
    sends = [x[1] for x in tr if isinstance(x, tuple) and x[0] == "send"]
    assert len(sends) == 1 and sends[0].body is req
    assert tr[-1] == "unregister"
    if r is not None:
        assert isinstance(r, TunnellingAck)
        assert r.communication_channel_id == req.communication_channel_id
        assert r.sequence_counter == req.sequence_counter
        assert r.status_code == ErrorCode.E_NO_ERROR



# ------------------------------------------------------------------ "an acknowledgement with no error status": the status is the octet received
# The send lemmas take a parsed TunnellingAck. The parser owes the status of the wire - an acknowledgement whose
# status octet it does not know must not come out as E_NO_ERROR.

from xknx.exceptions import CouldNotParseKNXIP as _CouldNotParseKNXIP  # noqa: E402
from xknx.knxip import TunnellingAck as _TunnellingAck  # noqa: E402
from pyvc.api import Bytes as _Bytes  # noqa: E402


@lemma("C24", params=dict(raw=_Bytes(max_len=8)))
def a_parsed_acknowledgement_carries_the_status_of_its_octets(raw):
    """TunnellingAck.from_knx, any octets: refused (C20: an unknown status code raises ValueError, which the frame
    parser turns into CouldNotParseKNXIP - the frame is dropped and the request times out), or channel, counter and
    status are exactly octets 1, 2 and 3."""
    ack = _TunnellingAck()
    try:
        ack.from_knx(raw)
    except (_CouldNotParseKNXIP, ValueError, IndexError):
        return
    assert len(raw) == 4 and raw[0] == 4
    assert ack.communication_channel_id == raw[1] and ack.sequence_counter == raw[2] and ack.status_code.value == raw[3]

ASSUMPTIONS = [
    "asyncio is trusted behind the contract stubs: a cancelled task/future does not continue, asyncio.timeout cancels what it guards, locks are mutually exclusive, queues are FIFO, tasks switch only at awaits; interleavings inside one await are represented by 'the awaited object completes with any admissible value, times out, or the connection closes'",
    "the reconnect task re-establishes the tunnel with counter 0 and a new channel or is cancelled (C25)",
]



@lemma("C24")
def the_send_lock_is_created_once():
    """Frame condition for 'one request at a time': in the current source of the tunnel module the send
    lock attribute is assigned only in _Tunnel.__init__ - no reconnect / disconnect path replaces it."""
    from pyvc.framecheck import writers_of_attribute

    assert writers_of_attribute("_send_lock", "io/tunnel.py") == ["_Tunnel.__init__"]
