"""C30 - Secure routing accepts only authenticated, timely frames."""

import asyncio
import random

from contracts.ipsecure_common import CRYPTO_STUBS, decrypt_frame_contract, recv_super, send_super
from pyvc.api import Bool, Bytes, Choice, Const, EnumOf, Int, Obj, TupleOf, assume, ghost, lemma, nondet, run
from xknx.exceptions import IPSecureError, KNXSecureValidationError
from xknx.io.const import XKNX_SERIAL_NUMBER
from xknx.io.ip_secure import SecureGroup, SecureSequenceTimer, _IPSecureTransportLayer
from xknx.io.transport import KNXIPTransport, UDPTransport
from xknx.knxip import HPAI, KNXIPFrame, KNXIPHeader, KNXIPServiceType, RoutingIndication, SearchRequest, SecureWrapper, TimerNotify

MAX48 = (1 << 48) - 1
B16 = Bytes(length=16)
# the statement: plain frames only for discovery and self-description
PLAIN_OK = (
    KNXIPServiceType.SEARCH_REQUEST,
    KNXIPServiceType.SEARCH_REQUEST_EXTENDED,
    KNXIPServiceType.SEARCH_RESPONSE,
    KNXIPServiceType.SEARCH_RESPONSE_EXTENDED,
    KNXIPServiceType.DESCRIPTION_REQUEST,
    KNXIPServiceType.DESCRIPTION_RESPONSE,
)


class Fut:
    """asyncio.Future stand-in (set_result on a completed future raises InvalidStateError, as asyncio's)."""

    def __init__(self, done):
        self.is_done, self.value = done, None

    def done(self):
        return self.is_done

    def set_result(self, v):
        if self.is_done:
            raise asyncio.InvalidStateError("invalid state")
        self.is_done, self.value = True, v


def _mono(self):
    """SecureSequenceTimer._monotonic_ms: the loop clock reading the lemma chose for this call."""
    return ghost("mono")[-1]


def _reschedule(self, update=None):
    ghost("resched").append(update)
    self.sched_update = bool(update)


def _randbytes(n):
    return ghost("rand").pop(0)


TIMER = Obj(
    SecureSequenceTimer,
    _backbone_key=B16,
    _clock_difference=Int(-(1 << 40), 1 << 47),
    _expected_notify_handler=Choice(None, TupleOf(Bytes(length=2), Obj(Fut, is_done=Bool(), value=None))),
    sched_update=Bool(),
    timekeeper=Bool(),
    timer_authenticated=Bool(),
    latency_tolerance_ms=Int(1, 100000),
    sync_latency_tolerance_ms=Int(0, 10000),
)

MONO = Int(0, 1 << 46)
TIMER_STUBS = CRYPTO_STUBS + [(SecureSequenceTimer, "_monotonic_ms", _mono), (SecureSequenceTimer, "reschedule", _reschedule)]
WRAPPER = Obj(
    SecureWrapper,
    secure_session_id=Int(0, 0xFFFF),
    sequence_information=Bytes(length=6),
    serial_number=Bytes(length=6),
    message_tag=Bytes(length=2),
    encrypted_data=Bytes(max_len=20),
    message_authentication_code=B16,
)
NOTIFY = Obj(TimerNotify, timer_value=Int(0, MAX48), serial_number=Bytes(length=6), message_tag=Bytes(length=2), message_authentication_code=B16)


def timer_value(t, mono):
    return mono + t._clock_difference


# ------------------------------------------------------------------ the timer


@lemma("C30", params=dict(t=TIMER, w=WRAPPER, mono=MONO), stubs=TIMER_STUBS)
def wrapper_timer_validation(t, w, mono):
    """validate_secure_wrapper (called only for wrappers that verified): accepted iff the carried timer
    value is newer than local timer - latency tolerance; a value ahead of the local timer moves the local
    timer exactly to it, otherwise the timer is unchanged - it never moves backwards; a stale wrapper
    schedules an update notify (unless one is scheduled)."""
    assume(t.sync_latency_tolerance_ms <= t.latency_tolerance_ms)  # class invariant: 10 % of the latency
    ghost("mono").append(mono)
    local = timer_value(t, mono)
    cd = t._clock_difference
    sched = t.sched_update
    r = w.sequence_information
    received = int.from_bytes(r, "big")
    ok = t.validate_secure_wrapper(w)
    assert ok == (received > local - t.latency_tolerance_ms)
    if received > local:
        assert timer_value(t, mono) == received
    else:
        assert t._clock_difference == cd
    assert t._clock_difference >= cd
    if not ok and not sched:
        assert ghost("resched") == [(w.message_tag, w.serial_number)]
    if sched:
        assert ghost("resched") == []


@lemma("C30", params=dict(t=TIMER, n=NOTIFY, mono=MONO, mac_tr=B16, mac_cbc=B16), stubs=TIMER_STUBS)
def timer_notify_needs_a_valid_mac(t, n, mono, mac_tr, mac_cbc):
    """handle_timer_notify, any timer state and any notify: never raises; with a MAC that does not verify
    nothing at all changes (timer, roles, schedule, pending synchronisation); with a valid MAC the timer
    only moves forward (exactly to a newer received value), an answer to our own synchronisation request
    completes the pending future once, and roles/schedule follow KNX IP Secure 2.2.2.3.2.5."""
    assume(t.sync_latency_tolerance_ms <= t.latency_tolerance_ms)
    ghost("mono").append(mono)
    ghost("dec_out").append((b"", mac_tr))
    ghost("cbc_out").append(mac_cbc)
    cd, keeper, sched = t._clock_difference, t.timekeeper, t.sched_update
    h = t._expected_notify_handler
    fut_done = h[1].is_done if h is not None else None
    local = timer_value(t, mono)
    t.handle_timer_notify(n)
    c = ghost("crypto")
    assert len(c) == 2  # the MAC is always computed and compared - before anything else is looked at
    tb = n.timer_value.to_bytes(6, "big")
    assert c[0] == ("dec", t._backbone_key, tb + n.serial_number + n.message_tag + b"\xff\x00", n.message_authentication_code, b"")
    assert c[1] == ("cbc", t._backbone_key, bytes.fromhex("06 10 09 55 00 24"), b"", tb + n.serial_number + n.message_tag + b"\x00\x00")
    if mac_cbc != mac_tr:
        assert t._clock_difference == cd and t.timekeeper == keeper and t.sched_update == sched and ghost("resched") == []
        assert h is None or h[1].is_done == fut_done
        return
    assert t._clock_difference >= cd
    if h is not None and n.serial_number == XKNX_SERIAL_NUMBER and n.message_tag == h[0]:
        assert t._clock_difference == cd and ghost("resched") == []
        assert h[1].is_done and (fut_done or h[1].value == n.timer_value)
        return
    if n.timer_value > local:
        assert timer_value(t, mono) == n.timer_value and not t.timekeeper and ghost("resched") == [None]
    elif n.timer_value > local - t.sync_latency_tolerance_ms:
        assert t._clock_difference == cd and not t.timekeeper and ghost("resched") == [None]
    elif n.timer_value > local - t.latency_tolerance_ms:
        assert t._clock_difference == cd and t.timekeeper == keeper and ghost("resched") == []
    else:
        assert t._clock_difference == cd and t.timekeeper == keeper
        assert ghost("resched") == ([] if sched else [(n.message_tag, n.serial_number)])


@lemma("C30", params=dict(t=TIMER, mono1=MONO, mono2=MONO), stubs=TIMER_STUBS)
def outgoing_timer_values_follow_the_clock(t, mono1, mono2):
    """get_for_outgoing_secure_wrapper: the local timer (loop clock + clock difference); between two
    calls at non-decreasing clock readings it does not decrease (the receive path only ever increases the
    clock difference - lemmas above); a periodic notify is scheduled unless an update is pending."""
    assume(mono1 <= mono2)
    sched = t.sched_update
    ghost("mono").append(mono1)
    v1 = t.get_for_outgoing_secure_wrapper()
    assert v1 == mono1 + t._clock_difference
    assert ghost("resched") == ([] if sched else [None])
    ghost("mono").append(mono2)
    v2 = t.get_for_outgoing_secure_wrapper()
    assert v2 >= v1


# ------------------------------------------------------------------ the transport


class RecTimer:
    """secure_timer stand-in inside SecureGroup: the timer's own behaviour is proved above."""

    def __init__(self, authenticated, verdict, value):
        self.timer_authenticated, self.verdict, self.value = authenticated, verdict, value

    def handle_timer_notify(self, body):
        ghost("timer").append(("notify", body))

    def validate_secure_wrapper(self, wrapper):
        ghost("timer").append(("validate", wrapper))
        return self.verdict

    def get_for_outgoing_secure_wrapper(self):
        return self.value


def frame_of(body_spec, service):
    return Obj(KNXIPFrame, header=Obj(KNXIPHeader, service_type_ident=service, total_length=Int(0, 0xFFFF)), body=body_spec)


GROUP = Obj(SecureGroup, _key=B16, secure_timer=Obj(RecTimer, timer_authenticated=Bool(), verdict=Bool(), value=Int(0, MAX48 + 2)), transport=Choice(None, "open"))
IN_FRAME = Choice(
    frame_of(WRAPPER, Const(KNXIPServiceType.SECURE_WRAPPER)),
    frame_of(NOTIFY, Const(KNXIPServiceType.TIMER_NOTIFY)),
    frame_of(Const(None), EnumOf(KNXIPServiceType)),
)
INNER = frame_of(Const(None), EnumOf(KNXIPServiceType))
RECV_STUBS = [(_IPSecureTransportLayer, "decrypt_frame", decrypt_frame_contract), (KNXIPTransport, "handle_knxipframe", recv_super)]


@lemma("C30", params=dict(g=GROUP, f=IN_FRAME, inner=INNER), stubs=RECV_STUBS)
def receive_forwards_only_authenticated_timely_frames(g, f, inner):
    """SecureGroup.handle_knxipframe, any frame: never raises. TimerNotify goes to the timer only. A
    wrapper is forwarded (as its inner frame) only if the timer is synchronised, decrypt_frame verified it
    AND the timer accepted its value - the timer is consulted only after verification, so unauthenticated
    frames cannot move it. Plain frames are forwarded only for discovery / self-description services."""
    ghost("inner").append(inner)
    g.handle_knxipframe(f, HPAI())
    passed, timer = ghost("passed_on"), ghost("timer")
    if isinstance(f.body, TimerNotify):
        assert passed == [] and timer == [("notify", f.body)] and ghost("decrypt_calls") == []
    elif isinstance(f.body, SecureWrapper):
        if not g.secure_timer.timer_authenticated:
            assert passed == [] and timer == [] and ghost("decrypt_calls") == []
        elif passed:
            assert passed == [inner] and timer == [("validate", f.body)] and g.secure_timer.verdict and ghost("decrypt_calls") == [f]
        else:
            assert timer == [] or not g.secure_timer.verdict
        if timer:
            assert ghost("decrypt_calls") == [f]
    else:
        assert timer == [] and ghost("decrypt_calls") == []
        if f.header.service_type_ident in PLAIN_OK:
            assert passed == [f]
        else:
            assert passed == []


def _plain_to_knx(self):
    return ghost("plain")[-1]


SEND_STUBS = CRYPTO_STUBS + [(UDPTransport, "send", send_super), (KNXIPFrame, "to_knx", _plain_to_knx), (random, "randbytes", _randbytes)]


@lemma("C30", params=dict(g=GROUP, plain=Bytes(max_len=20), mac_cbc=B16, enc=Bytes(max_len=20), mac=B16, tag=Bytes(length=2)), stubs=SEND_STUBS)
def send_always_wraps_with_the_timer_value(g, plain, mac_cbc, enc, mac, tag):
    """SecureGroup.send: every frame leaves as exactly one SecureWrapper of session 0 whose sequence
    information is the timer value for outgoing wrappers; beyond 48 bit the send is refused."""
    ghost("plain").append(plain)
    ghost("cbc_out").append(mac_cbc)
    ghost("enc_out").append((enc, mac))
    ghost("rand").append(tag)
    f = KNXIPFrame.init_from_body(RoutingIndication(raw_cemi=b"\x29\x00"))
    err = False
    try:
        g.send(f)
    except IPSecureError:
        err = True
    sent = ghost("sent")
    v = g.secure_timer.value
    if v > MAX48:
        assert err and sent == []
        return
    assert not err and len(sent) == 1
    w = sent[0].body
    assert isinstance(w, SecureWrapper) and w.secure_session_id == 0 and w.serial_number == XKNX_SERIAL_NUMBER
    assert int.from_bytes(w.sequence_information, "big") == v and w.message_tag == tag
    assert w.encrypted_data == enc and w.message_authentication_code == mac


ASSUMPTIONS = [
    "AES primitives uninterpreted (arbitrary octets); KNXIPFrame.from_knx/to_knx per their own contracts (C20/C21)",
    "loop.time() is monotonic; call_later scheduling (reschedule) is a recording stub: notify delays are not verified",
]


# ------------------------------------------------------------------ what we send ourselves: timer notifies


def _rec_transport_send(frame, addr):
    ghost("notifies").append(frame)


NOTIFY_TIMER = Obj(
    SecureSequenceTimer,
    _backbone_key=B16,
    _clock_difference=Int(0, 1 << 46),
    _expected_notify_handler=None,
    _transport_send=Const(_rec_transport_send),
    sched_update=Bool(),
    timekeeper=Bool(),
    timer_authenticated=Bool(),
    latency_tolerance_ms=Int(1, 100000),
    sync_latency_tolerance_ms=Int(0, 10000),
)


@lemma("C30", params=dict(t=NOTIFY_TIMER, mono=MONO, tag=Choice(None, Bytes(length=2)), rtag=Bytes(length=2), mac_cbc=B16, mac=B16), stubs=TIMER_STUBS + [(random, "randbytes", _randbytes)])
def own_timer_notifies_carry_a_mac_over_the_same_blocks(t, mono, tag, rtag, mac_cbc, mac):
    """send_timer_notify: one TimerNotify carrying the current timer value, our serial number, the given
    (or a random) message tag and a MAC computed over exactly the blocks verify_timer_notify_mac uses on
    the receiving side (B0 = timer | serial | tag | 00 00, Ctr0 = ... | ff 00, header 06 10 09 55 00 24)
    - so notifies we send verify at other devices, and ours at us."""
    assume(mono + t._clock_difference <= MAX48)
    ghost("mono").append(mono)
    ghost("rand").append(rtag)
    ghost("cbc_out").append(mac_cbc)
    ghost("enc_out").append((b"", mac))
    if tag is None:
        t.send_timer_notify()
    else:
        t.send_timer_notify(message_tag=tag)
    n = ghost("notifies")
    assert len(n) == 1 and isinstance(n[0].body, TimerNotify)
    b = n[0].body
    used = tag if tag else rtag
    assert b.timer_value == mono + t._clock_difference and b.serial_number == XKNX_SERIAL_NUMBER and b.message_tag == used
    assert b.message_authentication_code == mac
    tb = b.timer_value.to_bytes(6, "big")
    c = ghost("crypto")
    assert c[0] == ("cbc", t._backbone_key, bytes.fromhex("06 10 09 55 00 24"), b"", tb + XKNX_SERIAL_NUMBER + used + b"\x00\x00")
    assert c[1] == ("enc", t._backbone_key, tb + XKNX_SERIAL_NUMBER + used + b"\xff\x00", mac_cbc, b"")


class SyncFut:
    """The synchronisation future: awaiting it ends with the timer value handle_timer_notify completed it
    with (only after a verified TimerNotify - lemma above), with the timeout, or with cancellation (stop)."""

    def __init__(self):
        self.is_done, self.value = False, None

    def done(self):
        return self.is_done

    def set_result(self, v):
        if self.is_done:
            raise asyncio.InvalidStateError("invalid state")
        self.is_done, self.value = True, v

    def cancel(self):
        self.is_done = True

    async def __pyvc_await__(self):
        k = ghost("sync_outcome")[-1]
        if k == "answered":
            return ghost("sync_value")[-1]
        if k == "timeout":
            raise TimeoutError()
        raise asyncio.CancelledError()

    def __await__(self):
        return self.__pyvc_await__().__await__()


class SyncLoop:
    def create_future(self):
        f = SyncFut()
        ghost("futures").append(f)
        return f


def _rec_send_timer_notify(self, message_tag=None, serial_number=XKNX_SERIAL_NUMBER):
    ghost("notify_sent").append((message_tag, self._expected_notify_handler))


from contracts.world import FakeTimeout  # noqa: E402

SYNC_TIMER = Obj(
    SecureSequenceTimer,
    _backbone_key=B16,
    _clock_difference=Int(-(1 << 40), 1 << 46),
    _expected_notify_handler=None,
    _loop=Const(SyncLoop()),
    sched_update=Bool(),
    timekeeper=Const(False),
    timer_authenticated=Const(False),
    latency_tolerance_ms=Int(1, 100000),
    sync_latency_tolerance_ms=Int(0, 10000),
    max_delay_time_follower_update_notify=1.3,
)


@lemma("C30", params=dict(t=SYNC_TIMER, mono=MONO, outcome=Choice("answered", "timeout", "cancelled"), value=Int(0, MAX48), rtag=Bytes(length=2)), stubs=TIMER_STUBS + [(random, "randbytes", _randbytes), (asyncio, "timeout", FakeTimeout), (SecureSequenceTimer, "send_timer_notify", _rec_send_timer_notify)], float_mode="real")
def synchronisation_takes_only_the_verified_answer(t, mono, outcome, value, rtag):
    """synchronize(): one TimerNotify with a fresh random tag goes out while exactly that tag is registered
    as expected; if the answer arrives (a verified notify carrying our serial and that tag - see above) the
    timer is set to its value; on timeout we become time keeper with our own timer; only then wrappers are
    accepted (timer_authenticated) and the periodic notify is scheduled; a cancelled synchronisation
    (stop) authenticates nothing; the expectation is always cleared."""
    ghost("mono").append(mono)
    ghost("rand").append(rtag)
    ghost("sync_outcome").append(outcome)
    ghost("sync_value").append(value)
    cd = t._clock_difference
    run(t.synchronize())
    sent = ghost("notify_sent")
    assert len(sent) == 1 and sent[0][0] == rtag and sent[0][1] is not None and sent[0][1][0] == rtag
    assert t._expected_notify_handler is None
    if outcome == "answered":
        assert timer_value(t, mono) == value and t.timer_authenticated and not t.timekeeper and ghost("resched") == [None]
    elif outcome == "timeout":
        assert t._clock_difference == cd and t.timer_authenticated and t.timekeeper and ghost("resched") == [None]
    else:
        assert t._clock_difference == cd and not t.timer_authenticated and ghost("resched") == []


# ------------------------------------------------------------------ the time base behind the _monotonic_ms contract stub

from pyvc.api import Float  # noqa: E402


class ClockLoop:
    """The event loop's clock: time() in seconds (a real number)."""

    def time(self):
        return ghost("loop_time")[0]


@lemma("C30", params=dict(t=Obj(SecureSequenceTimer, _loop=Obj(ClockLoop)), now=Float(lo=0.0, hi=1.0e9)), float_mode="real")
def the_timer_counts_whole_milliseconds_of_the_loop_clock(t, now):
    """_monotonic_ms (every other timer lemma takes its value as given): the loop clock in milliseconds,
    rounded down - never more than a millisecond behind the clock, never ahead of it; so 'timely' is judged
    with millisecond resolution."""
    ghost("loop_time").append(now)
    ms = t._monotonic_ms()
    assert isinstance(ms, int)
    assert ms <= now * 1000 < ms + 1


# ------------------------------------------------------------------ the shape of received secure bodies
# The lemmas above take TimerNotify / SecureWrapper bodies whose fields have their fixed sizes (NOTIFY, WRAPPER):
# the counter blocks fed to AES are built from them and a block of another size makes the cipher raise. The
# parser that builds the bodies from a datagram owes exactly that.

from xknx.exceptions import CouldNotParseKNXIP as _CouldNotParseKNXIP  # noqa: E402


@lemma("C30", family=[dict(B=TimerNotify), dict(B=SecureWrapper)], params=dict(raw=Bytes(max_len=80)))
def a_parsed_secure_body_has_its_fixed_field_sizes(B, raw):
    """TimerNotify.from_knx / SecureWrapper.from_knx on any octets (0 octets included): CouldNotParseKNXIP, or a
    body with a 6-octet serial number, 2-octet tag and 16-octet MAC (and a 6-octet sequence field / 48-bit
    timer value) - the sizes the receive path builds its AES blocks from."""
    body = B()
    try:
        body.from_knx(raw)
    except _CouldNotParseKNXIP:
        return
    assert len(body.serial_number) == 6 and len(body.message_tag) == 2 and len(body.message_authentication_code) == 16
    if B is TimerNotify:
        assert len(raw) == 30 and 0 <= body.timer_value <= MAX48
    else:
        assert len(body.sequence_information) == 6 and len(body.encrypted_data) == len(raw) - 32 and 0 <= body.secure_session_id <= 0xFFFF
