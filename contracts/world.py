"""Plain stand-ins for the big runtime objects (XKNX, interfaces) used as attribute holders in specs."""


class World:
    """Attribute holder standing for an XKNX instance (only the attributes a spec sets exist)."""


class Holder:
    """Generic attribute holder."""


class RecTransport:
    """Transport stand-in: records what is sent (ghost list 'sent'); contract of transport.send here:
    no effect on the connection object, does not raise."""

    def send(self, knxipframe, addr=None):
        from pyvc.api import ghost

        ghost("sent").append(knxipframe)


class RecCallback:
    """A user/owner callback that records its argument (ghost list `name`) and does not raise."""

    def __init__(self, name):
        self.name = name

    def __call__(self, *args):
        from pyvc.api import ghost

        ghost(self.name).append(args[0] if len(args) == 1 else args)


class RecQueue:
    """xknx.telegrams stand-in: put_nowait records (ghost 'queue')."""

    def put_nowait(self, telegram):
        from pyvc.api import ghost

        ghost("queue").append(telegram)


class RecManagement:
    """xknx.management stand-in: process records (ghost 'mgmt'); its own behaviour is C43."""

    def process(self, telegram):
        from pyvc.api import ghost

        ghost("mgmt").append(telegram)


class RecTelegramQueue:
    """xknx.telegram_queue stand-in: key-issue reports are recorded (ghost 'keyissue')."""

    def received_data_secure_group_key_issue(self, telegram):
        from pyvc.api import ghost

        ghost("keyissue").append(telegram)


class RecEvent:
    """asyncio.Event stand-in for synchronous code: set/clear are recorded (ghost 'event')."""

    def set(self):
        from pyvc.api import ghost

        ghost("event").append("set")

    def clear(self):
        from pyvc.api import ghost

        ghost("event").append("clear")


class FakeTimeout:
    """asyncio.timeout(delay) stand-in: an async context manager that records the delay; the awaits
    inside decide themselves (nondeterministically) whether they time out."""

    def __init__(self, delay):
        from pyvc.api import ghost

        ghost("timeouts").append(delay)

    async def __aenter__(self):
        return self

    async def __aexit__(self, exc_type, exc, tb):
        return False
