"""Plain stand-ins for the big runtime objects (XKNX, interfaces) used as attribute holders in specs."""


class World:
    """Attribute holder standing for an XKNX instance (only the attributes a spec sets exist)."""


class Holder:
    """Generic attribute holder."""


class RecTransport:
    """Transport stand-in: records what is sent (ghost list 'sent'); contract of transport.send here:
    no effect on the connection object, does not raise."""

    def send(self, knxipframe, addr=None):
        from pyvc.api import ghost

        ghost("sent").append(knxipframe)


class RecCallback:
    """A user/owner callback that records its argument (ghost list `name`) and does not raise."""

    def __init__(self, name):
        self.name = name

    def __call__(self, *args):
        from pyvc.api import ghost

        ghost(self.name).append(args[0] if len(args) == 1 else args)
