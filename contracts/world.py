"""Plain stand-ins for the big runtime objects (XKNX, interfaces) used as attribute holders in specs."""


class World:
    """Attribute holder standing for an XKNX instance (only the attributes a spec sets exist)."""


class Holder:
    """Generic attribute holder."""
