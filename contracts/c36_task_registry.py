"""C36 - Registered tasks follow connection state and never run twice."""

import asyncio
import warnings

from contracts.world import Holder, World
from pyvc.api import Bool, Choice, Const, EnumOf, Float, Int, ListOfAny, LoopSpec, Obj, assume, ghost, lemma, nondet, run
from xknx.core import XknxConnectionState
from xknx.core.task_registry import Task, TaskRegistry


warnings.filterwarnings("ignore", message="coroutine .* was never awaited")  # handles are fakes: the coroutine object is only recorded


class FakeTask:
    """asyncio.Task stand-in (the event loop is not modelled): a handle that is live until cancelled."""

    def __init__(self, coro, name):
        self.coro = coro
        self.name = name
        self.cancelled = False

    def cancel(self):
        self.cancelled = True
        ghost("cancelled").append(self)

    def done(self):
        return self.cancelled


def _create_task(coro, name=None):
    """Contract of asyncio.create_task: a fresh live handle (recorded in ghost 'created')."""
    t = FakeTask(coro, name)
    ghost("created").append(t)
    return t


def _target():
    ghost("T").append("target")


HANDLE = Obj(FakeTask, coro=None, name="old", cancelled=False)
XK = Obj(World)
TASK = Obj(
    Task,
    name="t",
    target=Const(_target),
    restart_after_reconnect=Bool(),
    wait_before_start=Choice(0, Float(lo=0.001, hi=1000.0)),
    wait_for_connection=Bool(),
    repeat_after=Choice(None, Float(lo=0.0, hi=1000.0)),
    _task=Choice(None, HANDLE),
    xknx=XK,
)
STUBS = [(asyncio, "create_task", _create_task)]


# ---------------------------------------------------------------- Task transitions (one task, any options)


@lemma("C36", params=dict(t=TASK), stubs=STUBS)
def connection_loss_stops_a_restarting_task(t):
    """connection_lost(): a task registered to restart after reconnection has no live instance
    afterwards and nothing is started; any other task is left alone."""
    old = t._task
    t.connection_lost()
    assert ghost("created") == []
    if t.restart_after_reconnect:
        assert t._task is None
        assert old is None or old.cancelled
    else:
        assert t._task is old
        assert old is None or not old.cancelled


@lemma("C36", params=dict(t=TASK), stubs=STUBS)
def reconnection_starts_exactly_one_instance(t):
    """reconnected(): a restarting task gets exactly one new instance, the previous one (if any) is
    cancelled first - never two live instances; other tasks are left alone."""
    old = t._task
    t.reconnected()
    if t.restart_after_reconnect:
        assert len(ghost("created")) == 1
        new = ghost("created")[0]
        assert t._task is new and not new.cancelled and new.name == t.name
        assert old is None or old.cancelled
    else:
        assert ghost("created") == []
        assert t._task is old
        assert old is None or not old.cancelled


@lemma("C36", params=dict(t=TASK), stubs=STUBS)
def cancel_and_restart(t):
    """cancel(): the live instance is cancelled and forgotten. restart(): cancel, then one new instance."""
    old = t._task
    t.cancel()
    assert t._task is None and (old is None or old.cancelled) and ghost("created") == []
    assert t.done()
    t.restart()
    assert len(ghost("created")) == 1 and t._task is ghost("created")[0] and not t._task.cancelled


@lemma("C36", params=dict(t=Obj(Task, name="t", target=Const(_target), restart_after_reconnect=Bool(), wait_before_start=0, wait_for_connection=Bool(), repeat_after=None, _task=Choice(None, HANDLE), xknx=None)), stubs=STUBS)
def unregistered_task_cannot_start(t):
    """_start() of a task that is not registered raises and creates nothing."""
    try:
        t._start()
        assert False
    except RuntimeError:
        pass
    assert ghost("created") == []


# ---------------------------------------------------------------- the coroutine a live instance runs


class ConnEvent:
    """connection_manager.connected stand-in: is_set() answers either way; wait() returns once connected."""

    def is_set(self):
        r = nondet(2) == 1
        ghost("T").append(("is_set", r))
        return r

    async def wait(self):
        ghost("T").append("waited")


async def _sleep(delay, result=None):
    ghost("T").append(("sleep", delay))


RUNNING = Obj(
    Task,
    name="t",
    target=Const(_target),
    restart_after_reconnect=Bool(),
    wait_before_start=Choice(0, Float(lo=0.001, hi=1000.0)),
    wait_for_connection=Bool(),
    repeat_after=None,
    _task=None,
    xknx=Obj(World, connection_manager=Obj(Holder, connected=Const(ConnEvent()))),
)


@lemma("C36", params=dict(t=RUNNING), stubs=[(asyncio, "sleep", _sleep)])
def instance_waits_for_connection_and_runs_target_once(t):
    """One run of the instance coroutine (no repetition): the target runs at most once; with
    wait_for_connection it runs only after the connection was seen established (is_set() true or
    wait() returned); a restarting task that finds no connection ends without running the target
    (reconnected() will start it again)."""
    run(t._start_internal())
    tr = ghost("T")
    assert tr.count("target") <= 1
    if t.wait_for_connection:
        if ("is_set", False) in tr and t.restart_after_reconnect:
            assert "target" not in tr and "waited" not in tr
        else:
            assert tr[-1] == "target"
            assert tr[-2] == "waited" or tr[-2] == ("is_set", True)
    else:
        assert tr[-1] == "target" and tr.count("target") == 1
    if t.wait_before_start:
        assert tr[0] == ("sleep", t.wait_before_start)


# ---------------------------------------------------------------- registry operations

def _task(i):
    return Obj(
        Task,
        name="t%d" % i,
        target=Const(_target),
        restart_after_reconnect=Bool(),
        wait_before_start=0,
        wait_for_connection=Bool(),
        repeat_after=None,
        _task=Choice(None, Obj(FakeTask, coro=None, name="t%d" % i, cancelled=False)),
        xknx=XK,
    )


def live_handles(tasks, handles):
    """Registry invariant: every live handle is the current instance of exactly one registered task."""
    for h in handles:
        if not h.cancelled:
            if len([t for t in tasks if t._task is h]) != 1:
                return False
    return True


@lemma("C36", params=dict(a=_task(0), b=_task(1), c=_task(2), n=Choice(0, 1, 2, 3), which=Choice(0, 1, 2), registered=Bool(), op=Choice("start", "remove")), stubs=STUBS)
def start_replaces_and_remove_cancels(a, b, c, n, which, registered, op):
    """Registry with up to three other tasks (any options, live or not): start_task(t) leaves exactly one
    live instance of t (a previous one is cancelled), remove_task(t) leaves none and unregisters it;
    the other tasks' instances are untouched; afterwards every live handle belongs to exactly one
    registered task."""
    xk = a.xknx
    reg = TaskRegistry(xk)
    others = [a, b, c][:n]
    t = [a, b, c][which]
    if registered:
        assume(which < n)
    else:
        assume(which >= n)
        assume(t._task is None)  # invariant: an unregistered task has no live instance
        t.xknx = None
    for x in others:
        reg.tasks.add(x)
    before = {id(x): x._task for x in [a, b, c]}
    handles = [x._task for x in others if x._task is not None]
    old = t._task
    if op == "start":
        reg.start_task(t)
        assert len(ghost("created")) == 1
        assert t._task is ghost("created")[0] and not t._task.cancelled
        assert t in reg.tasks and t.xknx is xk
    else:
        reg.remove_task(t)
        assert ghost("created") == []
        assert t._task is None and t not in reg.tasks
        if registered:
            assert t.xknx is None
    assert old is None or old.cancelled
    for x in others:
        if x is not t:
            assert x._task is before[id(x)] and (x._task is None or not x._task.cancelled)
            assert x in reg.tasks
    assert live_handles(reg.tasks, handles + ghost("created"))


def _rec_cancel(self):
    ghost("calls").append(("cancel", self))


def _rec_reconnected(self):
    ghost("calls").append(("reconnected", self))


def _rec_connection_lost(self):
    ghost("calls").append(("connection_lost", self))


class RecCM:
    def unregister_connection_state_changed_cb(self, cb):
        ghost("unregistered").append(cb)


LoopSpec("TaskRegistry.stop", 0, modifies=[], invariant=lambda: True, post=lambda task: ghost("calls") == [("cancel", task)])
LoopSpec(
    "TaskRegistry.connection_state_changed_cb",
    0,
    modifies=[],
    invariant=lambda: True,
    post=lambda task, state: ghost("calls") == [("reconnected" if state == XknxConnectionState.CONNECTED else "connection_lost", task)],
)

REG = Obj(TaskRegistry, tasks=ListOfAny(_task(0)), xknx=Obj(World, connection_manager=Const(RecCM())), _background_task=Const(set()))
CALLEES = [(Task, "cancel", _rec_cancel), (Task, "reconnected", _rec_reconnected), (Task, "connection_lost", _rec_connection_lost)]


@lemma("C36", params=dict(reg=REG), stubs=CALLEES)
def stop_cancels_every_task(reg):
    """stop(), for a registry of any size: cancel() is called on each registered task (contract of
    cancel: cancel_and_restart above), the registry is emptied and the connection callback removed."""
    reg.stop()
    assert len(reg.tasks) == 0
    assert len(ghost("unregistered")) == 1


@lemma("C36", params=dict(reg=REG, state=EnumOf(XknxConnectionState)), stubs=CALLEES)
def connection_changes_reach_every_task(reg, state):
    """connection_state_changed_cb(state), registry of any size: each task gets reconnected() exactly
    once when the state is CONNECTED and connection_lost() exactly once for every other state."""
    reg.connection_state_changed_cb(state)


ASSUMPTIONS = [
    "asyncio is trusted behind the contract stubs: a cancelled task/future does not continue, asyncio.timeout cancels what it guards, locks are mutually exclusive, queues are FIFO, tasks switch only at awaits; interleavings inside one await are represented by 'the awaited object completes with any admissible value, times out, or the connection closes'",
    "'running' means: task handle created and not cancelled",
]


# ------------------------------------------------------------------ "once per reconnection" relies on the connection manager
# connection_changes_reach_every_task starts at the registry's state-change callback. That the callback is
# called once per real change of the connection state - also on the thread-safe path, where the change is applied
# later in the main loop - is the contract of ConnectionManager, proved in C25; an obligation here too.

from contracts import c25_connection as _c25  # noqa: E402
from pyvc.api import rely_on  # noqa: E402

rely_on("C36", _c25.state_changes_only_on_real_transitions)
rely_on("C36", _c25.no_callback_without_transition)
rely_on("C36", _c25.threadsafe_path_defers_the_same_transition)
