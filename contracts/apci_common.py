"""Shared facts about xknx.telegram.apci read from the real module (class table, codes)."""

import dataclasses
import inspect

from xknx.telegram import apci as A


def service_classes():
    """All concrete APCI service classes defined in the real module, in definition order."""
    out = []
    for name, obj in vars(A).items():
        if inspect.isclass(obj) and issubclass(obj, A.APCI) and obj not in (A.APCI, A.APCIRequest) and not inspect.isabstract(obj) and getattr(obj, "CODE", None) is not None:
            out.append(obj)
    return out


# services whose APCI is 4 bits wide (the low six bits carry data or are reserved)
FOUR_BIT = {
    A.APCIService.GROUP_READ,
    A.APCIService.GROUP_RESPONSE,
    A.APCIService.GROUP_WRITE,
    A.APCIService.INDIVIDUAL_ADDRESS_WRITE,
    A.APCIService.INDIVIDUAL_ADDRESS_READ,
    A.APCIService.INDIVIDUAL_ADDRESS_RESPONSE,
    A.APCIService.ADC_READ,
    A.APCIService.ADC_RESPONSE,
    A.APCIService.MEMORY_READ,
    A.APCIService.MEMORY_RESPONSE,
    A.APCIService.MEMORY_WRITE,
    A.APCIService.DEVICE_DESCRIPTOR_READ,
    A.APCIService.DEVICE_DESCRIPTOR_RESPONSE,
    A.APCIService.RESTART,
}

# Legacy BCU coupler services: the code table lists them, the Application Layer specification
# defines no PDU for them and the library documents them as "NOT IMPLEMENTED - and not planned";
# the repo's own test_unsupported_tpci_apci pins "APDU not supported" for them.  They are
# unsupported services, not recognised ones (DESIGN.md section 8, false alarm 1).
UNSUPPORTED_BY_DESIGN = {
    A.APCIExtendedService.ROUTER_STATUS_READ,
    A.APCIExtendedService.ROUTER_STATUS_RESPONSE,
    A.APCIExtendedService.ROUTER_STATUS_WRITE,
}

CODES_10BIT = tuple(sorted({c.CODE.value for c in service_classes() if c.CODE not in FOUR_BIT and c.CODE not in UNSUPPORTED_BY_DESIGN}))
CODES_4BIT = tuple(sorted({c.CODE.value for c in service_classes() if c.CODE in FOUR_BIT}))


def recognised(apci):
    """True when some service class exists for this 10 bit APCI."""
    return apci in CODES_10BIT or (apci & 0x3C0) in CODES_4BIT


def apci_of(raw):
    return ((raw[0] & 0x03) << 8) | raw[1]


def dispatches_to(S, raw):
    """The 10 bit APCI of `raw` (len >= 2) selects service class S (exact code, or 4 bit code not
    claimed by a more specific 10 bit service)."""
    apci = apci_of(raw)
    code = S.CODE.value
    if S.CODE in FOUR_BIT:
        return (apci & 0x3C0) == code and apci not in ALL_10BIT
    return apci == code


ALL_10BIT = tuple(sorted({c.CODE.value for c in service_classes() if c.CODE not in FOUR_BIT}))


# ----------------------------------------------------------------------------- symbolic service objects


def field_spec(tp):
    """Parameter spec for a dataclass field of annotated type `tp`: every value of that type."""
    import types
    import typing

    from pyvc import api
    from xknx.dpt import DPTArray, DPTBinary
    from xknx.secure.data_secure_asdu import SecureData, SecurityALService, SecurityAlgorithmIdentifier, SecurityControlField
    from xknx.telegram.address import GroupAddress, IndividualAddress

    if tp is int:
        return api.Int()  # any mathematical integer: negative, beyond the wire width, 2**32...
    if tp is bool:
        return api.Bool()
    if tp is bytes:
        return api.Bytes()
    if tp in (IndividualAddress, GroupAddress):
        return api.Obj(tp, raw=api.Int(0, 0xFFFF))
    if isinstance(tp, type) and issubclass(tp, __import__("enum").Enum):
        return api.EnumOf(tp)
    if tp is SecurityControlField:
        return api.Obj(tp, tool_access=api.Bool(), algorithm=api.EnumOf(SecurityAlgorithmIdentifier), system_broadcast=api.Bool(), service=api.EnumOf(SecurityALService))
    if tp is SecureData:
        return api.Obj(tp, sequence_number_bytes=api.Bytes(), secured_apdu=api.Bytes(), message_authentication_code=api.Bytes())
    origin = typing.get_origin(tp)
    args = typing.get_args(tp)
    if origin in (typing.Union, types.UnionType):
        if set(args) == {DPTBinary, DPTArray}:
            return api.Choice(api.Obj(DPTBinary, value=api.Int(0, 0x3F)), api.Obj(DPTArray, value=api.ByteTuple()))
        if type(None) in args and len(args) == 2:
            other = [a for a in args if a is not type(None)][0]
            return api.Optional(field_spec(other))
    if origin is list:
        el = field_spec(args[0])
        return api.Choice(*[api.ListOf(*([el] * n)) for n in range(0, 8)])
    raise TypeError(f"no symbolic spec for field type {tp!r}")


def constructor_kwargs_spec(S):
    import typing

    from pyvc import api

    hints = typing.get_type_hints(S)
    return api.DictOf(**{f.name: field_spec(hints[f.name]) for f in dataclasses.fields(S) if f.init})
