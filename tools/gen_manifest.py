#!/usr/bin/env python3
"""Regenerate MANIFEST.json from tools/claims.json (claimed checks) and tools/not_applicable.json."""
import json, os
V = os.path.dirname(os.path.dirname(os.path.abspath(__file__)))
props = [json.loads(l) for l in open(os.path.join(V, "properties.jsonl"))]
claims = json.load(open(os.path.join(V, "tools", "claims.json")))
na = json.load(open(os.path.join(V, "tools", "not_applicable.json")))
checks = []
for p in props:
    c = claims.get(p["id"])
    if not c:
        continue
    checks.append({
        "property_id": p["id"],
        "quick_cmd": f"./check {p['id']} --tier quick",
        "thorough_cmd": f"./check {p['id']} --tier thorough",
        "evidence_file": f"/verif/evidence/{p['id']}.json",
        "replay_cmd_template": f"./check {p['id']} --replay {{path}}",
        "engine": "pyvc",
        "level_claimed": {"category": c.get("category", "proof"), "text": c["text"], "design_ref": c.get("design_ref", f"DESIGN.md section 4, {p['id']}")},
        "level_note": c["note"],
        "technique": c.get("technique", "contract-based deductive verification: VCs generated from the real source by symbolic execution per path (pyvc), discharged by z3"),
    })
not_app = []
for p in props:
    if p["id"] in claims:
        continue
    not_app.append({"property_id": p["id"], "reason": na.get(p["id"], "contracts for this property are not built yet; nothing is claimed (see DESIGN.md section 4 for the plan)")})
m = {
    "version": 1,
    "setup_cmd": "./setup.sh",
    "hooks": {"guard": "XKNX_VERIF", "enable": "not used: contracts are sidecar files under /verif/contracts; /repo is only read (its source text is re-parsed on every run)", "baseline_off_cmd": "cd /repo && /venv/bin/python -m pytest -ra -q -p no:cacheprovider --timeout=900 --continue-on-collection-errors", "source_commits": [], "add_only": True},
    "engines": [{"name": "pyvc", "path": "pyvc/", "serves_properties": [c["property_id"] for c in checks], "kind_free_text": "own ast -> verification-condition generator over the real source of /repo (symbolic execution per path, callee contracts, loop invariants); obligations discharged by z3; every explored path replayed natively on CPython as a differential check of the encoding"}],
    "checks": checks,
    "notes": "exit codes of ./check: 0 all obligations discharged, 1 VIOLATION (refuted obligation, replayed natively), 2 undecided (solver), 3 checker error (construct outside verified subset, vacuous lemma, engine/CPython mismatch, canary missed). See DESIGN.md.",
    "not_applicable": not_app,
}
json.dump(m, open(os.path.join(V, "MANIFEST.json"), "w"), indent=1)
try:
    import jsonschema
    jsonschema.validate(m, json.load(open("/root/.vp/MANIFEST.schema.json")))
    print("MANIFEST ok:", len(checks), "checks,", len(not_app), "not claimed")
except ImportError:
    print("written (not validated)")
