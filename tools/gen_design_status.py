#!/usr/bin/env python3
"""Regenerate the machine-written tables of DESIGN.md (between the STATUS markers)."""
import glob, json, os
V = os.path.dirname(os.path.dirname(os.path.abspath(__file__)))
props = [json.loads(l) for l in open(os.path.join(V, "properties.jsonl"))]
claims = json.load(open(os.path.join(V, "tools", "claims.json")))
na = json.load(open(os.path.join(V, "tools", "not_applicable.json")))
kf = json.load(open(os.path.join(V, "known_findings.json")))
out = []
out.append("| id | claimed | level | lemmas / stand-ins (contracts file) | obligations (last committed evidence) | canaries | seeded changes caught |")
out.append("|---|---|---|---|---|---|---|")
for p in props:
    pid = p["id"]
    c = claims.get(pid)
    files = sorted(os.path.basename(f) for f in glob.glob(os.path.join(V, "contracts", pid.lower() + "_*.py")))
    ev = os.path.join(V, "evidence", pid + ".json")
    obl = ""
    if os.path.exists(ev):
        e = json.load(open(ev))
        cov = e["coverage"]
        obl = f"{cov.get('discharged', 0)}/{cov.get('obligations', 0)} ({e['tier']}, {e['wall_s']:.0f} s)"
        si = cov.get("stand_ins") or []
        if si:
            obl += f"; stand-ins: {sum(s['cases'] for s in si)} cases"
    cans = os.path.join(V, "canaries", pid + ".json")
    ncan = len(json.load(open(cans))) if os.path.exists(cans) else 0
    seeds = sorted(glob.glob(os.path.join(V, "seeded", pid + "-*")))
    sd = []
    for s in seeds:
        m = json.load(open(os.path.join(s, "meta.json")))
        sd.append(os.path.basename(s) + (" ✓" if m["check_result"]["detected"] else " ✗"))
    if c:
        out.append(f"| {pid} | yes | {c.get('category', 'proof')} | {', '.join(files)} | {obl} | {ncan} | {', '.join(sd)} |")
    else:
        reason = "not applicable" if pid in na else "not built"
        out.append(f"| {pid} | no ({reason}) | | | | | |")
text = "\n".join(out)
text += "\n\nOpen known findings (excluded by their exact input region, printed as KNOWN-FINDING):\n\n"
for f in kf["open"]:
    text += f"* `{f['id']}` ({f['property']}, region `{f['region']}`): {f['what']}\n"
text += "\nRepaired defects (`fix:` commits in /repo; a fixed entry suppresses nothing):\n\n"
for f in kf["fixed"]:
    text += f"* {f}\n"
d = open(os.path.join(V, "DESIGN.md")).read()
a, b = "<!-- STATUS:BEGIN -->", "<!-- STATUS:END -->"
i, j = d.index(a), d.index(b)
d = d[: i + len(a)] + "\n" + text + "\n" + d[j:]
open(os.path.join(V, "DESIGN.md"), "w").write(d)
print("DESIGN.md status tables regenerated")
