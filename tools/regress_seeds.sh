#!/bin/sh
# tools/regress_seeds.sh [ids...]: apply every stored seeded change to /repo in turn, run the property's quick check
# and report those that are NOT detected any more (expected: exit 1 for every seed). /repo is restored after each.
cd /verif || exit 2
[ -z "$(git -C /repo status --porcelain)" ] || { echo "/repo is not clean"; exit 2; }
IDS=${*:-$(ls seeded)}
bad=0
for id in $IDS; do
  P=${id%%-*}
  grep -q '"obsolete"' /verif/seeded/$id/meta.json 2>/dev/null && { echo "$id obsolete (skipped)"; continue; }
  git -C /repo apply /verif/seeded/$id/patch.diff || { echo "$id: patch does not apply"; bad=1; continue; }
  ./check $P --tier quick --no-evidence --no-canaries > /tmp/regress_$id.txt 2>&1; rc=$?
  git -C /repo checkout -- .
  if [ $rc -eq 1 ]; then echo "$id detected"; else echo "$id NOT DETECTED (exit $rc)"; bad=1; fi
done
exit $bad
