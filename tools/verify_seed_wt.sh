#!/bin/sh
# tools/verify_seed_wt.sh (the check imports xknx from the worktree via PYTHONPATH: /repo is not touched)
# tools/verify_seed.sh <worktree> <PROP> <seed-id>: confirm the seeded change (suite green, demo fails with / passes without),
# store it under /verif/seeded/<seed-id>/, then run the property's check against /repo with the patch applied.
WT=$1; P=$2; ID=$3
cd $WT || exit 2
git diff -- xknx > /tmp/$ID.diff
[ -s /tmp/$ID.diff ] || { echo "no diff"; exit 2; }
/venv/bin/python demo_$P.py > /tmp/$ID.demo_with.txt 2>&1; W=$?
/venv/bin/python -m pytest -q -p no:cacheprovider --timeout=900 2>&1 | tail -4 > /tmp/$ID.suite.txt
git apply -R /tmp/$ID.diff; /venv/bin/python demo_$P.py > /tmp/$ID.demo_without.txt 2>&1; WO=$?; git apply /tmp/$ID.diff
echo "demo with=$W without=$WO; suite: $(grep -E 'passed|failed' /tmp/$ID.suite.txt | tail -1)"
grep FAILED /tmp/$ID.suite.txt | grep -v "test_start_automatic_connection\|test_lifecycle"
mkdir -p /verif/seeded/$ID
cp /tmp/$ID.diff /verif/seeded/$ID/patch.diff; cp demo_$P.py /verif/seeded/$ID/demo.py; cp meta.json /verif/seeded/$ID/meta.agent.json 2>/dev/null
git -C /repo apply --check /tmp/$ID.diff || { echo "patch does not apply to /repo"; exit 2; }
cd /verif && PYTHONPATH=$WT ./check $P --tier quick --no-evidence --no-canaries > /tmp/$ID.check.txt 2>&1; RC=$?

echo "check exit=$RC"; grep -E "^(VIOLATION|ERROR|UNDECIDED)" /tmp/$ID.check.txt | head -3 | cut -c1-300
