#!/bin/sh
# tools/regress_seeds_wt.sh [workers]: like regress_seeds.sh, but /repo is not touched: each worker has a scratch
# git worktree of /repo under /tmp, applies a stored seeded change there and runs the property's quick check
# against that checkout (PYTHONPATH). Expected: exit 1 for every live seed. Worktrees are removed at the end.
cd /verif || exit 2
W=${1:-4}
OUT=/tmp/regress_wt.$$; mkdir -p $OUT
ls seeded | grep -v REGRESSION > $OUT/all
i=0; while [ $i -lt $W ]; do : > $OUT/list.$i; i=$((i+1)); done
n=0; for id in $(cat $OUT/all); do echo $id >> $OUT/list.$((n % W)); n=$((n+1)); done
worker() {
  k=$1; wt=/tmp/regress_wt_$k
  git -C /repo worktree add --detach -q $wt HEAD || exit 2
  for id in $(cat $OUT/list.$k); do
    P=${id%%-*}
    grep -q '"obsolete"' /verif/seeded/$id/meta.json 2>/dev/null && { echo "$id obsolete (skipped)"; continue; }
    git -C $wt apply /verif/seeded/$id/patch.diff || { echo "$id: patch does not apply"; continue; }
    PYTHONPATH=$wt ./check $P --tier quick --no-evidence --no-canaries --jobs 4 > $OUT/$id.txt 2>&1; rc=$?
    git -C $wt checkout -q -- . ; git -C $wt clean -fdq xknx
    if [ $rc -eq 1 ]; then echo "$id detected"; else echo "$id NOT DETECTED (exit $rc)"; fi
  done > $OUT/result.$k
  git -C /repo worktree remove --force $wt
}
i=0; while [ $i -lt $W ]; do worker $i & i=$((i+1)); done; wait
git -C /repo worktree prune
cat $OUT/result.* | sort
bad=$(cat $OUT/result.* | grep -c "NOT DETECTED\|does not apply")
echo "live seeds detected: $(cat $OUT/result.* | grep -c ' detected$'); not detected or not applicable: $bad; obsolete: $(cat $OUT/result.* | grep -c obsolete)"
rm -rf $OUT
[ "$bad" -eq 0 ]
