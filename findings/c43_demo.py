import asyncio
from unittest.mock import AsyncMock, patch
from xknx import XKNX
from xknx.exceptions import ConfirmationError
from xknx.management.management import P2PConnection
from xknx.telegram import IndividualAddress, Telegram, apci, tpci

async def main():
    xknx = XKNX()
    a = IndividualAddress("1.1.5")
    def conn():
        c = P2PConnection(xknx, a); c._connected = True; return c
    # (b) response arrives before the ACK, then the peer disconnects
    c = conn(); c._ack_waiter = asyncio.get_event_loop().create_future()
    c.process(Telegram(destination_address=IndividualAddress(1), source_address=a, tpci=tpci.TDataConnected(0), payload=apci.DeviceDescriptorResponse(descriptor=0, value=1)))
    try:
        c.process(Telegram(destination_address=IndividualAddress(1), source_address=a, tpci=tpci.TDisconnect())); print("b: ok")
    except Exception as e: print("b: raised", type(e).__name__)
    # (c) duplicated ACK
    c = conn(); c._ack_waiter = asyncio.get_event_loop().create_future()
    c.process(Telegram(destination_address=IndividualAddress(1), source_address=a, tpci=tpci.TAck(0)))
    try:
        c.process(Telegram(destination_address=IndividualAddress(1), source_address=a, tpci=tpci.TAck(0))); print("c: ok")
    except Exception as e: print("c: raised", type(e).__name__)
    # (a) unnumbered frame taken as the response numbered 0
    c = conn()
    c.process(Telegram(destination_address=IndividualAddress(1), source_address=a, tpci=tpci.TConnect()))
    print("a: response waiter done =", c._response_waiter.done(), "expected =", c._expected_sequence_number)
    # (e) repetition cannot be sent
    c = conn()
    calls = []
    async def send(t):
        calls.append(t)
        if len(calls) == 2: raise ConfirmationError("no L_DATA.con")
    with patch("xknx.management.management.MANAGAMENT_ACK_TIMEOUT", 0.01), patch("xknx.cemi.CEMIHandler.send_telegram", side_effect=send):
        try:
            await c.request(apci.DeviceDescriptorRead(descriptor=0)); print("e: returned")
        except Exception as e: print("e: raised", type(e).__name__, [k.__name__ for k in type(e).__mro__[:3]])
asyncio.run(main())
