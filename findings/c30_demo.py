import asyncio
from xknx.io.ip_secure import SecureSequenceTimer
async def main():
    out=[]
    t = SecureSequenceTimer(backbone_key=bytes(16), latency_ms=1000, transport_send=lambda f,a: out.append(f))
    tag=b"\x12\x34"
    fut=asyncio.get_running_loop().create_future()
    t._expected_notify_handler=(tag,fut)
    t.send_timer_notify(message_tag=tag)   # what a responder (or our own looped-back request) carries: our serial + our tag, valid MAC
    n=out[0].body
    t.handle_timer_notify(n)
    try:
        t.handle_timer_notify(n)  # a second device answers / the datagram is duplicated before synchronize() resumes
        print("second notify: ok")
    except Exception as e:
        print("second notify raised", type(e).__name__)
asyncio.run(main())
