"""C11 finding (repaired): device setters that queued their first telegram before a later value was refused.
Run: /venv/bin/python /verif/findings/c11_partial_demo.py  (exit 1 = a refused call left telegrams queued)"""
import asyncio, sys
from xknx import XKNX
from xknx.devices import Fan, Climate
from xknx.devices.climate import SetpointShiftMode
from xknx.exceptions import ConversionError
from xknx.telegram import Telegram, GroupAddress, TelegramDirection
from xknx.telegram.apci import GroupValueWrite
from xknx.dpt import DPTTemperature, DPTValue1Count

async def main():
    bad = 0
    x = XKNX()
    f = Fan(x, "f", group_address_switch="1/1/1", group_address_speed="1/1/2")
    try:
        await f.turn_on(300)
        print("Fan.turn_on(300): accepted?!"); bad += 1
    except ConversionError:
        print("Fan.turn_on(300) refused; telegrams left in the queue:", x.telegrams.qsize()); bad += x.telegrams.qsize() > 0
    x = XKNX()
    k = Climate(x, "k", group_address_target_temperature="1/2/1", group_address_target_temperature_state="1/2/3", group_address_setpoint_shift="1/2/2", setpoint_shift_mode=SetpointShiftMode.DPT6010, setpoint_shift_max=100, setpoint_shift_min=-100, temperature_step=1.0)
    x.devices.async_add(k)
    for ga, p in (("1/2/3", DPTTemperature.to_knx(670700.0)), ("1/2/2", DPTValue1Count.to_knx(0))):
        x.devices.process(Telegram(destination_address=GroupAddress(ga), direction=TelegramDirection.INCOMING, payload=GroupValueWrite(p)))
    try:
        await k.set_setpoint_shift(100.0)
        print("Climate.set_setpoint_shift(100) at base", k.base_temperature, ": accepted, queued", x.telegrams.qsize())
    except ConversionError:
        print("Climate.set_setpoint_shift(100) at base", k.base_temperature, "refused; telegrams left in the queue:", x.telegrams.qsize()); bad += x.telegrams.qsize() > 0
    return 1 if bad else 0

sys.exit(asyncio.run(main()))
