"""C35 finding: three reads in progress at once (unchanged tree).

History: trackers A, B, C registered ('expire 60'); CONNECTED: A and B take the two semaphore permits and
wait for their answers, C waits for a permit.  A telegram for A's *write* address (not the state address
being read) is processed: RemoteValue.process -> StateUpdater.update_received -> tracker.reset() cancels
A's task at `await asyncio.shield(read_state(...))`; the `async with self._semaphore` block is left and
the permit released while the shielded ValueReader of A is still waiting for its answer.  C acquires the
permit and starts its read: three ValueReaders wait at once.
Run: /venv/bin/python /verif/findings/c35_demo.py   (exit 1 = three reads in progress were observed)
"""
import asyncio
import sys

from xknx import XKNX
from xknx.core import XknxConnectionState
from xknx.core.value_reader import ValueReader
from xknx.dpt import DPTBinary
from xknx.remote_value import RemoteValueSwitch
from xknx.telegram import GroupAddress, Telegram, TelegramDirection
from xknx.telegram.apci import GroupValueWrite

in_progress = 0
peak = 0
log = []
_orig_read = ValueReader.read


async def _counting_read(self):
    global in_progress, peak
    in_progress += 1
    peak = max(peak, in_progress)
    log.append(f"read START {self.group_address} (in progress: {in_progress})")
    try:
        return await _orig_read(self)
    finally:
        in_progress -= 1
        log.append(f"read END   {self.group_address} (in progress: {in_progress})")


ValueReader.read = _counting_read


async def main():
    xknx = XKNX()
    xknx.connection_manager._state = XknxConnectionState.DISCONNECTED
    rvs = []
    for i in (1, 2, 3):
        rv = RemoteValueSwitch(xknx, group_address=f"1/0/{i}", group_address_state=f"1/1/{i}", sync_state="expire 60", device_name=f"dev{i}")
        rv.register_state_updater()
        rvs.append(rv)
    xknx.state_updater.start()
    # the outgoing queue is idle; no interface: reads are only queued, nobody answers
    xknx.state_updater.connection_state_change_callback(XknxConnectionState.CONNECTED)
    await asyncio.sleep(0.05)
    log.append("-- telegram for A's write address 1/0/1 is processed")
    rvs[0].process(Telegram(destination_address=GroupAddress("1/0/1"), direction=TelegramDirection.INCOMING, payload=GroupValueWrite(DPTBinary(1))))
    await asyncio.sleep(0.05)
    print("\n".join(log))
    print(f"peak of reads in progress: {peak} (statement: at most two)")
    xknx.state_updater.stop()
    for t in asyncio.all_tasks():
        if t is not asyncio.current_task():
            t.cancel()
    return 1 if peak > 2 else 0


sys.exit(asyncio.run(main()))
