"""
Demo for property C25 (connection lifecycle stays consistent under any failure schedule).

History (UDP tunnel, auto_reconnect=True, established on channel 7):
  1. the application sends a telegram; the gateway never acknowledges it
     (send failure #1 is pending, ACK timeout 1 s)
  2. the user disconnects the tunnel; the gateway confirms the DisconnectRequest,
     disconnect() returns
  3. the pending TunnellingRequest times out (send failure)

Expected: after disconnect() returned nothing is sent any more, no reconnect is
started, the state stays DISCONNECTED and send_cemi() fails with CommunicationError.

The real xknx tunnel code is used; only the UDP socket is replaced by a simulated
gateway (answers Connect-/DisconnectRequests, never ACKs TunnellingRequests).
Exit status 1 when the property is violated, 0 otherwise.
"""

from __future__ import annotations

import asyncio
import logging
import sys
from unittest.mock import Mock

from xknx import XKNX
from xknx.cemi import CEMIFrame, CEMILData, CEMIMessageCode
from xknx.core import XknxConnectionState
from xknx.dpt import DPTArray
from xknx.exceptions import CommunicationError
from xknx.io import UDPTunnel
from xknx.io.transport.udp_transport import UDPTransport
from xknx.knxip import (
    HPAI,
    ConnectRequest,
    ConnectResponse,
    ConnectResponseData,
    DisconnectRequest,
    DisconnectResponse,
    KNXIPFrame,
)
from xknx.telegram import GroupAddress, IndividualAddress, Telegram
from xknx.telegram.apci import GroupValueWrite

logging.disable(logging.CRITICAL)

GATEWAY = ("192.168.1.2", 3671)
LOCAL = ("192.168.1.1", 12345)

sent: list[tuple[float, str, str]] = []  # (time, phase, frame)
phase = "before user disconnect"
next_channel = 7
t_start = 0.0


def now() -> float:
    return asyncio.get_running_loop().time() - t_start


async def fake_connect(self: UDPTransport) -> None:
    self.transport = Mock()


def fake_stop(self: UDPTransport) -> None:
    self.transport = None


def fake_getsockname(self: UDPTransport) -> tuple[str, int]:
    return LOCAL


def fake_send(
    self: UDPTransport, knxipframe: KNXIPFrame, addr: tuple[str, int] | None = None
) -> None:
    """Simulated gateway: answers Connect/Disconnect, never ACKs TunnellingRequests."""
    global next_channel
    if self.transport is None:
        raise CommunicationError("Transport not connected")
    sent.append((now(), phase, type(knxipframe.body).__name__))
    loop = asyncio.get_running_loop()
    body = knxipframe.body
    response = None
    if isinstance(body, ConnectRequest):
        response = ConnectResponse(
            communication_channel=next_channel,
            data_endpoint=HPAI(*GATEWAY),
            crd=ConnectResponseData(individual_address=IndividualAddress("1.1.7")),
        )
        next_channel += 1
    elif isinstance(body, DisconnectRequest):
        response = DisconnectResponse(
            communication_channel_id=body.communication_channel_id
        )
    if response is not None:
        loop.call_soon(
            self.handle_knxipframe, KNXIPFrame.init_from_body(response), HPAI(*GATEWAY)
        )


UDPTransport.connect = fake_connect  # type: ignore[method-assign]
UDPTransport.stop = fake_stop  # type: ignore[method-assign]
UDPTransport.getsockname = fake_getsockname  # type: ignore[method-assign]
UDPTransport.send = fake_send  # type: ignore[method-assign]


async def main() -> int:
    global phase, t_start
    t_start = asyncio.get_running_loop().time()
    xknx = XKNX()
    states: list[tuple[float, str, str]] = []
    xknx.connection_manager.register_connection_state_changed_cb(
        lambda state: states.append((now(), phase, state.name))
    )
    tunnel = UDPTunnel(
        xknx,
        cemi_received_callback=lambda raw: None,
        gateway_ip=GATEWAY[0],
        gateway_port=GATEWAY[1],
        local_ip=LOCAL[0],
        auto_reconnect=True,
        auto_reconnect_wait=1,
    )
    await tunnel.connect()
    assert xknx.connection_manager.state is XknxConnectionState.CONNECTED

    cemi = CEMIFrame(
        code=CEMIMessageCode.L_DATA_REQ,
        data=CEMILData.init_from_telegram(
            Telegram(
                destination_address=GroupAddress("1/2/3"),
                payload=GroupValueWrite(DPTArray((1,))),
            ),
            src_addr=IndividualAddress("1.1.7"),
        ),
    )
    # 1. send a telegram - the gateway does not acknowledge it
    send_task = asyncio.create_task(tunnel.send_cemi(cemi))
    await asyncio.sleep(1.3)
    # 2. user disconnects while the SECOND TunnellingRequest (the repetition) is still unacknowledged
    await tunnel.disconnect()
    phase = "AFTER user disconnect"
    t_disconnected = now()
    # 3. let the ACK timeout(s) of the pending send pass
    send_result: str
    try:
        async with asyncio.timeout(6):
            await send_task
        send_result = "returned normally"
    except CommunicationError as err:
        send_result = f"CommunicationError({err})"
    except TimeoutError:
        send_result = "still pending after 6 s"
    await asyncio.sleep(0.2)

    final_state = xknx.connection_manager.state
    connected_flag = xknx.connection_manager.connected.is_set()
    reconnect_running = tunnel._reconnect_task is not None
    channel = tunnel.communication_channel

    # clean up whatever is still alive so the script can exit
    tunnel._stop_reconnect()
    tunnel.stop_heartbeat()

    print("History: UDP tunnel, auto_reconnect=True, established (channel 7)")
    print("  t=0.0  send_cemi(GroupValueWrite 1/2/3) - gateway never sends an ACK")
    print(f"  t={t_disconnected:.1f}  user disconnect() returned (DisconnectResponse received)")
    print("  t=1.0  ACK timeout of the pending TunnellingRequest (send failure)")
    print()
    print("Frames handed to the transport:")
    for t, ph, name in sent:
        print(f"  t={t:4.1f}  [{ph}]  {name}")
    print("State-change callbacks:")
    for t, ph, name in states:
        print(f"  t={t:4.1f}  [{ph}]  {name}")
    print(f"send_cemi() outcome: {send_result}")
    print()

    frames_after = [entry for entry in sent if entry[1].startswith("AFTER")]
    states_after = [entry for entry in states if entry[1].startswith("AFTER")]
    violations = []
    if frames_after:
        violations.append(
            "frames sent after the user disconnected: "
            + ", ".join(name for _, _, name in frames_after)
            + " (expected: none)"
        )
    if states_after:
        violations.append(
            "connection state changed after the user disconnected: "
            + " -> ".join(name for _, _, name in states_after)
            + " (expected: stays DISCONNECTED, no callback)"
        )
    if final_state is not XknxConnectionState.DISCONNECTED or connected_flag:
        violations.append(
            f"final state {final_state.name}, connected event set={connected_flag}, "
            f"communication_channel={channel} "
            "(expected: DISCONNECTED, not set, None)"
        )
    if reconnect_running:
        violations.append("a reconnect task is running after the user disconnected")

    if violations:
        print("VIOLATION of C25:")
        for violation in violations:
            print("  -", violation)
        return 1
    print(
        "OK: nothing sent, no reconnect and no state change after the user disconnected "
        f"(final state {final_state.name})."
    )
    return 0


if __name__ == "__main__":
    sys.exit(asyncio.run(main()))
