import asyncio
from xknx.io.request_response import Tunnelling
from xknx.io.transport import UDPTransport
from xknx.knxip import HPAI, KNXIPFrame, TunnellingAck, TunnellingRequest
async def main():
    class T(UDPTransport):
        def send(self, f, addr=None): pass
    tr = T(("127.0.0.1",0),("127.0.0.1",3671))
    req = TunnellingRequest(communication_channel_id=7, sequence_counter=5, raw_cemi=bytes.fromhex("1100bce000000801010081"))
    t = Tunnelling(tr, None, req)
    async def late_ack():
        await asyncio.sleep(0)
        # late ACK of the previous frame (counter 4) on another channel (3)
        tr.handle_knxipframe(KNXIPFrame.init_from_body(TunnellingAck(communication_channel_id=3, sequence_counter=4)), HPAI())
    asyncio.create_task(late_ack())
    t.timeout_in_seconds = 0.05
    try:
        r = await t.request(); print("request for channel 7 counter 5 confirmed by", r)
    except Exception as e:
        print("not confirmed:", type(e).__name__)
asyncio.run(main())
