"""C27 finding: two concurrent senders defeat the 20 ms spacing of routing indications (unchanged tree).

History: one RoutingIndication is sent at t0.  Within the next 20 ms two tasks call Routing.send_cemi
concurrently (the telegram queue's sender and a management procedure both go through
CEMIHandler.send_telegram, which does not serialize them).  Both compute the same remaining time in
_RoutingFlowControl.throttle(), sleep it, wake in the same loop iteration and send back to back.
Run: /venv/bin/python /verif/findings/c27_demo.py   (exit 1 = two indications closer than 20 ms)
"""
import asyncio
import sys

from xknx import XKNX
from xknx.cemi import CEMIFrame, CEMILData, CEMIMessageCode
from xknx.dpt import DPTBinary
from xknx.io.routing import Routing
from xknx.telegram import GroupAddress, IndividualAddress, Telegram
from xknx.telegram.apci import GroupValueWrite


class Transport:
    def __init__(self, loop):
        self.loop, self.times = loop, []

    def send(self, frame, addr=None):
        self.times.append(self.loop.time())

    def register_callback(self, *a, **k):
        pass


def cemi(i):
    t = Telegram(destination_address=GroupAddress(f"1/2/{i}"), payload=GroupValueWrite(DPTBinary(1)))
    return CEMIFrame(code=CEMIMessageCode.L_DATA_REQ, data=CEMILData.init_from_telegram(t, src_addr=IndividualAddress("1.1.1")))


async def main():
    xknx = XKNX()
    loop = asyncio.get_running_loop()
    r = Routing(xknx, None, lambda raw: None, "127.0.0.1")
    r.transport = Transport(loop)
    await r.send_cemi(cemi(1))
    await asyncio.gather(r.send_cemi(cemi(2)), r.send_cemi(cemi(3)))
    t = r.transport.times
    gaps = [round((b - a) * 1000, 2) for a, b in zip(t, t[1:])]
    print("gaps between consecutive RoutingIndications [ms]:", gaps, "(statement: each at least 20)")
    return 1 if any(g < 19.5 for g in gaps) else 0


sys.exit(asyncio.run(main()))
