import asyncio
from xknx import XKNX
from xknx.devices import Cover
from xknx.cemi import CEMIFrame, CEMILData, CEMIMessageCode
async def main():
    xknx = XKNX()
    cover = Cover(xknx, "c", group_address_position="1/2/3")
    try:
        await cover.set_position(150)   # percent, valid range 0..100
    except Exception as e:
        print("rejected at the call:", type(e).__name__); return
    t = xknx.telegrams.get_nowait()
    print("queued:", t.payload)
    try:
        CEMIFrame(code=CEMIMessageCode.L_DATA_REQ, data=CEMILData.init_from_telegram(t)).to_knx()
        print("serialized")
    except Exception as e:
        print("cannot be serialized:", type(e).__name__, e)
asyncio.run(main())
