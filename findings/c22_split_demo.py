"""C22 finding (repaired): a malformed frame with readable length that is split across TCP chunks.

Stream: [malformed frame: unknown service type 0xFFFF, total length 10] [ConnectionStateResponse]
[TunnellingAck], delivered in two chunks with the cut at every position.  With the cut inside the
malformed frame's body (positions 6..9) its header arrived alone, was refused (CouldNotParseKNXIP comes
before the completeness check for a bad header) and 'skipped' - the rest of its body then arrived as the
start of a new frame and both following frames were lost.
Run: /venv/bin/python /verif/findings/c22_split_demo.py   (exit 1 = frames lost)
"""
import sys

from xknx.io.transport.tcp_transport import TCPTransport
from xknx.knxip import ConnectionStateResponse, KNXIPFrame, TunnellingAck

got = []


class T(TCPTransport):
    def handle_knxipframe(self, f, src):
        got.append(f.to_knx().hex())


t = T(("127.0.0.1", 3671))
good = KNXIPFrame.init_from_body(ConnectionStateResponse(communication_channel_id=1)).to_knx()
good2 = KNXIPFrame.init_from_body(TunnellingAck(communication_channel_id=2, sequence_counter=3)).to_knx()
bad = bytes.fromhex("0610ffff000a") + b"\x06\x10\x02\x08"
stream = bad + good + good2
fails = 0
for cut in range(len(stream) + 1):
    got.clear()
    t._buffer = b""
    t.data_received_callback(stream[:cut])
    t.data_received_callback(stream[cut:])
    if got != [good.hex(), good2.hex()]:
        fails += 1
        print("cut at", cut, "delivered", got, "expected", [good.hex(), good2.hex()])
print("failing cut positions:", fails)
sys.exit(1 if fails else 0)
