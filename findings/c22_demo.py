from xknx.io.ip_secure import SecureSession
from xknx.knxip import KNXIPFrame, SecureWrapper, ConnectionStateResponse
import asyncio
async def main():
    s = SecureSession(("127.0.0.1", 3671), user_id=2, user_password="x")
    got=[]
    s.register_callback(lambda f,src,t: got.append(f))
    w = KNXIPFrame.init_from_body(SecureWrapper(secure_session_id=1, sequence_information=bytes(6), serial_number=bytes(6), message_tag=bytes(2), encrypted_data=bytes(8), message_authentication_code=bytes(16)))
    try:
        s.data_received_callback(w.to_knx() + w.to_knx())
        print("no exception escaped data_received_callback")
    except Exception as e:
        print("escaped into the event loop:", type(e).__name__)
asyncio.run(main())
