import asyncio
from unittest.mock import AsyncMock
from xknx import XKNX
from xknx.telegram import Telegram, GroupAddress
from xknx.telegram.apci import GroupValueWrite
from xknx.dpt import DPTBinary
async def main():
    xknx = XKNX(rate_limit=2)
    sent=[]
    async def send(t): sent.append(t)
    import xknx.cemi.cemi_handler as ch
    ch.CEMIHandler.send_telegram = lambda self, t: send(t)
    tq = xknx.telegram_queue
    await tq.start()
    xknx.telegrams.put_nowait(Telegram(destination_address=GroupAddress(1), payload=GroupValueWrite(DPTBinary(1))))
    await asyncio.sleep(0.01)
    await tq.stop()          # within 1/rate of the send: the limiter task is cancelled but kept
    await tq.start()
    xknx.telegrams.put_nowait(Telegram(destination_address=GroupAddress(2), payload=GroupValueWrite(DPTBinary(1))))
    try:
        await asyncio.wait_for(xknx.telegrams.join(), 1.0)
        print("second telegram processed; sent:", len(sent))
    except asyncio.TimeoutError:
        print("join() blocked after restart; sent:", len(sent), "consumer:", tq._consumer_task)
asyncio.run(main())
