#!/bin/sh
# Build the offline interpreter for PyVC: python 3.12 venv with z3-solver/cvc5/jsonschema from the
# local wheelhouse, overlaid on /venv's site-packages (so `import xknx` resolves to /repo).
set -e
cd "$(dirname "$0")"
V=.venv
if [ -x "$V/bin/python" ] && "$V/bin/python" -c 'import z3, jsonschema, xknx' 2>/dev/null; then
  echo "setup: $V already usable"; exit 0
fi
rm -rf "$V"
BASE=$(/venv/bin/python -c 'import sys;print(sys.base_prefix)')
"$BASE/bin/python3" -m venv "$V"
PIP_NO_INDEX=1 "$V/bin/python" -m pip install -q --no-index --find-links /opt/veriftools/wheels z3-solver cvc5 jsonschema
SP=$("$V/bin/python" -c 'import sysconfig;print(sysconfig.get_paths()["purelib"])')
echo "import site; site.addsitedir('/venv/lib/python3.12/site-packages')" > "$SP/zz_repo_overlay.pth"
"$V/bin/python" -c 'import z3, cvc5, jsonschema, xknx, cryptography; print("setup ok: z3", z3.get_version_string(), "xknx from", xknx.__file__)'
