"""
PyVC core: symbolic values, path state, solver access.

Values manipulated by the interpreter are either ordinary Python objects (concrete) or
instances of the S* classes below (symbolic).  The heap *shape* is always concrete: an SObj
has a concrete class and a concrete dict of field names; scalars inside are symbolic.

Integers are z3 `Int` (Python ints are unbounded: mathematical integers are the exact
semantics).  Byte strings are lists of segments over uninterpreted functions Int->Int whose
values are clipped into 0..255 at every read (`_clip`), so every model is a genuine byte string.
"""

from __future__ import annotations

import itertools
import z3

z3.set_param("model.completion", True)


class Unsupported(Exception):
    """Construct outside the verified subset (exit 3, never a verdict)."""

    def __init__(self, msg, node=None, where=None):
        super().__init__(msg)
        self.msg = msg
        self.node = node
        self.where = where

    def __str__(self):
        loc = f" at {self.where}" if self.where else ""
        return f"construct outside verified subset{loc}: {self.msg}"


class PathAbort(Exception):
    """The current path is infeasible / cut (assume False)."""


class PyRaise(Exception):
    """A Python exception raised by the interpreted program (value is an SObj of an exception class)."""

    def __init__(self, exc, where=None):
        super().__init__(exc.cls.__name__ if hasattr(exc, "cls") else "exception")
        self.exc = exc
        self.where = where


# --------------------------------------------------------------------------------------
# symbolic scalars


class SVal:
    __slots__ = ()


class SBool(SVal):
    __slots__ = ("e",)

    def __init__(self, e):
        self.e = e

    def __repr__(self):
        return f"SBool({self.e})"


class SInt(SVal):
    """Symbolic int. `lz`: value is a multiple of 2**lz.  `nb`: if not None, 0 <= value < 2**nb (proved syntactically)."""

    __slots__ = ("e", "lz", "nb", "be", "sbe")

    def __init__(self, e, lz=0, nb=None, be=None):
        self.e = e
        self.lz = lz
        self.nb = nb
        self.sbe = None  # two's complement octets of a signed struct field (same purpose as `be`)
        # optional big-endian octet decomposition: value == sum(be[i] * 256**(len-1-i)), each 0..255
        # (kept so that pack(unpack(x)) and shifts/masks by whole octets need no div/mod reasoning)
        self.be = be

    def __repr__(self):
        return f"SInt({self.e})"


class SFloat(SVal):
    """Symbolic float. mode 'fp' (z3 Float64, exact) or 'real' (z3 Real, assumption recorded)."""

    __slots__ = ("e", "mode", "iv")

    def __init__(self, e, mode):
        self.e = e
        self.mode = mode
        self.iv = None  # conservative interval (floats.py)

    def __repr__(self):
        return f"SFloat[{self.mode}]({self.e})"


class SStr(SVal):
    """Opaque symbolic string (messages, logs). `parts` keeps the pieces of an f-string
    (literal str and symbolic values) so that struct formats such as f"!BH{size}s" stay readable."""

    __slots__ = ("tag", "parts")

    def __init__(self, tag="str", parts=None):
        self.tag = tag
        self.parts = parts

    def __repr__(self):
        return f"SStr({self.tag})"


class SEnum(SVal):
    """Symbolic member of a concrete Enum class.
    kind 'val': e is the member's (int) value, constrained to the value set;
    kind 'idx': e is the index into `members` (= list(cls))."""

    __slots__ = ("cls", "e", "kind", "members")

    def __init__(self, cls, e, kind, members=None):
        self.cls = cls
        self.e = e
        self.kind = kind
        self.members = members if members is not None else list(cls)

    def __repr__(self):
        return f"SEnum({self.cls.__name__},{self.kind},{self.e})"


class SObj(SVal):
    """Object with concrete class and named fields (values concrete or symbolic)."""

    _ids = itertools.count()

    def __init__(self, cls, fields=None):
        object.__setattr__(self, "cls", cls)
        object.__setattr__(self, "fields", dict(fields or {}))
        object.__setattr__(self, "oid", next(SObj._ids))

    def __repr__(self):
        return f"SObj<{self.cls.__name__}>({self.fields})"


class Opaque(SVal):
    """A value about which nothing is known except identity (user callbacks, tasks, transports...)."""

    __slots__ = ("tag", "attrs")

    def __init__(self, tag, attrs=None):
        self.tag = tag
        self.attrs = attrs or {}

    def __repr__(self):
        return f"Opaque({self.tag})"


# --------------------------------------------------------------------------------------
# byte strings


def _clip(e):
    return z3.If(e < 0, z3.IntVal(0), z3.If(e > 255, z3.IntVal(255), e))


class Seg:
    __slots__ = ()


class BSeg(Seg):
    """One octet: python int or z3 Int expr known to be in 0..255."""

    __slots__ = ("v",)

    def __init__(self, v):
        self.v = v


class CSeg(Seg):
    """n octets f(off) .. f(off+n-1) of the uninterpreted byte source f (values clipped on read)."""

    __slots__ = ("f", "off", "n", "filtered_from")

    def __init__(self, f, off, n):
        self.f = f
        self.off = off  # z3 Int or python int
        self.n = n  # z3 Int (>= 0 on every feasible path) or python int
        self.filtered_from = None  # the FilteredSeq these octets are the kept items of (whole segment only)


def iexpr(v):
    """z3 Int expr of python int / SInt / SBool."""
    if isinstance(v, bool):
        return z3.IntVal(1 if v else 0)
    if isinstance(v, int):
        return z3.IntVal(v)
    if isinstance(v, SInt):
        return v.e
    if isinstance(v, SBool):
        return z3.If(v.e, z3.IntVal(1), z3.IntVal(0))
    if z3.is_expr(v):
        return v
    raise Unsupported(f"not an integer value: {v!r}")


class SBytes(SVal):
    """bytes / bytearray value as a list of segments."""

    __slots__ = ("segs", "mutable")

    def __init__(self, segs, mutable=False):
        self.segs = list(segs)
        self.mutable = mutable

    @staticmethod
    def from_concrete(b, mutable=False):
        return SBytes([BSeg(x) for x in bytes(b)], mutable)

    def fixed_len(self):
        """Concrete length or None."""
        n = 0
        for s in self.segs:
            if isinstance(s, BSeg):
                n += 1
            elif isinstance(s.n, int):
                n += s.n
            else:
                return None
        return n

    def length(self):
        """python int or z3 Int."""
        n = 0
        sym = []
        for s in self.segs:
            if isinstance(s, BSeg):
                n += 1
            elif isinstance(s.n, int):
                n += s.n
            else:
                sym.append(s.n)
        if not sym:
            return n
        e = sym[0]
        for x in sym[1:]:
            e = e + x
        return e + n if n else e

    def expand(self):
        """Expand concrete-length CSegs to BSegs (in place)."""
        out = []
        for s in self.segs:
            if isinstance(s, CSeg) and isinstance(s.n, int):
                for i in range(s.n):
                    out.append(BSeg(_clip(s.f(iexpr(s.off) + i))))
            else:
                out.append(s)
        self.segs = out
        return self

    def at(self, k):
        """z3 Int expr for the octet at (z3 Int or int) index k, assuming 0 <= k < len."""
        if isinstance(k, int):
            pos = 0
            for s in self.segs:
                if isinstance(s, BSeg):
                    if pos == k:
                        return iexpr(s.v)
                    pos += 1
                elif isinstance(s.n, int):
                    if k < pos + s.n:
                        return _clip(s.f(iexpr(s.off) + (k - pos)))
                    pos += s.n
                else:
                    break
            else:
                raise IndexError(k)
        # general: ite chain over cumulative offsets
        k = iexpr(k)
        cum = z3.IntVal(0)
        cases = []
        for s in self.segs:
            if isinstance(s, BSeg):
                cases.append((k == cum, iexpr(s.v)))
                cum = cum + 1
            else:
                n = iexpr(s.n)
                cases.append((k < cum + n, _clip(s.f(iexpr(s.off) + (k - cum)))))
                cum = cum + n
            cum = z3.simplify(cum)
        e = z3.IntVal(0)
        for c, v in reversed(cases):
            e = z3.If(c, v, e)
        return e

    def __repr__(self):
        parts = []
        for s in self.segs:
            if isinstance(s, BSeg):
                parts.append(str(s.v))
            else:
                parts.append(f"{s.f.name()}[{s.off}:+{s.n}]")
        return ("bytearray" if self.mutable else "bytes") + "<" + ",".join(parts) + ">"


class SList(SVal):
    """List of symbolic length held as z3 function idx->elem-id is not modelled; placeholder for contracts."""

    __slots__ = ("items",)


# --------------------------------------------------------------------------------------
# path state


_FP_CACHE = {}


def has_fp(e):
    """Does the z3 expression contain floating point terms?"""
    k = e.get_id()
    hit = _FP_CACHE.get(k)
    if hit is not None and hit[0].eq(e):
        return hit[1]
    todo = [e]
    seen = set()
    r = False
    while todo:
        x = todo.pop()
        i = x.get_id()
        if i in seen:
            continue
        seen.add(i)
        sk = x.sort_kind()
        if sk in (z3.Z3_FLOATING_POINT_SORT, z3.Z3_ROUNDING_MODE_SORT):
            r = True
            break
        if z3.is_quantifier(x):
            todo.append(x.body())
        else:
            todo.extend(x.children())
    if len(_FP_CACHE) > 20000:
        _FP_CACHE.clear()
    _FP_CACHE[k] = (e, r)  # the expression is kept alive so that its id cannot be reused
    return r


class PathState:
    """One execution: decisions replayed from `prefix`, new ones appended; path condition in `pc`."""

    def __init__(self, explorer, prefix):
        self.ex = explorer
        self.prefix = prefix
        self.decisions = []
        self.forced = []  # parallel to decisions: True if only one side was feasible
        self.pc = []
        self.fp_pc = []
        self.solver = z3.Solver()
        # branch feasibility queries are limited by z3's deterministic resource counter, not by wall
        # time: no timer thread per query, and verdicts do not flip when the machine is loaded
        self.solver.set("timeout", explorer.branch_timeout_ms)
        self.names = {}
        self.obligations = []  # results recorded on this path
        self.ghost = {}
        self.notes = []
        self.assumed_real = False
        self.steps = 0

    # fresh symbols are named deterministically per path so that re-execution reproduces them
    def fresh_name(self, base):
        n = self.names.get(base, 0)
        self.names[base] = n + 1
        return base if n == 0 else f"{base}#{n}"

    def fresh_int(self, base):
        return z3.Int(self.fresh_name(base))

    def fresh_bool(self, base):
        return z3.Bool(self.fresh_name(base))

    def fresh_fun(self, base):
        return z3.Function(self.fresh_name(base), z3.IntSort(), z3.IntSort())

    def assume(self, cond):
        """Add a fact (z3 Bool). Path is cut if it becomes infeasible lazily (checked at decide)."""
        if isinstance(cond, bool):
            if not cond:
                raise PathAbort()
            return
        cond = z3.simplify(cond)
        if z3.is_true(cond):
            return
        if z3.is_false(cond):
            raise PathAbort()
        if has_fp(cond):
            # floating point facts are kept out of the branching solver (bit-blasting them on every
            # feasibility query is what makes float code slow); they are used when goals are proved
            self.fp_pc.append(cond)
            return
        self.pc.append(cond)
        self.solver.add(cond)
        self._note_fact(cond)
        m = getattr(self, "cur_model", None)
        if m is not None and not z3.is_true(m.eval(cond, model_completion=True)):
            self.cur_model = None

    def check(self, extra=None, timeout_ms=None):
        """sat/unsat/unknown of pc (and extra)."""
        if timeout_ms is not None:
            self.solver.set("timeout", timeout_ms)
        try:
            if extra is None:
                r = self.solver.check()
            else:
                self.solver.push()
                self.solver.add(extra)
                r = self.solver.check()
                if r == z3.sat:
                    self.last_model = self.solver.model()
                self.solver.pop()
            if r == z3.sat and extra is None:
                self.last_model = self.solver.model()
        finally:
            if timeout_ms is not None:
                self.solver.set("timeout", self.ex.branch_timeout_ms)
        self.ex.stats["solver_calls"] += 1
        return r

    def check_full(self, extra=None, timeout_ms=None):
        """Like check(), but with the floating point facts of the path included (fresh solver)."""
        if not self.fp_pc and (extra is None or not has_fp(extra)):
            return self.check(extra, timeout_ms)
        s = z3.Solver()
        s.set("timeout", timeout_ms if timeout_ms is not None else self.ex.branch_timeout_ms)
        s.add(*self.pc)
        s.add(*self.fp_pc)
        if extra is not None:
            s.add(extra)
        r = s.check()
        self.ex.stats["solver_calls"] += 1
        self.full_reason = s.reason_unknown() if r == z3.unknown else None
        if r == z3.sat:
            self.last_model = s.model()
        return r

    def implied(self, cond):
        """True iff pc entails cond (unsat of pc & !cond)."""
        if isinstance(cond, bool):
            return cond
        cond = z3.simplify(cond)
        if z3.is_true(cond):
            return True
        if z3.is_false(cond):
            return False
        return self.check(z3.Not(cond)) == z3.unsat

    def _note_fact(self, c):
        """Remember equalities `variable == integer constant` that enter the path condition."""
        try:
            if z3.is_eq(c):
                a, b = c.arg(0), c.arg(1)
                if z3.is_int_value(a):
                    a, b = b, a
                if z3.is_int_value(b) and z3.is_const(a) and a.decl().kind() == z3.Z3_OP_UNINTERPRETED:
                    self.__dict__.setdefault("_known", []).append((a, b))
            elif z3.is_and(c):
                for x in c.children():
                    self._note_fact(x)
        except z3.Z3Exception:
            pass

    def const_value(self, e):
        """python int c if the path condition entails e == c, else None."""
        if isinstance(e, int):
            return e
        e = z3.simplify(e)
        if z3.is_int_value(e):
            return e.as_long()
        known = self.__dict__.get("_known")
        if known:
            e2 = z3.simplify(z3.substitute(e, *known))
            if z3.is_int_value(e2):
                return e2.as_long()
        key = e.get_id()
        cache = self.__dict__.setdefault("_cv", {})
        if key in cache and cache[key][0].eq(e):
            return cache[key][1]
        if self.check() != z3.sat:
            return None
        c = self.last_model.eval(e, model_completion=True)
        if not z3.is_int_value(c):
            return None
        c = c.as_long()
        if self.check(e != c) == z3.unsat:
            cache[key] = (e, c)
            return c
        return None

    def decide(self, cond):
        """Branch on z3 Bool cond: returns python bool, forks the exploration."""
        if isinstance(cond, bool):
            return cond
        cond = z3.simplify(cond)
        if z3.is_true(cond):
            return True
        if z3.is_false(cond):
            return False
        i = len(self.decisions)
        if i < len(self.prefix):
            d = self.prefix[i]
            self.decisions.append(d)
            self.forced.append(True)
            c = cond if d else z3.Not(cond)
            if has_fp(c):
                self.fp_pc.append(c)
            else:
                self.pc.append(c)
                self.solver.add(c)
                self._note_fact(c)
            return d
        if i >= self.ex.max_decisions:
            raise Unsupported(f"more than {self.ex.max_decisions} decisions on one path (unbounded loop without invariant?)")
        if has_fp(cond):
            # floating point condition: both sides are explored without asking the solver (an
            # over-approximation of the feasible paths; goals are still proved with the FP facts)
            self.ex.schedule(self.decisions + [False])
            self.decisions.append(True)
            self.forced.append(False)
            self.fp_pc.append(cond)
            return True
        # a model of the current path condition (if we hold one) already settles one side
        m = getattr(self, "cur_model", None)
        known = None
        if m is not None:
            v = m.eval(cond, model_completion=True)
            if z3.is_true(v):
                known = True
            elif z3.is_false(v):
                known = False
        m_true = m_false = None
        if known is True:
            t_ok, m_true = True, m
            rf = self.check(z3.Not(cond))
            f_ok = rf != z3.unsat
            if rf == z3.sat:
                m_false = self.last_model
        elif known is False:
            f_ok, m_false = True, m
            rt = self.check(cond)
            t_ok = rt != z3.unsat
            if rt == z3.sat:
                m_true = self.last_model
        else:
            rt = self.check(cond)
            if rt == z3.sat:
                m_true = self.last_model
            rf = self.check(z3.Not(cond))
            if rf == z3.sat:
                m_false = self.last_model
            t_ok = rt != z3.unsat
            f_ok = rf != z3.unsat
        if not t_ok and not f_ok:
            raise PathAbort()
        if t_ok and f_ok:
            d = True
            self.ex.schedule(self.decisions + [False])
            forced = False
        else:
            d = t_ok
            forced = True
        self.decisions.append(d)
        self.forced.append(forced)
        c = cond if d else z3.Not(cond)
        self.pc.append(c)
        self.solver.add(c)
        self._note_fact(c)
        self.cur_model = m_true if d else m_false
        return d

    def choose(self, n, label="choice"):
        """Nondeterministic choice among n alternatives (returns index), via binary decisions on a fresh int."""
        if n == 1:
            return 0
        v = self.fresh_int(label)
        self.assume(z3.And(v >= 0, v < n))
        for i in range(n - 1):
            if self.decide(v == i):
                return i
        return n - 1


class Explorer:
    """Worklist of decision prefixes."""

    def __init__(self, branch_timeout_ms=10000, max_decisions=4000, max_paths=20000):
        self.work = []
        self.branch_timeout_ms = branch_timeout_ms
        self.branch_rlimit = 20000000
        self.max_decisions = max_decisions
        self.max_paths = max_paths
        self.stats = {"solver_calls": 0, "paths": 0, "aborted": 0}
        self.unsupported = []

    def schedule(self, prefix):
        self.work.append(list(prefix))

    def run(self, body):
        """body(path) is executed once per path. Yields (path, outcome) where outcome is whatever body returns."""
        self.work = [[]]
        results = []
        while self.work:
            prefix = self.work.pop()
            self.stats["paths"] += 1
            if self.stats["paths"] > self.max_paths:
                raise Unsupported(f"more than {self.max_paths} paths")
            p = PathState(self, prefix)
            try:
                out = body(p)
            except PathAbort:
                self.stats["aborted"] += 1
                results.append((p, None))
                continue
            except Unsupported as u:
                # this path left the verified subset: remembered (the run is then not a proof), but the
                # other paths are still explored - a refutation found there stands on its own.
                # Floating point branches are explored without asking the solver (decide()): such a path
                # may be infeasible - then it is no path at all.
                if p.fp_pc:
                    try:
                        if p.check_full(timeout_ms=5000) == z3.unsat:
                            self.stats["aborted"] += 1
                            results.append((p, None))
                            continue
                    except z3.Z3Exception:
                        pass
                if len(self.unsupported) < 50:
                    self.unsupported.append(u)
                self.stats["unsupported_paths"] = self.stats.get("unsupported_paths", 0) + 1
                if self.stats["unsupported_paths"] > 2000:
                    raise
                results.append((p, None))
                continue
            results.append((p, out))
        return results
