"""
Operator / container semantics for symbolic values, and dispatch to library models.
This file + stdlib.py + intops.py + bytesops.py + floats.py are the trusted encoding of Python.
"""

from __future__ import annotations

import ast
import enum
import types

import z3

from . import bytesops as B
from . import intops
from .bytesops import STuple
from .core import (
    BSeg,
    CSeg,
    Opaque,
    PathAbort,
    PyRaise,
    SBool,
    SBytes,
    SEnum,
    SFloat,
    SInt,
    SObj,
    SStr,
    SVal,
    Unsupported,
    iexpr,
)


def _I():
    from . import interp

    return interp


def is_intlike(v):
    return isinstance(v, (int, SInt, SBool)) and not isinstance(v, float)


def is_byteslike(v):
    return isinstance(v, (bytes, bytearray, SBytes))


class FilteredSeq(SVal):
    """Result of `(x for x in items if cond(x))` with symbolic conditions: items[i] is kept iff conds[i]."""

    def __init__(self, items, conds):
        self.items = items
        self.conds = conds

    def to_bytes(self, I, mutable=False):
        """Exact: a fresh byte source f with f(rank_i) == items[i] whenever conds[i], length = number kept."""
        f = I.path.fresh_fun("filtered")
        rank = z3.IntVal(0)
        for x, c in zip(self.items, self.conds):
            xe = iexpr(x)
            ce = c if not isinstance(c, bool) else z3.BoolVal(c)
            if not I.path.implied(z3.Implies(ce, z3.And(xe >= 0, xe <= 255))):
                # bytes() of an out-of-range element raises ValueError
                if I.path.decide(z3.And(ce, z3.Or(xe < 0, xe > 255))):
                    I.raise_py(ValueError, "bytes must be in range(0, 256)")
            I.path.assume(z3.Implies(ce, f(rank) == xe))
            rank = rank + z3.If(ce, z3.IntVal(1), z3.IntVal(0))
        n = z3.simplify(rank)
        if z3.is_int_value(n):
            n = n.as_long()
        seg = CSeg(f, 0, n)
        seg.filtered_from = self  # lets a later whole-sequence predicate (strict decoding) be stated over the kept items
        return SBytes([seg], mutable)


class SRange(SVal):
    """range() with symbolic bounds, iterated lazily."""

    def __init__(self, start, stop, step):
        self.start, self.stop, self.step = start, stop, step

    def iterate(self, I):
        if isinstance(self.step, SVal):
            raise Unsupported("range with symbolic step")
        step = self.step
        if step == 0:
            I.raise_py(ValueError, "range() arg 3 must not be zero")
        i = self.start
        k = 0
        while True:
            cur = i if isinstance(i, int) else None
            ie = iexpr(i)
            cond = ie < iexpr(self.stop) if step > 0 else ie > iexpr(self.stop)
            if not I.path.decide(z3.simplify(cond)):
                return
            yield i if isinstance(i, int) else I.sint(z3.simplify(ie))
            i = i + step if isinstance(i, int) else I.sint(z3.simplify(ie + step))
            k += 1


# ----------------------------------------------------------------------------- binop


def binop(I, op, a, b, inplace=False):
    from . import floats

    if isinstance(a, SFloat) or isinstance(b, SFloat) or isinstance(a, float) or isinstance(b, float):
        if (is_intlike(a) or isinstance(a, (float, SFloat))) and (is_intlike(b) or isinstance(b, (float, SFloat))):
            return floats.binop(I, op, a, b)
    if isinstance(a, SEnum) and issubclass(a.cls, int):
        a = enum_value(I, a)
    if isinstance(b, SEnum) and issubclass(b.cls, int):
        b = enum_value(I, b)
    if isinstance(a, enum.IntEnum):
        a = int(a)
    if isinstance(b, enum.IntEnum):
        b = int(b)
    if is_intlike(a) and is_intlike(b):
        return intops.int_binop(I, op, a, b)
    if is_byteslike(a) and is_byteslike(b) and op is ast.Add:
        sa = B.to_sbytes(a)
        if inplace and isinstance(a, SBytes) and a.mutable:
            a.segs.extend(B.to_sbytes(b).segs)
            return a
        return B.concat(I, sa, b, mutable=sa.mutable)
    if is_byteslike(a) and is_intlike(b) and op is ast.Mult:
        if isinstance(b, SVal):
            n = B.to_sbytes(a).fixed_len()
            if n == 1:
                sa = B.to_sbytes(a)
                sa = SBytes(sa.segs).expand()
                v = sa.segs[0].v
                if isinstance(v, int):
                    be = iexpr(b)
                    cnt = z3.If(be < 0, z3.IntVal(0), be)

                    class K:
                        def __call__(self, i):
                            return z3.IntVal(v)

                        def name(self):
                            return f"const{v}"

                    return SBytes([CSeg(K(), 0, cnt)], sa.mutable)
            raise Unsupported("bytes * symbolic int")
        sa = B.to_sbytes(a)
        return SBytes(sa.segs * max(int(b), 0), sa.mutable)
    if isinstance(a, (tuple, list)) and isinstance(b, (tuple, list)) and op is ast.Add:
        if type(a) is not type(b):
            I.raise_py(TypeError, "can only concatenate same sequence types")
        if inplace and isinstance(a, list):
            a.extend(b)
            return a
        return a + b
    if isinstance(a, (tuple, list)) and isinstance(b, int) and op is ast.Mult:
        return a * b
    if isinstance(a, (str, SStr)) and op is ast.Mod:
        return SStr("%-format")
    if isinstance(a, (str, SStr)) and isinstance(b, (str, SStr)) and op is ast.Add:
        return SStr("concat")
    if isinstance(a, dict) and isinstance(b, dict) and op is ast.BitOr:
        d = dict(a)
        d.update(b)
        return d
    if isinstance(a, SObj):
        name = {ast.Add: "__add__", ast.Sub: "__sub__", ast.Mult: "__mul__", ast.BitOr: "__or__", ast.BitAnd: "__and__"}.get(op)
        if name:
            r = I.lookup_class_attr(a.cls, name)
            if r is not None and I.is_interp_func(r[0]):
                return I.call_function(r[0], [a, b], {}, defcls=r[1])
    # type errors of Python itself
    if (is_intlike(a) and (b is None or is_byteslike(b) or isinstance(b, (str, SStr)))) or (is_intlike(b) and (a is None or isinstance(a, (str, SStr)))) or a is None or b is None:
        if not (op is ast.Mult and (is_intlike(a) or is_intlike(b))):
            I.raise_py(TypeError, f"unsupported operand type(s) for {op.__name__}")
    raise Unsupported(f"binary {op.__name__} on {type(a).__name__}, {type(b).__name__}")


def unary(I, op, v):
    from . import floats

    if isinstance(v, SFloat):
        return floats.unary(I, op, v)
    if isinstance(v, (SInt, SBool)):
        e = iexpr(v)
        if op is ast.USub:
            return I.sint(-e)
        if op is ast.UAdd:
            return I.sint(e)
        if op is ast.Invert:
            return I.sint(-e - 1)
    raise Unsupported(f"unary {op.__name__} on {type(v).__name__}")


# ----------------------------------------------------------------------------- comparison


def order(I, op, a, b):
    from . import floats

    if isinstance(a, (SFloat, float)) or isinstance(b, (SFloat, float)):
        return floats.order(I, op, a, b)
    if isinstance(a, SEnum) and issubclass(a.cls, int):
        a = enum_value(I, a)
    if isinstance(b, SEnum) and issubclass(b.cls, int):
        b = enum_value(I, b)
    if is_intlike(a) and is_intlike(b):
        ae, be = iexpr(a), iexpr(b)
        e = {ast.Lt: ae < be, ast.LtE: ae <= be, ast.Gt: ae > be, ast.GtE: ae >= be}[op]
        return I.sbool(e)
    if a is None or b is None or isinstance(a, (str, SStr)) != isinstance(b, (str, SStr)):
        I.raise_py(TypeError, f"'{op.__name__}' not supported between instances")
    if isinstance(a, SObj):
        name = {ast.Lt: "__lt__", ast.LtE: "__le__", ast.Gt: "__gt__", ast.GtE: "__ge__"}[op]
        r = I.lookup_class_attr(a.cls, name)
        if r is not None and I.is_interp_func(r[0]):
            return I.call_function(r[0], [a, b], {}, defcls=r[1])
    raise Unsupported(f"ordering of {type(a).__name__} and {type(b).__name__}")


def enum_value(I, v):
    if v.kind == "val":
        return I.sint(v.e)
    vals = [m.value for m in v.members]
    if all(isinstance(x, int) for x in vals):
        e = z3.IntVal(vals[-1])
        for i in range(len(vals) - 2, -1, -1):
            e = z3.If(v.e == i, z3.IntVal(vals[i]), e)
        return I.sint(e)
    raise Unsupported(f".value of symbolic {v.cls.__name__} with non-int values")


def enum_eq(I, a, b):
    """a is SEnum."""
    if isinstance(b, SEnum):
        if a.cls is not b.cls:
            return False
        if a.kind != b.kind:
            raise Unsupported("mixed enum encodings")
        return I.sbool(a.e == b.e)
    if isinstance(b, enum.Enum):
        if type(b) is not a.cls:
            if issubclass(a.cls, int) and isinstance(b, int):
                return I.sbool(iexpr(enum_value(I, a)) == int(b))
            return False
        if a.kind == "val":
            return I.sbool(a.e == b.value)
        if b not in a.members:
            return False
        return I.sbool(a.e == a.members.index(b))
    if issubclass(a.cls, int) and is_intlike(b):
        return I.sbool(iexpr(enum_value(I, a)) == iexpr(b))
    if issubclass(a.cls, str) and isinstance(b, str):
        if a.kind == "idx":
            hits = [i for i, m in enumerate(a.members) if m.value == b]
            if not hits:
                return False
            return I.sbool(a.e == hits[0])
    return False


def eq(I, a, b):
    """== where at least one side is symbolic. python bool or SBool."""
    from . import floats

    if isinstance(a, SEnum):
        return enum_eq(I, a, b)
    if isinstance(b, SEnum):
        return enum_eq(I, b, a)
    if isinstance(a, (SFloat, float)) or isinstance(b, (SFloat, float)):
        if (is_intlike(a) or isinstance(a, (SFloat, float))) and (is_intlike(b) or isinstance(b, (SFloat, float))):
            return floats.eq(I, a, b)
        return False
    if is_intlike(a) and is_intlike(b):
        return I.sbool(iexpr(a) == iexpr(b))
    if is_byteslike(a) and is_byteslike(b):
        return B.eq(I, a, b)
    if isinstance(a, STuple) or isinstance(b, STuple):
        return tuple_eq(I, a, b)
    if isinstance(a, SObj) or isinstance(b, SObj):
        return obj_eq(I, a, b)
    if isinstance(a, (tuple, list)) and isinstance(b, (tuple, list)):
        if isinstance(a, tuple) != isinstance(b, tuple):
            return False
        if len(a) != len(b):
            return False
        return conj(I, [I.eq(x, y) for x, y in zip(a, b)])
    if isinstance(a, dict) and isinstance(b, dict):
        if set(a.keys()) != set(b.keys()):
            return False
        return conj(I, [I.eq(a[k], b[k]) for k in a])
    if isinstance(a, (SStr, str)) and isinstance(b, (SStr, str)):
        ia = a.tag == "ipv4" if isinstance(a, SStr) else False
        ib = b.tag == "ipv4" if isinstance(b, SStr) else False
        if ia and ib:
            return B.eq(I, a.parts[0], b.parts[0])
        if ia or ib:
            s, t = (a, b) if ia else (b, a)
            import socket

            try:
                packed = socket.inet_aton(t)
                canonical = socket.inet_ntoa(packed) == t
            except (OSError, TypeError):
                canonical = False
            if not canonical:
                return False  # inet_ntoa only produces canonical dotted quads
            return B.eq(I, s.parts[0], packed)
        raise Unsupported("equality of opaque strings")
    if isinstance(a, Opaque) or isinstance(b, Opaque):
        return a is b
    if a is None or b is None:
        return False
    # different kinds
    kinds = lambda v: "int" if is_intlike(v) else "bytes" if is_byteslike(v) else "str" if isinstance(v, (str, SStr)) else type(v).__name__
    if kinds(a) != kinds(b):
        return False
    if type(a).__name__ == "BoundMethod" and type(b).__name__ == "BoundMethod":
        # bound methods are equal iff same function and same instance
        return a.func is b.func and a.self_val is b.self_val
    raise Unsupported(f"equality of {type(a).__name__} and {type(b).__name__}")


def conj(I, vals):
    es = []
    for v in vals:
        if isinstance(v, bool):
            if not v:
                return False
        elif isinstance(v, SBool):
            es.append(v.e)
        else:
            if not I.truth(v):
                return False
    if not es:
        return True
    return I.sbool(z3.And(*es))


def tuple_eq(I, a, b):
    if isinstance(a, STuple) and isinstance(b, STuple):
        return B.eq(I, a.b, b.b)
    if isinstance(b, STuple):
        a, b = b, a
    if isinstance(b, tuple):
        n = len(b)
        la = a.b.length()
        if isinstance(la, int):
            if la != n:
                return False
            cs = []
        else:
            cs = [I.sbool(la == n)]
        for i, x in enumerate(b):
            if not is_intlike(x):
                return False
            cs.append(I.sbool(a.b.at(z3.IntVal(i)) == iexpr(x)))
        return conj(I, cs)
    return False


def obj_eq(I, a, b):
    import dataclasses

    if not isinstance(a, SObj):
        # reflected
        r = I.lookup_class_attr(b.cls, "__eq__")
        if r is None or r[1] is object:
            return False
        a, b = b, a
    r = I.lookup_class_attr(a.cls, "__eq__")
    if r is None or r[1] is object:
        if isinstance(b, SObj):
            r2 = I.lookup_class_attr(b.cls, "__eq__")
            if r2 is not None and r2[1] is not object and b.cls is not a.cls:
                return obj_eq(I, b, a)
        return a is b
    f, defcls = r
    if isinstance(f, types.FunctionType) and I.is_interp_func(f) and f.__code__.co_filename != "<string>":
        res = I.call_function(f, [a, b], {}, defcls=defcls)
        if res is NotImplemented:
            return a is b
        return res
    if dataclasses.is_dataclass(defcls) and getattr(getattr(f, "__code__", None), "co_filename", "") == "<string>":
        if not isinstance(b, SObj) or b.cls is not a.cls:
            return False
        flds = [x.name for x in dataclasses.fields(a.cls) if x.compare]
        return conj(I, [I.eq(a.fields[n], b.fields[n]) for n in flds])
    if issubclass(a.cls, BaseException):
        return a is b
    raise Unsupported(f"__eq__ of {a.cls.__name__}: {f!r}")


def contains(I, container, item):
    """item in container."""
    from .interp import is_symbolic

    if type(container).__name__ == "SMap":
        h = container.has(I, item)
        return h if isinstance(h, bool) else I.sbool(h)

    if isinstance(container, (tuple, list, set, frozenset)):
        if not is_symbolic(container) and not is_symbolic(item):
            try:
                return item in container
            except TypeError as e:
                I.raise_py(TypeError, *e.args)
        rs = []
        for x in container:
            r = I.eq(x, item) if not (x is item) else True
            if r is True:
                return True
            if r is False:
                continue
            rs.append(r)
        if not rs:
            return False
        es = [r.e if isinstance(r, SBool) else z3.BoolVal(I.truth(r)) for r in rs]
        return I.sbool(z3.Or(*es))
    if isinstance(container, dict):
        if not is_symbolic(item):
            try:
                return item in container
            except TypeError as e:
                I.raise_py(TypeError, *e.args)
        return contains(I, list(container.keys()), item)
    if isinstance(container, (range,)) and is_intlike(item):
        e = iexpr(item)
        r = container
        if r.step == 1:
            return I.sbool(z3.And(e >= r.start, e < r.stop))
        return I.sbool(z3.And(e >= r.start, e < r.stop, (e - r.start) % r.step == 0))
    if is_byteslike(container):
        if is_intlike(item):
            b = B.to_sbytes(container)
            n = b.fixed_len()
            if n is None:
                raise Unsupported("int in symbolic-length bytes")
            bb = SBytes(b.segs).expand()
            return I.sbool(z3.Or(*[bb.at(i) == iexpr(item) for i in range(n)])) if n else False
        raise Unsupported("subsequence test on bytes")
    if isinstance(container, SObj):
        r = I.lookup_class_attr(container.cls, "__contains__")
        if r is not None and I.is_interp_func(r[0]):
            return I.call_function(r[0], [container, item], {}, defcls=r[1])
    if isinstance(container, str) and isinstance(item, str):
        return item in container
    if isinstance(container, Opaque):
        return opaque_contains(I, container, item)
    if isinstance(container, type) and issubclass(container, enum.Enum):
        if isinstance(item, SEnum):
            return item.cls is container
        return item in container
    raise Unsupported(f"'in' on {type(container).__name__}")


def opaque_contains(I, container, item):
    raise Unsupported(f"'in' on opaque {container.tag}")


# ----------------------------------------------------------------------------- subscripts


def get_item(I, obj, idx):
    from .interp import is_symbolic

    if type(obj).__name__ == "SMap":
        h = obj.has(I, idx)
        if h is False or not I.path.decide(h):
            I.raise_py(KeyError, idx)
        return obj.value_at(I, obj.touched[-1])

    if type(obj).__name__ == "SymList":
        # a havocked list: only the part appended since the havoc is known - negative indices into it
        if isinstance(idx, int) and not isinstance(idx, bool) and idx < 0 and -idx <= len(obj.tail):
            return obj.tail[idx]
        raise Unsupported(f"read of the unknown part of a havocked list (index {idx!r}, known tail {obj.tail!r})")
    if isinstance(obj, SBytes) or (isinstance(obj, (bytes, bytearray)) and is_symbolic(idx)):
        b = B.to_sbytes(obj)
        if isinstance(idx, slice):
            return B.slice_(I, b, idx)
        return B.index(I, b, idx)
    if isinstance(obj, SStr) and obj.tag in ("latin1", "latin1_rstrip0") and isinstance(idx, slice) and idx.start is None and idx.step is None and isinstance(idx.stop, int):
        n = obj.parts[0].fixed_len()
        if n is not None and idx.stop >= n:
            return obj
        raise Unsupported("slice of symbolic string")
    if isinstance(obj, STuple):
        if isinstance(idx, slice):
            return STuple(B.slice_(I, obj.b, idx))
        return B.index(I, obj.b, idx)
    if isinstance(obj, (tuple, list)):
        if isinstance(idx, slice):
            if is_symbolic([idx.start, idx.stop, idx.step]):
                raise Unsupported("symbolic slice of python sequence")
            return obj[idx]
        if isinstance(idx, (SInt, SBool)):
            e = iexpr(idx)
            n = len(obj)
            for i in range(n):
                if I.path.decide(z3.Or(e == i, e == i - n)):
                    return obj[i]
            I.raise_py(IndexError, "index out of range")
        try:
            return obj[idx]
        except Exception as ex:
            raise PyRaise(I.mkexc(type(ex), *ex.args))
    if isinstance(obj, dict):
        if is_symbolic(idx):
            for k in obj:
                r = I.eq(k, idx)
                if r is True or (r is not False and I.truth(r)):
                    return obj[k]
            I.raise_py(KeyError, idx)
        try:
            return obj[idx]
        except Exception as ex:
            raise PyRaise(I.mkexc(type(ex), *ex.args))
    if isinstance(obj, SObj):
        r = I.lookup_class_attr(obj.cls, "__getitem__")
        if r is not None and I.is_interp_func(r[0]):
            return I.call_function(r[0], [obj, idx], {}, defcls=r[1])
        I.raise_py(TypeError, f"'{obj.cls.__name__}' object is not subscriptable")
    if isinstance(obj, type) and issubclass(obj, enum.Enum) and isinstance(idx, SStr) and idx.tag == "enum_name":
        # Cls[<name of a symbolic member, lower/upper-cased>]
        se, tr = idx.parts
        names = [m.name for m in se.members]
        wanted = [n.upper() if tr == "upper" else n.lower() if tr == "lower" else n for n in names]
        if se.cls is obj and all(w in obj.__members__ and obj.__members__[w] is m for w, m in zip(wanted, se.members)):
            return se
        if all(w not in obj.__members__ for w in wanted):
            I.raise_py(KeyError, "enum name")
        raise Unsupported("Enum[...] with a name that maps some members and not others")
    if isinstance(obj, type) and issubclass(obj, enum.Enum) and isinstance(idx, (SStr, SVal)):
        raise Unsupported("Enum[...] with symbolic name")
    if isinstance(obj, Opaque):
        return opaque_getitem(I, obj, idx)
    if obj is None:
        I.raise_py(TypeError, "'NoneType' object is not subscriptable")
    if isinstance(obj, SVal) or is_symbolic(idx):
        raise Unsupported(f"subscript of {type(obj).__name__} by {type(idx).__name__}")
    try:
        return obj[idx]
    except Exception as ex:
        raise PyRaise(I.mkexc(type(ex), *ex.args))


def opaque_getitem(I, obj, idx):
    raise Unsupported(f"subscript of opaque {obj.tag}")


def store_item(I, obj, idx, v):
    from .interp import is_symbolic

    if type(obj).__name__ == "SMap":
        obj.store(I, idx, v)
        return

    if isinstance(obj, SBytes):
        if not obj.mutable:
            I.raise_py(TypeError, "'bytes' object does not support item assignment")
        if isinstance(idx, slice):
            raise Unsupported("slice assignment on bytearray")
        n = obj.fixed_len()
        if n is None or isinstance(idx, SVal):
            # allow index into leading fixed part
            if isinstance(idx, int) and idx >= 0 and all(isinstance(s, BSeg) for s in obj.segs[: idx + 1]) and len(obj.segs) > idx:
                pass
            elif isinstance(idx, int) and idx >= 0 and _split_for_store(I, obj, idx):
                pass
            else:
                raise Unsupported("item assignment on symbolic-length bytearray")
        else:
            obj.expand()
            if not -n <= idx < n:
                I.raise_py(IndexError, "bytearray index out of range")
            if idx < 0:
                idx += n
        if is_intlike(v):
            e = iexpr(v)
            ok = z3.And(e >= 0, e <= 255)
            if not I.path.decide(z3.simplify(ok)) if not isinstance(v, int) else not (0 <= int(v) <= 255):
                I.raise_py(ValueError, "byte must be in range(0, 256)")
            obj.segs[idx] = BSeg(int(v) if isinstance(v, int) else e)
            return
        I.raise_py(TypeError, "an integer is required")
    if isinstance(obj, list):
        if isinstance(idx, SVal):
            raise Unsupported("list store at symbolic index")
        try:
            obj[idx] = v
        except Exception as ex:
            raise PyRaise(I.mkexc(type(ex), *ex.args))
        return
    if isinstance(obj, dict):
        if is_symbolic(idx):
            for k in obj:
                r = I.eq(k, idx)
                if r is True or (r is not False and I.truth(r)):
                    obj[k] = v
                    return
            obj[_KeyWrap(idx)] = v
            return
        obj[idx] = v
        return
    if type(obj).__name__ == "SymDict":
        obj.stores.append((idx, v))
        return
    if isinstance(obj, SObj):
        r = I.lookup_class_attr(obj.cls, "__setitem__")
        if r is not None and I.is_interp_func(r[0]):
            I.call_function(r[0], [obj, idx, v], {}, defcls=r[1])
            return
    if isinstance(obj, Opaque):
        return opaque_setitem(I, obj, idx, v)
    if isinstance(obj, bytearray):
        raise Unsupported("store into concrete bytearray (should be SBytes)")
    raise Unsupported(f"item assignment on {type(obj).__name__}")


def _split_for_store(I, obj, idx):
    """Make position idx of a bytearray an own BSeg (splitting a symbolic-length segment), raising
    IndexError on the paths where idx is out of range. True on success."""
    pos = 0
    for si, s in enumerate(obj.segs):
        if isinstance(s, BSeg):
            if pos == idx:
                return True
            pos += 1
            continue
        if isinstance(s.n, int):
            if idx < pos + s.n:
                obj.expand()
                return _split_for_store(I, obj, idx)
            pos += s.n
            continue
        # symbolic-length segment starting at concrete pos
        k = idx - pos
        if not I.path.decide(iexpr(s.n) > k):
            # idx beyond this segment: only supported when it is the last one (then IndexError)
            if si == len(obj.segs) - 1:
                I.raise_py(IndexError, "bytearray index out of range")
            return False
        from .core import _clip

        head = [BSeg(_clip(s.f(iexpr(s.off) + j))) for j in range(k + 1)]
        tail = CSeg(s.f, B._add(s.off, k + 1), B._simp(iexpr(s.n) - (k + 1)))
        obj.segs[si : si + 1] = head + [tail]
        return True
    I.raise_py(IndexError, "bytearray index out of range")


class _KeyWrap:
    """Hashable wrapper for a symbolic dict key (identity hash; equality resolved through I.eq at lookups)."""

    def __init__(self, v):
        self.v = v


def opaque_setitem(I, obj, idx, v):
    raise Unsupported(f"item assignment on opaque {obj.tag}")


def del_item(I, obj, idx):
    from .interp import is_symbolic

    if isinstance(obj, dict):
        if is_symbolic(idx):
            for k in list(obj):
                r = I.eq(k, idx)
                if r is True or (r is not False and I.truth(r)):
                    del obj[k]
                    return
            I.raise_py(KeyError, idx)
        try:
            del obj[idx]
        except Exception as ex:
            raise PyRaise(I.mkexc(type(ex), *ex.args))
        return
    if isinstance(obj, list) and not isinstance(idx, SVal):
        try:
            del obj[idx]
        except Exception as ex:
            raise PyRaise(I.mkexc(type(ex), *ex.args))
        return
    cls = obj.cls if isinstance(obj, SObj) else type(obj)
    r = I.lookup_class_attr(cls, "__delitem__") if isinstance(cls, type) and I.is_interp_class(cls) else None
    if r is not None:
        I.call_function(r[0], [obj, idx], {}, defcls=r[1])
        return
    raise Unsupported(f"del item on {type(obj).__name__}")


# ----------------------------------------------------------------------------- late-bound (stdlib.py)

from .stdlib import (  # noqa: E402
    await_value,
    call_builtin_method,
    call_method,
    call_opaque,
    enum_lookup,
    float_nonzero,
    format_value,
    iterate_opaque,
    lookup,
    loop_with_invariant,
    opaque_getattr,
    with_context,
)
