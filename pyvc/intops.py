"""Exact integer semantics of Python on z3 Int (unbounded integers; no overflow assumption)."""

from __future__ import annotations

import ast

import z3

from .core import SBool, SInt, Unsupported, iexpr


def tz(c):
    if c == 0:
        return 10**6
    return (c & -c).bit_length() - 1


def bits_of(v):
    """(lz, nb): v is a multiple of 2**lz; if nb is not None 0 <= v < 2**nb."""
    if isinstance(v, bool):
        v = int(v)
    if isinstance(v, int):
        return (tz(v), v.bit_length() if v >= 0 else None)
    if isinstance(v, SInt):
        return (v.lz, v.nb)
    if isinstance(v, SBool):
        return (0, 1)
    return (0, None)


def mask_runs(c):
    """[(lo, width)] of the 1-bit runs of a non-negative constant."""
    runs = []
    i = 0
    while c >> i:
        if (c >> i) & 1:
            j = i
            while (c >> j) & 1:
                j += 1
            runs.append((i, j - i))
            i = j
        else:
            i += 1
    return runs


def and_const(I, x, c):
    """x & c for symbolic x and python int c (exact for all integers x)."""
    if c == 0:
        return 0
    if c == -1:
        return x
    lz, nb = bits_of(x)
    xe = iexpr(x)
    if c >= 0 and isinstance(x, SInt) and x.be is not None and len(x.be) > 1:
        r = be_and_const(I, x, c)
        if r is not None:
            return r
    if c < 0:
        # x & c == x - (x & ~c), ~c >= 0
        m = ~c
        r = and_const(I, x, m)
        return I.sint(xe - iexpr(r))
    if nb is not None:
        low = (1 << nb) - 1
        if c & low == low:
            return x if isinstance(x, SInt) else I.sint(xe, lz, nb)
        c &= low
        if c == 0:
            return 0
    if lz >= c.bit_length():
        return 0
    terms = []
    for lo, w in mask_runs(c):
        if lo + w <= lz:
            continue
        t = xe
        if lo:
            t = t / (1 << lo)  # z3 Int div: floor for positive divisor
        if not (nb is not None and nb <= lo + w):
            t = t % (1 << w)
        if lo:
            t = t * (1 << lo)
        terms.append(t)
    if not terms:
        return 0
    e = terms[0]
    for t in terms[1:]:
        e = e + t
    return I.sint(e, max(tz(c), 0), c.bit_length())


def _prove_bits(I, v):
    """Find nb with 0 <= v < 2**nb from the path condition (8/16/32/64) or None."""
    lz, nb = bits_of(v)
    if nb is not None:
        return nb
    e = iexpr(v)
    for w in (1, 8, 16, 32, 64):
        if I.path.implied(z3.And(e >= 0, e < (1 << w))):
            return w
    return None


def and_sym(I, a, b):
    la, na = bits_of(a)
    lb, nb_ = bits_of(b)
    if na is None:
        na = _prove_bits(I, a)
    if nb_ is None:
        nb_ = _prove_bits(I, b)
    if na is None and nb_ is None:
        raise Unsupported("bitwise and/or/xor of two integers of unknown width")
    ae, be = iexpr(a), iexpr(b)
    w = min(x for x in (na, nb_) if x is not None)
    lo = max(la, lb)
    if lo >= w:
        return 0
    terms = []
    for i in range(lo, w):
        ba = (ae / (1 << i)) % 2 if i else ae % 2
        bb = (be / (1 << i)) % 2 if i else be % 2
        terms.append(z3.If(z3.And(ba == 1, bb == 1), z3.IntVal(1 << i), z3.IntVal(0)))
    e = terms[0]
    for t in terms[1:]:
        e = e + t
    return I.sint(e, lo, w)


def band(I, a, b):
    if isinstance(a, (int, bool)) and not isinstance(a, SInt):
        return and_const(I, b, int(a))
    if isinstance(b, (int, bool)):
        return and_const(I, a, int(b))
    return and_sym(I, a, b)


def bor(I, a, b):
    la, na = bits_of(a)
    lb, nb_ = bits_of(b)
    ae, be = iexpr(a), iexpr(b)
    # disjoint bit ranges: a | b == a + b  (holds for any integer on the side that is a multiple of 2**k)
    if nb_ is not None and nb_ <= la or na is not None and na <= lb:
        nn = None if (na is None or nb_ is None) else max(na, nb_)
        r = be_add_disjoint(I, a, b)
        if r is not None:
            return r
        return I.sint(ae + be, min(la, lb), nn)
    c = band(I, a, b)
    nn = None if (na is None or nb_ is None) else max(na, nb_)
    return I.sint(ae + be - iexpr(c), min(la, lb), nn)


def bxor(I, a, b):
    la, na = bits_of(a)
    lb, nb_ = bits_of(b)
    ae, be = iexpr(a), iexpr(b)
    if nb_ is not None and nb_ <= la or na is not None and na <= lb:
        nn = None if (na is None or nb_ is None) else max(na, nb_)
        return I.sint(ae + be, min(la, lb), nn)
    c = band(I, a, b)
    nn = None if (na is None or nb_ is None) else max(na, nb_)
    return I.sint(ae + be - 2 * iexpr(c), min(la, lb), nn)


def shl(I, a, k):
    if isinstance(k, (SInt, SBool)):
        n = _prove_bits(I, k)
        if n is None or n > 8:
            raise Unsupported("shift by symbolic amount of unknown range")
        ke = iexpr(k)
        ae = iexpr(a)
        e = ae * (1 << ((1 << n) - 1))
        for j in range((1 << n) - 2, -1, -1):
            e = z3.If(ke == j, ae * (1 << j), e)
        return I.sint(e)
    if k < 0:
        I.raise_py(ValueError, "negative shift count")
    la, na = bits_of(a)
    if k % 8 == 0 and k and not isinstance(a, (int, bool)):
        r = be_shl(I, a, k)
        if r is not None:
            return r
    return I.sint(iexpr(a) * (1 << k), la + k, None if na is None else na + k)


def shr(I, a, k):
    if isinstance(k, (SInt, SBool)):
        n = _prove_bits(I, k)
        if n is None or n > 8:
            raise Unsupported("shift by symbolic amount of unknown range")
        ke = iexpr(k)
        ae = iexpr(a)
        e = ae / (1 << ((1 << n) - 1))
        for j in range((1 << n) - 2, -1, -1):
            e = z3.If(ke == j, ae / (1 << j) if j else ae, e)
        return I.sint(e)
    if k < 0:
        I.raise_py(ValueError, "negative shift count")
    if k == 0:
        return a
    la, na = bits_of(a)
    if na is not None and na <= k:
        return 0
    if k % 8 == 0 and isinstance(a, SInt) and a.be is not None:
        r = be_shr(I, a, k)
        if r is not None:
            return r
    return I.sint(iexpr(a) / (1 << k), max(la - k, 0) if la < 10**5 else la, None if na is None else na - k)


def floordiv(I, a, b):
    be = iexpr(b)
    ae = iexpr(a)
    if isinstance(b, (int, bool)):
        b = int(b)
        if b == 0:
            I.raise_py(ZeroDivisionError, "integer division or modulo by zero")
        if b > 0:
            return I.sint(ae / b)
        return I.sint((-ae) / (-b))
    if I.path.decide(be == 0):
        I.raise_py(ZeroDivisionError, "integer division or modulo by zero")
    if I.path.decide(be > 0):
        return I.sint(ae / be)
    return I.sint((-ae) / (-be))


def mod(I, a, b):
    ae = iexpr(a)
    if isinstance(b, (int, bool)):
        b = int(b)
        if b == 0:
            I.raise_py(ZeroDivisionError, "integer division or modulo by zero")
        if b > 0:
            pw = b.bit_length() - 1 if b & (b - 1) == 0 else None
            return I.sint(ae % b, 0, pw)
        return I.sint(-((-ae) % (-b)))
    be = iexpr(b)
    if I.path.decide(be == 0):
        I.raise_py(ZeroDivisionError, "integer division or modulo by zero")
    if I.path.decide(be > 0):
        return I.sint(ae % be)
    return I.sint(-((-ae) % (-be)))


def int_binop(I, op, a, b):
    """a, b int-like (python int/bool, SInt, SBool), at least one symbolic."""
    if op is ast.Add:
        la, na = bits_of(a)
        lb, nb_ = bits_of(b)
        nn = None if (na is None or nb_ is None) else max(na, nb_) + 1
        return I.sint(iexpr(a) + iexpr(b), min(la, lb), nn)
    if op is ast.Sub:
        return I.sint(iexpr(a) - iexpr(b))
    if op is ast.Mult:
        la, na = bits_of(a)
        lb, nb_ = bits_of(b)
        nn = None if (na is None or nb_ is None) else na + nb_
        if isinstance(a, (int, bool)) and int(a) == 0 or isinstance(b, (int, bool)) and int(b) == 0:
            return 0
        return I.sint(iexpr(a) * iexpr(b), min(la + lb, 10**6), nn)
    if op is ast.FloorDiv:
        return floordiv(I, a, b)
    if op is ast.Mod:
        return mod(I, a, b)
    if op is ast.BitAnd:
        return band(I, a, b)
    if op is ast.BitOr:
        return bor(I, a, b)
    if op is ast.BitXor:
        return bxor(I, a, b)
    if op is ast.LShift:
        return shl(I, a, b)
    if op is ast.RShift:
        return shr(I, a, b)
    if op is ast.Pow:
        if isinstance(b, (int, bool)) and int(b) >= 0:
            e = z3.IntVal(1)
            for _ in range(int(b)):
                e = e * iexpr(a)
            return I.sint(e)
        if isinstance(a, int) and a == 2:
            return shl(I, 1, b)
        raise Unsupported("symbolic exponent")
    if op is ast.Div:
        from . import floats

        return floats.truediv(I, a, b)
    raise Unsupported(f"integer operator {op.__name__}")


# ----------------------------------------------------------------------------- octet decomposition


def be_of(v):
    """Big-endian octet list (z3 exprs / ints) of an int-like value, or None."""
    if isinstance(v, bool):
        v = int(v)
    if isinstance(v, int):
        if v < 0:
            return None
        n = max(1, (v.bit_length() + 7) // 8)
        return [(v >> (8 * (n - 1 - i))) & 0xFF for i in range(n)]
    if isinstance(v, SInt):
        if v.be is not None:
            return list(v.be)
        if v.nb is not None and v.nb <= 8:
            return [v.e]
    if isinstance(v, SBool):
        return [iexpr(v)]
    return None


def _is_zero(x):
    return (isinstance(x, int) and x == 0) or (z3.is_int_value(x) and x.as_long() == 0)


def from_be(I, be, lz=None, nb=None):
    """SInt (or python int) from an octet list."""
    be = list(be)
    while len(be) > 1 and _is_zero(be[0]):
        be.pop(0)
    if all(isinstance(x, int) or z3.is_int_value(x) for x in be):
        v = 0
        for x in be:
            v = v * 256 + (x if isinstance(x, int) else x.as_long())
        return v
    e = None
    n = len(be)
    for i, x in enumerate(be):
        if _is_zero(x):
            continue
        sh = 8 * (n - 1 - i)
        t = iexpr(x) * (1 << sh) if sh else iexpr(x)
        e = t if e is None else e + t
    tzb = 0
    for x in reversed(be):
        if _is_zero(x):
            tzb += 8
        else:
            break
    r = SInt(e, tzb if lz is None else lz, 8 * n if nb is None else nb, be)
    return r


def be_and_const(I, x, c):
    """x & c through the decomposition (c >= 0); returns value or None if not applicable."""
    be = be_of(x)
    if be is None or c < 0:
        return None
    n = len(be)
    out = []
    for i, b in enumerate(be):
        m = (c >> (8 * (n - 1 - i))) & 0xFF
        if m == 0:
            out.append(0)
        elif m == 0xFF:
            out.append(b)
        elif isinstance(b, int):
            out.append(b & m)
        else:
            r = and_const(I, SInt(b, 0, 8), m)
            out.append(r if isinstance(r, int) else r.e)
    return from_be(I, out, nb=min(8 * n, c.bit_length()))


def be_shr(I, x, k):
    be = be_of(x)
    if be is None or k % 8:
        return None
    d = k // 8
    if d >= len(be):
        return 0
    return from_be(I, be[: len(be) - d])


def be_shl(I, x, k):
    be = be_of(x)
    if be is None or k % 8:
        return None
    return from_be(I, be + [0] * (k // 8))


def be_add_disjoint(I, a, b):
    """a + b where b fits into a's trailing zero octets."""
    ba, bb = be_of(a), be_of(b)
    if ba is None or bb is None:
        return None
    if len(bb) > len(ba):
        ba, bb = bb, ba
    while len(bb) > 1 and _is_zero(bb[0]):
        bb = bb[1:]
    k = len(bb)
    if not all(_is_zero(x) for x in ba[len(ba) - k :]):
        return None
    return from_be(I, ba[: len(ba) - k] + bb)
