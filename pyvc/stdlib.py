"""
Trusted library contracts: builtins, struct, enum, logging, typing.cast ... on symbolic values.
Everything here is *assumed* (listed in the evidence as trusted base) and differential-tested
against CPython by the driver (every explored path is replayed natively from a model).
"""

from __future__ import annotations

import ast
import builtins
import enum
import logging
import struct
import types
import typing

import z3

from . import bytesops as B
from .bytesops import STuple
from .core import (
    BSeg,
    CSeg,
    Opaque,
    PathAbort,
    PyRaise,
    SBool,
    SBytes,
    SEnum,
    SFloat,
    SInt,
    SObj,
    SStr,
    SVal,
    Unsupported,
    iexpr,
)

MODELS = {}  # callable object -> handler(I, args, kwargs)
METHOD_MODELS = {}  # (python type, method name) -> handler(I, recv, args, kwargs)


def model(*objs):
    def deco(fn):
        for o in objs:
            MODELS[o] = fn
        return fn

    return deco


def lookup(f):
    try:
        m = MODELS.get(f)
    except TypeError:
        return None
    if m is not None:
        return m
    # bound method of a real object
    if isinstance(f, types.MethodType):
        m = MODELS.get(f.__func__)
        if m is not None:
            recv = f.__self__
            return lambda I, a, k: m(I, [recv] + a, k)
        if isinstance(f.__self__, logging.Logger):
            return _noop
    if isinstance(f, types.BuiltinMethodType) and getattr(f, "__self__", None) is not None and not isinstance(f.__self__, types.ModuleType):
        recv = f.__self__
        name = f.__name__
        return lambda I, a, k: call_method(I, recv, name, a, k)
    if isinstance(f, (types.MethodDescriptorType, types.WrapperDescriptorType, types.ClassMethodDescriptorType)):
        name = f.__name__
        return lambda I, a, k: call_method(I, a[0], name, a[1:], k)
    return None


def _noop(I, args, kwargs):
    return None


def is_intlike(v):
    return isinstance(v, (int, SInt, SBool)) and not isinstance(v, float)


def is_byteslike(v):
    return isinstance(v, (bytes, bytearray, SBytes))


def _sym(v):
    from .interp import is_symbolic

    return is_symbolic(v)


def _native(I, f, args, kwargs):
    try:
        return f(*args, **kwargs)
    except Exception as ex:
        raise PyRaise(I.mkexc(type(ex), *ex.args))


# ----------------------------------------------------------------------------- builtins


@model(builtins.len)
def m_len(I, args, kwargs):
    (v,) = args
    if isinstance(v, SBytes):
        return B.blen(I, v)
    if isinstance(v, STuple):
        return B.blen(I, v.b)
    from .api import SymList

    if isinstance(v, SymList):
        return I.sint(v.n0 + len(v.tail))
    if type(v).__name__ == "SymDict":
        n = I.path.fresh_int("len.symdict")
        I.path.assume(n >= 0)
        return I.sint(n)
    if isinstance(v, SObj):
        r = I.lookup_class_attr(v.cls, "__len__")
        if r is not None and I.is_interp_func(r[0]):
            return I.call_function(r[0], [v], {}, defcls=r[1])
        I.raise_py(TypeError, f"object of type '{v.cls.__name__}' has no len()")
    if isinstance(v, Opaque):
        return opaque_len(I, v)
    if isinstance(v, SVal):
        if isinstance(v, (SInt, SBool, SFloat)):
            I.raise_py(TypeError, "object has no len()")
        raise Unsupported(f"len of {v!r}")
    return _native(I, len, [v], {})


def opaque_len(I, v):
    raise Unsupported(f"len of opaque {v.tag}")


def py_type(I, v):
    if isinstance(v, SObj):
        return v.cls
    if isinstance(v, SEnum):
        return v.cls
    if isinstance(v, SInt):
        return int
    if isinstance(v, SBool):
        return bool
    if isinstance(v, SFloat):
        return float
    if isinstance(v, SStr):
        return str
    if isinstance(v, SBytes):
        return bytearray if v.mutable else bytes
    if isinstance(v, STuple):
        return tuple
    from .interp import BoundMethod, IFunc, ModelMethod

    if isinstance(v, (IFunc,)):
        return types.FunctionType
    if isinstance(v, (BoundMethod, ModelMethod)):
        return types.MethodType
    if isinstance(v, Opaque):
        return v.attrs.get("__class__", object)
    if isinstance(v, SVal):
        raise Unsupported(f"type of {v!r}")
    return type(v)


def _flatten_types(t):
    if isinstance(t, tuple):
        out = []
        for x in t:
            out.extend(_flatten_types(x))
        return out
    if isinstance(t, types.UnionType) or typing.get_origin(t) is typing.Union:
        return list(typing.get_args(t))
    return [t]


@model(builtins.isinstance)
def m_isinstance(I, args, kwargs):
    v, t = args
    ts = _flatten_types(t)
    k = py_type(I, v)
    for x in ts:
        if not isinstance(x, type):
            o = typing.get_origin(x)
            if o is None:
                raise Unsupported(f"isinstance against {x!r}")
            x = o
        try:
            if issubclass(k, x):
                return True
        except TypeError:
            pass
    return False


@model(builtins.issubclass)
def m_issubclass(I, args, kwargs):
    return _native(I, issubclass, args, kwargs)


@model(builtins.type)
def m_type(I, args, kwargs):
    if len(args) == 1:
        return py_type(I, args[0])
    raise Unsupported("type() with 3 arguments")


@model(builtins.id)
def m_id(I, args, kwargs):
    return id(args[0])


@model(builtins.callable)
def m_callable(I, args, kwargs):
    from .interp import BoundMethod, IFunc, ModelMethod

    v = args[0]
    if isinstance(v, (IFunc, BoundMethod, ModelMethod)):
        return True
    if isinstance(v, Opaque):
        return v.attrs.get("__callable__", True)
    if isinstance(v, SVal):
        return False
    return callable(v)


@model(builtins.hasattr)
def m_hasattr(I, args, kwargs):
    v, name = args
    saved = I.cfg.get("_probing")
    I.cfg["_probing"] = True
    try:
        I.getattr(v, name)
        return True
    except PyRaise as pr:
        if issubclass(pr.exc.cls, AttributeError):
            return False
        raise
    finally:
        I.cfg["_probing"] = saved


@model(builtins.getattr)
def m_getattr(I, args, kwargs):
    v, name = args[0], args[1]
    if isinstance(name, SVal):
        raise Unsupported("getattr with symbolic name")
    saved = I.cfg.get("_probing")
    I.cfg["_probing"] = len(args) > 2
    try:
        return I.getattr(v, name)
    except PyRaise as pr:
        if len(args) > 2 and issubclass(pr.exc.cls, AttributeError):
            return args[2]
        raise
    finally:
        I.cfg["_probing"] = saved


@model(builtins.setattr)
def m_setattr(I, args, kwargs):
    v, name, val = args
    I.setattr(v, name, val)


@model(builtins.bool)
def m_bool(I, args, kwargs):
    if not args:
        return False
    v = args[0]
    if isinstance(v, SBool):
        return v
    if isinstance(v, (SInt, SBytes)):
        zb = I.as_z3_bool(v)
        return zb if isinstance(zb, bool) else I.sbool(zb)
    return I.truth(v)


@model(builtins.int)
def m_int(I, args, kwargs):
    from . import floats

    if not args:
        return 0
    v = args[0]
    if len(args) > 1 or kwargs:
        if _sym(args):
            raise Unsupported("int(x, base) on symbolic")
        return _native(I, int, args, kwargs)
    if isinstance(v, SInt):
        return v
    if isinstance(v, SBool):
        return I.sint(iexpr(v), 0, 1)
    if isinstance(v, SEnum) and issubclass(v.cls, int):
        return I.models.enum_value(I, v)
    if isinstance(v, SFloat):
        return floats.to_int(I, v)
    if isinstance(v, SStr):
        return str_to_int(I, v)
    if isinstance(v, (SObj,)):
        r = I.lookup_class_attr(v.cls, "__int__") or I.lookup_class_attr(v.cls, "__index__")
        if r is not None and I.is_interp_func(r[0]):
            return I.call_function(r[0], [v], {}, defcls=r[1])
        I.raise_py(TypeError, "int() argument must be a string, a bytes-like object or a real number")
    if isinstance(v, SBytes):
        raise Unsupported("int(bytes)")
    if v is None or isinstance(v, (list, tuple, dict, STuple, Opaque)):
        I.raise_py(TypeError, "int() argument must be a string, a bytes-like object or a real number")
    return _native(I, int, [v], {})


def str_to_int(I, v):
    raise Unsupported("int() of opaque string")


@model(builtins.float)
def m_float(I, args, kwargs):
    from . import floats

    if not args:
        return 0.0
    v = args[0]
    if isinstance(v, SFloat):
        return v
    if isinstance(v, (SInt, SBool)):
        return floats.from_int(I, v)
    if isinstance(v, SStr):
        raise Unsupported("float() of opaque string")
    if isinstance(v, SVal) or v is None or isinstance(v, (list, tuple, dict)):
        if isinstance(v, (SObj, SBytes, STuple, Opaque)) or v is None or isinstance(v, (list, tuple, dict)):
            I.raise_py(TypeError, "float() argument must be a string or a real number")
        raise Unsupported(f"float of {v!r}")
    return _native(I, float, [v], {})


@model(builtins.str)
def m_str(I, args, kwargs):
    if not args:
        return ""
    v = args[0]
    if _sym(v):
        format_value(I, v, 115)
        return SStr("str()")
    return _native(I, str, args, kwargs)


@model(builtins.repr, builtins.ascii, builtins.format)
def m_repr(I, args, kwargs):
    v = args[0]
    if _sym(args):
        format_value(I, v, 114)
        return SStr("repr()")
    return _native(I, repr, [v], {})


@model(builtins.hex, builtins.bin, builtins.oct)
def m_hex(I, args, kwargs):
    v = args[0]
    if isinstance(v, (SInt, SBool)):
        return SStr("hex()")
    if isinstance(v, SVal) or not isinstance(v, int):
        I.raise_py(TypeError, "object cannot be interpreted as an integer")
    return hex(v)


@model(builtins.print)
def m_print(I, args, kwargs):
    return None


@model(builtins.hash)
def m_hash(I, args, kwargs):
    v = args[0]
    if _sym(v):
        return SInt(I.path.fresh_int("hash"))
    return _native(I, hash, [v], {})


def format_value(I, v, conversion):
    """Evaluate what str()/repr()/format() of a symbolic value would execute (for its exceptions)."""
    if isinstance(v, SObj) and not issubclass(v.cls, BaseException):
        name = "__repr__" if conversion == 114 else "__str__"
        r = I.lookup_class_attr(v.cls, name)
        if (r is None or r[1] is object) and name == "__str__":
            r = I.lookup_class_attr(v.cls, "__repr__")
        if r is not None and r[1] is not object and isinstance(r[0], types.FunctionType) and I.is_interp_func(r[0]) and I.cfg.get("eval_str_methods", False):
            I.call_function(r[0], [v], {}, defcls=r[1])
    return None


@model(builtins.bytes)
def m_bytes(I, args, kwargs):
    return _mk_bytes(I, args, kwargs, False)


@model(builtins.bytearray)
def m_bytearray(I, args, kwargs):
    return _mk_bytes(I, args, kwargs, True)


class _RStripped(SBytes):
    """bytes(s, 'latin_1') of a latin-1 string whose trailing NULs were stripped: only `.ljust(n, NUL)`
    back to the original length is in the subset."""

    __slots__ = ("_rstripped0",)

    def __init__(self, full):
        SBytes.__init__(self, [], False)
        self._rstripped0 = full


def _mk_bytes(I, args, kwargs, mutable):
    if not args:
        return SBytes([], True) if mutable else b""
    v = args[0]
    if len(args) > 1 or kwargs:
        enc = args[1] if len(args) > 1 else kwargs.get("encoding")
        if isinstance(v, SStr) and v.tag in ("latin1", "latin1_rstrip0") and isinstance(enc, str) and enc.lower().replace("-", "_") in ("latin_1", "latin1"):
            if v.tag == "latin1":
                return SBytes(list(v.parts[0].segs), mutable)
            r = _RStripped(v.parts[0])
            return r
        if _sym(args) or _sym(kwargs):
            raise Unsupported("bytes(str, encoding) on symbolic")
        r = _native(I, bytearray if mutable else bytes, args, kwargs)
        return SBytes.from_concrete(r, True) if mutable else r
    if isinstance(v, SBytes):
        return SBytes(list(v.segs), mutable)
    if type(v).__name__ == "FilteredSeq":
        return v.to_bytes(I, mutable)
    if isinstance(v, STuple):
        return SBytes(list(v.b.segs), mutable)
    if isinstance(v, (bytes, bytearray)):
        return SBytes.from_concrete(v, True) if mutable else bytes(v)
    if isinstance(v, (SInt, SBool)):
        return B.zeros(I, v, mutable)
    if isinstance(v, bool) or isinstance(v, int):
        if v < 0:
            I.raise_py(ValueError, "negative count")
        if v > 100000:
            raise Unsupported("huge bytes(n)")
        return SBytes([BSeg(0)] * v, True) if mutable else bytes(v)
    if isinstance(v, tuple) and hasattr(type(v), "_fields"):
        r = I.lookup_class_attr(type(v), "__bytes__")
        if r is not None and I.is_interp_class(r[1]):
            return I.call_function(r[0], [v], {}, defcls=r[1])
    if isinstance(v, (list, tuple)):
        if not _sym(v):
            r = _native(I, bytearray if mutable else bytes, [v], {})
            return SBytes.from_concrete(r, True) if mutable else r
        return B.from_iterable(I, v, mutable)
    if isinstance(v, SObj):
        r = I.lookup_class_attr(v.cls, "__bytes__")
        if r is not None and I.is_interp_func(r[0]):
            res = I.call_function(r[0], [v], {}, defcls=r[1])
            return res
        r = I.lookup_class_attr(v.cls, "__iter__")
        if r is not None:
            return B.from_iterable(I, list(I.iterate(v, None, None)), mutable)
        I.raise_py(TypeError, f"cannot convert '{v.cls.__name__}' object to bytes")
    if isinstance(v, (str, SStr)):
        I.raise_py(TypeError, "string argument without an encoding")
    if v is None or isinstance(v, (SFloat, float)):
        I.raise_py(TypeError, "cannot convert object to bytes")
    if isinstance(v, SVal):
        raise Unsupported(f"bytes({v!r})")
    items = list(I.iterate(v, None, None))
    return B.from_iterable(I, items, mutable)


@model(builtins.tuple)
def m_tuple(I, args, kwargs):
    if not args:
        return ()
    v = args[0]
    if isinstance(v, SBytes):
        if v.fixed_len() is not None or B.fix(I, v).fixed_len() is not None:
            return tuple(I.iterate(v, None, None))
        return STuple(SBytes(list(v.segs), False))
    if isinstance(v, STuple):
        return v
    if isinstance(v, (tuple, list)):
        return tuple(v)
    return tuple(I.iterate(v, None, None))


@model(builtins.list)
def m_list(I, args, kwargs):
    if not args:
        return []
    v = args[0]
    if isinstance(v, (SBytes, STuple)):
        b = v if isinstance(v, SBytes) else v.b
        if b.fixed_len() is None:
            raise Unsupported("list() of symbolic-length bytes")
        return list(I.iterate(b, None, None))
    return list(I.iterate(v, None, None))


@model(builtins.dict)
def m_dict(I, args, kwargs):
    d = {}
    if args:
        src = args[0]
        if isinstance(src, dict):
            d.update(src)
        else:
            for kv in I.iterate(src, None, None):
                k, v = kv
                if isinstance(k, SVal):
                    raise Unsupported("dict() with symbolic key")
                d[k] = v
    d.update(kwargs)
    return d


@model(builtins.set, builtins.frozenset)
def m_set(I, args, kwargs):
    if not args:
        return set()
    items = list(I.iterate(args[0], None, None))
    if _sym(items):
        raise Unsupported("set of symbolic values")
    return set(items)


@model(__import__("asyncio").iscoroutine)
def m_iscoroutine(I, args, kwargs):
    from .interp import Coro

    return isinstance(args[0], Coro)


@model(__import__("functools").partial)
def m_partial(I, args, kwargs):
    from .interp import PartialVal

    return PartialVal(args[0], args[1:], kwargs)


@model(builtins.range)
def m_range(I, args, kwargs):
    if not _sym(args):
        return _native(I, range, args, kwargs)
    for a in args:
        if not is_intlike(a):
            I.raise_py(TypeError, "range() integer argument expected")
    if len(args) == 1:
        return I.models.SRange(0, args[0], 1)
    if len(args) == 2:
        return I.models.SRange(args[0], args[1], 1)
    return I.models.SRange(args[0], args[1], args[2])


@model(builtins.enumerate)
def m_enumerate(I, args, kwargs):
    start = kwargs.get("start", args[1] if len(args) > 1 else 0)
    return [(start + i, x) for i, x in enumerate(I.iterate(args[0], None, None))]


@model(builtins.zip)
def m_zip(I, args, kwargs):
    lists = [list(I.iterate(a, None, None)) for a in args]
    if kwargs.get("strict") and len({len(x) for x in lists}) > 1:
        I.raise_py(ValueError, "zip() arguments have different lengths")
    return list(zip(*lists))


@model(builtins.reversed)
def m_reversed(I, args, kwargs):
    return list(reversed(list(I.iterate(args[0], None, None))))


@model(builtins.iter)
def m_iter(I, args, kwargs):
    return list(I.iterate(args[0], None, None))


@model(builtins.next)
def m_next(I, args, kwargs):
    it = args[0]
    if isinstance(it, list):
        if it:
            return it.pop(0)
        if len(args) > 1:
            return args[1]
        I.raise_py(StopIteration)
    cls = it.cls if isinstance(it, SObj) else type(it)
    r = I.lookup_class_attr(cls, "__next__") if isinstance(cls, type) and I.is_interp_class(cls) else None
    if r is not None:
        return I.call_function(r[0], [it], {}, defcls=r[1])
    if _sym(it):
        raise Unsupported("next() on symbolic iterator")
    return _native(I, next, args, kwargs)


@model(builtins.any)
def m_any(I, args, kwargs):
    for x in I.iterate(args[0], None, None):
        if I.truth(x):
            return True
    return False


@model(builtins.all)
def m_all(I, args, kwargs):
    for x in I.iterate(args[0], None, None):
        if not I.truth(x):
            return False
    return True


@model(builtins.sum)
def m_sum(I, args, kwargs):
    acc = args[1] if len(args) > 1 else kwargs.get("start", 0)
    for x in I.iterate(args[0], None, None):
        acc = I.binop(ast.Add, acc, x)
    return acc


@model(builtins.abs)
def m_abs(I, args, kwargs):
    from . import floats

    v = args[0]
    if isinstance(v, (SInt, SBool)):
        e = iexpr(v)
        return I.sint(z3.If(e < 0, -e, e))
    if isinstance(v, SFloat):
        return floats.fabs(I, v)
    return _native(I, abs, args, kwargs)


def _minmax(I, args, kwargs, is_max):
    from . import floats

    items = list(args) if len(args) > 1 else list(I.iterate(args[0], None, None))
    key = kwargs.get("key")
    if not items:
        if "default" in kwargs:
            return kwargs["default"]
        I.raise_py(ValueError, "arg is an empty sequence")
    if not _sym(items) and key is None:
        return _native(I, max if is_max else min, [items], {})
    best = items[0]
    bk = I.call(key, [best], {}) if key is not None else best
    for x in items[1:]:
        xk = I.call(key, [x], {}) if key is not None else x
        c = I.compare(ast.Gt if is_max else ast.Lt, xk, bk)
        if all(is_intlike(t) for t in (xk, bk)) and key is None and isinstance(c, SBool):
            best = I.sint(z3.If(c.e, iexpr(x), iexpr(best)))
            bk = best
        elif I.truth(c):
            best, bk = x, xk
    return best


@model(builtins.max)
def m_max(I, args, kwargs):
    return _minmax(I, args, kwargs, True)


@model(builtins.min)
def m_min(I, args, kwargs):
    return _minmax(I, args, kwargs, False)


@model(builtins.divmod)
def m_divmod(I, args, kwargs):
    a, b = args
    return (I.binop(ast.FloorDiv, a, b), I.binop(ast.Mod, a, b))


@model(builtins.round)
def m_round(I, args, kwargs):
    from . import floats

    v = args[0]
    nd = args[1] if len(args) > 1 else kwargs.get("ndigits")
    if isinstance(v, SFloat):
        return floats.round_(I, v, nd)
    if isinstance(v, (SInt, SBool)):
        if nd is None or (isinstance(nd, int) and nd >= 0):
            return v
        raise Unsupported("round(int, negative digits)")
    return _native(I, round, args, kwargs)


@model(builtins.sorted)
def m_sorted(I, args, kwargs):
    items = list(I.iterate(args[0], None, None))
    key = kwargs.get("key")
    if not _sym(items) and (key is None or not _sym(key)):
        return _native(I, sorted, [items], kwargs)
    # insertion sort with symbolic comparisons (forks)
    keyed = [(I.call(key, [x], {}) if key is not None else x, x) for x in items]
    out = []
    for k, x in keyed:
        pos = len(out)
        for j, (kj, _) in enumerate(out):
            if I.truth(I.compare(ast.Lt, k, kj)):
                pos = j
                break
        out.insert(pos, (k, x))
    res = [x for _, x in out]
    if kwargs.get("reverse"):
        res.reverse()
    return res


@model(typing.cast)
def m_cast(I, args, kwargs):
    return args[1] if len(args) > 1 else kwargs["val"]


@model(builtins.ord)
def m_ord(I, args, kwargs):
    if _sym(args):
        raise Unsupported("ord of symbolic")
    return _native(I, ord, args, kwargs)


@model(builtins.chr)
def m_chr(I, args, kwargs):
    if _sym(args):
        return SStr("chr")
    return _native(I, chr, args, kwargs)


@model(bytes.fromhex)
def m_fromhex(I, args, kwargs):
    s = args[-1]
    if isinstance(s, SStr) and s.tag == "hex" and s.parts and s.parts[1] == "":
        return SBytes(list(s.parts[0].segs), False)
    if _sym(s):
        raise Unsupported("bytes.fromhex of opaque string")
    return _native(I, bytes.fromhex, [s], {})


@model(int.from_bytes)
def m_from_bytes(I, args, kwargs):
    b = args[0]
    order = args[1] if len(args) > 1 else kwargs.get("byteorder", "big")
    signed = kwargs.get("signed", False)
    if not _sym(b):
        return _native(I, int.from_bytes, args, kwargs)
    if isinstance(b, (list, tuple)):
        b = B.from_iterable(I, b)
    return B.int_from_bytes(I, b, order, signed)


# ----------------------------------------------------------------------------- enum


def enum_lookup(I, cls, args, kwargs):
    if len(args) != 1 or kwargs:
        raise Unsupported("Enum functional API")
    v = args[0]
    members = list(cls)
    if isinstance(v, SEnum):
        if v.cls is cls:
            return v
    if not isinstance(v, SVal):
        try:
            return cls(v)
        except Exception as ex:
            miss = I.lookup_class_attr(cls, "_missing_")
            if miss is not None and I.is_interp_class(miss[1]):
                raise Unsupported("concrete _missing_ raised natively") from ex
            raise PyRaise(I.mkexc(type(ex), *ex.args))
    if is_intlike(v):
        vals = [int(m.value) if isinstance(m.value, bool) else m.value for m in members]
        if not all(isinstance(x, int) for x in vals):
            # non-int valued enum looked up with an int: only _missing_ could accept
            return _enum_missing(I, cls, v)
        e = iexpr(v)
        hit = z3.Or(*[e == x for x in vals])
        if I.path.decide(hit):
            if any(isinstance(m.value, bool) for m in members):
                # bool valued enum: index encoding (value 0/1 -> member)
                idx = z3.IntVal(len(members) - 1)
                for i in range(len(members) - 2, -1, -1):
                    idx = z3.If(e == vals[i], z3.IntVal(i), idx)
                return SEnum(cls, idx, "idx", members)
            return SEnum(cls, e, "val", members)
        return _enum_missing(I, cls, v)
    if isinstance(v, SStr):
        raise Unsupported(f"{cls.__name__}(opaque string)")
    return _enum_missing(I, cls, v)


def _enum_missing(I, cls, v):
    miss = I.lookup_class_attr(cls, "_missing_")
    if miss is not None and I.is_interp_class(miss[1]):
        raw = miss[0]
        f = raw.__func__ if isinstance(raw, classmethod) else raw
        res = I.call_function(f, [cls, v], {}, defcls=miss[1])
        if res is not None:
            return res
    I.raise_py(ValueError, f"not a valid {cls.__name__}")


# ----------------------------------------------------------------------------- struct

_CODES = {"B": (1, False), "H": (2, False), "I": (4, False), "L": (4, False), "Q": (8, False), "b": (1, True), "h": (2, True), "i": (4, True), "l": (4, True), "q": (8, True), "?": (1, None)}


def parse_struct_fmt(I, fmt):
    """-> (byteorder, [(code, count)]) with count python int or z3 expr (only for 's')."""
    parts = [fmt] if isinstance(fmt, str) else (fmt.parts if isinstance(fmt, SStr) and fmt.parts else None)
    if parts is None:
        raise Unsupported("struct format is an opaque string")
    order = None
    items = []
    pending = None  # count
    for p in parts:
        if isinstance(p, str):
            i = 0
            while i < len(p):
                ch = p[i]
                if ch in "@=<>!" and not items and order is None and pending is None:
                    order = ch
                    i += 1
                    continue
                if ch.isdigit():
                    j = i
                    while j < len(p) and p[j].isdigit():
                        j += 1
                    if pending is not None:
                        raise Unsupported("struct count split over parts")
                    pending = int(p[i:j])
                    i = j
                    continue
                if ch.isspace():
                    i += 1
                    continue
                if ch in ("s", "p", "x") or ch in _CODES or ch in "fde":
                    items.append((ch, 1 if pending is None else pending, pending is not None))
                    pending = None
                    i += 1
                    continue
                I.raise_py(struct.error, "bad char in struct format")
        elif isinstance(p, (SInt, SBool)):
            if pending is not None:
                raise Unsupported("struct count: digits followed by symbolic count")
            pending = p
        elif isinstance(p, int):
            if p < 0:
                I.raise_py(struct.error, "bad char in struct format")
            pending = p if pending is None else int(str(pending) + str(p))
        else:
            raise Unsupported(f"struct format part {p!r}")
    if pending is not None:
        I.raise_py(struct.error, "repeat count given without format specifier")
    if order is None:
        order = "@"
    if order in "@=" and any(c not in ("s", "B", "b", "x") for c, _, _ in items):
        raise Unsupported("native byte order struct format")
    return ("little" if order == "<" else "big"), items


@model(struct.calcsize)
def m_calcsize(I, args, kwargs):
    if not _sym(args):
        return _native(I, struct.calcsize, args, kwargs)
    raise Unsupported("calcsize of symbolic format")


@model(struct.pack)
def m_pack(I, args, kwargs):
    from . import floats

    fmt, vals = args[0], list(args[1:])
    if not _sym(args):
        return _native(I, struct.pack, args, kwargs)
    order, items = parse_struct_fmt(I, fmt)
    segs = []
    vi = 0
    for code, count, explicit in items:
        if code == "x":
            segs.extend([BSeg(0)] * count)
            continue
        if code == "s":
            if vi >= len(vals):
                I.raise_py(struct.error, "pack expected more items")
            v = vals[vi]
            vi += 1
            if not is_byteslike(v):
                I.raise_py(struct.error, "argument for 's' must be a bytes object")
            segs.extend(_pack_s(I, B.to_sbytes(v), count).segs)
            continue
        if isinstance(count, SVal):
            raise Unsupported("symbolic repeat count for numeric struct code")
        for _ in range(count):
            if vi >= len(vals):
                I.raise_py(struct.error, "pack expected more items")
            v = vals[vi]
            vi += 1
            if code in "fde":
                segs.extend(floats.pack(I, code, v, order).segs)
                continue
            size, signed = _CODES[code]
            if code == "?":
                t = I.truth(v)
                segs.append(BSeg(1 if t else 0))
                continue
            if isinstance(v, SEnum) and issubclass(v.cls, int):
                v = I.models.enum_value(I, v)
            if not is_intlike(v):
                if isinstance(v, SObj):
                    r = I.lookup_class_attr(v.cls, "__index__")
                    if r is not None and I.is_interp_func(r[0]):
                        v = I.call_function(r[0], [v], {}, defcls=r[1])
                if not is_intlike(v):
                    I.raise_py(struct.error, "required argument is not an integer")
            e = iexpr(v)
            from .intops import be_of

            sdec = getattr(v, "sbe", None) if signed and isinstance(v, SInt) else None
            if sdec is not None and len(sdec) == size:
                bs = [BSeg(x) for x in sdec]
                if order == "little":
                    bs.reverse()
                segs.extend(bs)
                continue
            dec = be_of(v) if (not signed and not isinstance(v, (int, bool))) else None
            if dec is not None and len(dec) <= size:
                bs = [BSeg(0)] * (size - len(dec)) + [BSeg(x) for x in dec]
                if order == "little":
                    bs.reverse()
                segs.extend(bs)
                continue
            lo, hi = (-(1 << (8 * size - 1)), (1 << (8 * size - 1)) - 1) if signed else (0, (1 << (8 * size)) - 1)
            if isinstance(v, (int, bool)):
                if not lo <= int(v) <= hi:
                    I.raise_py(struct.error, f"'{code}' format requires {lo} <= number <= {hi}")
            elif not I.path.decide(z3.And(e >= lo, e <= hi)):
                I.raise_py(struct.error, f"'{code}' format requires {lo} <= number <= {hi}")
            if signed:
                e = z3.If(e < 0, e + (1 << (8 * size)), e)
            bs = []
            if size > 2 and not isinstance(v, (int, bool)):
                # base-256 digits as fresh octets (exist and are unique in range): linear instead of div/mod
                octs = [I.path.fresh_int("oct") for _ in range(size)]
                tot = z3.IntVal(0)
                for o in octs:
                    I.path.assume(z3.And(o >= 0, o <= 255))
                    tot = tot * 256 + o
                I.path.assume(e == tot)
                bs = [BSeg(o) for o in octs]
            else:
                for i in range(size):
                    sh = 8 * (size - 1 - i)
                    t = e / (1 << sh) if sh else e
                    if i > 0:
                        t = t % 256
                    bs.append(BSeg(z3.simplify(t)))
            if order == "little":
                bs.reverse()
            segs.extend(bs)
    if vi != len(vals):
        I.raise_py(struct.error, f"pack expected {vi} items for packing (got {len(vals)})")
    return SBytes(segs, False)


def _pack_s(I, b, count):
    """'<count>s': truncate or pad with NULs, silently (CPython behaviour)."""
    n = b.length()
    if isinstance(count, int) and isinstance(n, int):
        bb = SBytes(b.segs).expand()
        if n >= count:
            return SBytes(bb.segs[:count])
        return SBytes(bb.segs + [BSeg(0)] * (count - n))
    ce, ne = iexpr(count), iexpr(n)
    if isinstance(count, SVal):
        if I.path.decide(ce < 0):
            I.raise_py(struct.error, "bad char in struct format")
    if I.path.decide(ne == ce):
        return SBytes(list(b.segs))
    if I.path.decide(ne > ce):
        return B.take(I, b, 0, B._simp(ce))
    pad = B._simp(ce - ne)
    return SBytes(list(b.segs) + [CSeg(B.ZERO, 0, pad)])


@model(struct.unpack)
def m_unpack(I, args, kwargs):
    from . import floats

    fmt, data = args
    if not _sym(args):
        return _native(I, struct.unpack, args, kwargs)
    if not is_byteslike(data):
        I.raise_py(TypeError, "a bytes-like object is required")
    data = B.to_sbytes(data)
    order, items = parse_struct_fmt(I, fmt)
    if not all(isinstance(c, int) for _, c, _ in items) or data.fixed_len() is None:
        pass
    total = 0
    for code, count, explicit in items:
        if code in ("s", "x"):
            total = B._add(total, count if not isinstance(count, SVal) else iexpr(count))
        else:
            size = _CODES[code][0] if code in _CODES else {"f": 4, "d": 8, "e": 2}[code]
            total = total + size * count if isinstance(total, int) else B._simp(total + size * count)
    for code, count, explicit in items:
        if isinstance(count, SVal) and code == "s":
            if I.path.decide(iexpr(count) < 0):
                I.raise_py(struct.error, "bad char in struct format")
    n = data.length()
    if isinstance(n, int) and isinstance(total, int):
        if n != total:
            I.raise_py(struct.error, f"unpack requires a buffer of {total} bytes")
    elif not I.path.decide(iexpr(n) == iexpr(total)):
        I.raise_py(struct.error, f"unpack requires a buffer of {total} bytes")
    B.fix(I, data)
    out = []
    pos = 0
    for code, count, explicit in items:
        if code == "x":
            pos = B._add(pos, count)
            continue
        if code == "s":
            c = count if not isinstance(count, SVal) else B._simp(iexpr(count))
            end = B._add(pos, c)
            out.append(B.take(I, data, pos, end))
            pos = end
            continue
        size = _CODES[code][0] if code in _CODES else {"f": 4, "d": 8, "e": 2}[code]
        for _ in range(count):
            chunk = B.take(I, data, pos, B._add(pos, size))
            chunk = SBytes(chunk.segs).expand()
            if len(chunk.segs) != size:
                raise Unsupported(f"struct.unpack: could not isolate numeric field (data={data!r} chunk={chunk!r} known={I.path.__dict__.get('_known')} pc_tail={I.path.pc[-3:]})")
            if code in "fde":
                out.append(floats.unpack(I, code, chunk, order))
            else:
                _, signed = _CODES[code]
                idx = range(size) if order == "big" else range(size - 1, -1, -1)
                e = z3.IntVal(0)
                for i in idx:
                    e = e * 256 + chunk.at(i)
                e = z3.simplify(e)
                if code == "?":
                    out.append(I.sbool(e != 0))
                elif signed:
                    r = I.sint(z3.If(e >= (1 << (8 * size - 1)), e - (1 << (8 * size)), e))
                    if isinstance(r, SInt):
                        # two's complement octets kept: packing the same width again needs no div/mod
                        r.be = None
                        r.sbe = [chunk.at(i) for i in (range(size) if order == "big" else range(size - 1, -1, -1))]
                    out.append(r)
                else:
                    from .intops import from_be

                    out.append(from_be(I, [chunk.at(i) for i in idx], nb=8 * size))
            pos = B._add(pos, size)
    return tuple(out)


# ----------------------------------------------------------------------------- datetime constructors
import datetime as _dt  # noqa: E402


def _need_int(I, v, what):
    if not is_intlike(v):
        I.raise_py(TypeError, f"an integer is required for {what}")
    return iexpr(v)


def _check_date(I, y, m, d):
    ok_range = z3.And(y >= 1, y <= 9999, m >= 1, m <= 12, d >= 1)
    leap = z3.And(y % 4 == 0, z3.Or(y % 100 != 0, y % 400 == 0))
    dim = z3.If(z3.Or(m == 4, m == 6, m == 9, m == 11), 30, z3.If(m == 2, z3.If(leap, 29, 28), 31))
    if not I.path.decide(z3.And(ok_range, d <= dim)):
        I.raise_py(ValueError, "date value out of range")


def _check_time(I, h, mi, s, us=None):
    c = z3.And(h >= 0, h <= 23, mi >= 0, mi <= 59, s >= 0, s <= 59)
    if us is not None:
        c = z3.And(c, us >= 0, us <= 999999)
    if not I.path.decide(c):
        I.raise_py(ValueError, "time value out of range")


@model(_dt.date)
def m_date(I, args, kwargs):
    """datetime.date(y, m, d): ValueError for a non-existent calendar date, else a value object."""
    if not _sym(args) and not _sym(kwargs):
        return _native(I, _dt.date, args, kwargs)
    names = ("year", "month", "day")
    vals = dict(zip(names, args))
    vals.update(kwargs)
    y, m, d = (_need_int(I, vals[n], n) for n in names)
    _check_date(I, y, m, d)
    return Opaque("date", {"year": vals["year"], "month": vals["month"], "day": vals["day"], "__class__": _dt.date})


@model(_dt.time)
def m_time(I, args, kwargs):
    if not _sym(args) and not _sym(kwargs):
        return _native(I, _dt.time, args, kwargs)
    names = ("hour", "minute", "second", "microsecond")
    vals = {"hour": 0, "minute": 0, "second": 0, "microsecond": 0}
    vals.update(dict(zip(names, args)))
    vals.update({k: v for k, v in kwargs.items() if k in names})
    if any(k not in names and k != "tzinfo" for k in kwargs):
        raise Unsupported("datetime.time with unusual keywords")
    _check_time(I, *(_need_int(I, vals[n], n) for n in names))
    return Opaque("time", dict(vals, __class__=_dt.time))


@model(_dt.datetime)
def m_datetime(I, args, kwargs):
    if not _sym(args) and not _sym(kwargs):
        return _native(I, _dt.datetime, args, kwargs)
    names = ("year", "month", "day", "hour", "minute", "second", "microsecond")
    vals = {"hour": 0, "minute": 0, "second": 0, "microsecond": 0}
    vals.update(dict(zip(names, args)))
    vals.update({k: v for k, v in kwargs.items() if k in names})
    for n in ("year", "month", "day"):
        if n not in vals:
            I.raise_py(TypeError, f"function missing required argument '{n}'")
    for n in names:
        if vals[n] is None:
            I.raise_py(TypeError, "an integer is required (got type NoneType)")
    _check_date(I, *(_need_int(I, vals[n], n) for n in names[:3]))
    _check_time(I, *(_need_int(I, vals[n], n) for n in names[3:]))
    return Opaque("datetime", dict(vals, __class__=_dt.datetime))


# ----------------------------------------------------------------------------- dataclasses.asdict
import dataclasses as _dc  # noqa: E402


def _asdict_value(I, v):
    if isinstance(v, SObj) and _dc.is_dataclass(v.cls):
        return {f.name: _asdict_value(I, v.fields[f.name]) for f in _dc.fields(v.cls)}
    if isinstance(v, list):
        return [_asdict_value(I, x) for x in v]
    if isinstance(v, tuple):
        return tuple(_asdict_value(I, x) for x in v)
    if isinstance(v, dict):
        return {k: _asdict_value(I, x) for k, x in v.items()}
    return v


@model(_dc.fields)
def m_dc_fields(I, args, kwargs):
    (o,) = args
    if isinstance(o, SObj):
        return _dc.fields(o.cls)
    return _native(I, _dc.fields, args, kwargs)


@model(_dc.asdict)
def m_asdict(I, args, kwargs):
    (o,) = args
    if isinstance(o, SObj) and _dc.is_dataclass(o.cls):
        return _asdict_value(I, o)
    if _sym(o):
        I.raise_py(TypeError, "asdict() should be called on dataclass instances")
    return _native(I, _dc.asdict, args, kwargs)


# ----------------------------------------------------------------------------- copy
import copy as _copy  # noqa: E402


@model(_copy.copy)
def m_copy(I, args, kwargs):
    (v,) = args
    if isinstance(v, SObj):
        r = I.lookup_class_attr(v.cls, "__copy__")
        if r is not None and I.is_interp_func(r[0]):
            return I.call_function(r[0], [v], {}, defcls=r[1])
        return SObj(v.cls, dict(v.fields))  # shallow
    if isinstance(v, SBytes):
        return SBytes(list(v.segs), v.mutable)
    if isinstance(v, (list, dict, set)):
        return type(v)(v)
    if _sym(v):
        return v  # immutable symbolic scalars
    return _native(I, _copy.copy, args, kwargs)


# ----------------------------------------------------------------------------- math
import math as _math  # noqa: E402


def _math_int_fn(fn_name):
    def m(I, args, kwargs):
        from . import floats

        (v,) = args
        if isinstance(v, SFloat):
            return getattr(floats, fn_name)(I, v)
        if isinstance(v, (SInt, SBool)):
            return I.sint(iexpr(v))
        return _native(I, getattr(_math, fn_name), args, kwargs)

    return m


MODELS[_math.ceil] = _math_int_fn("ceil")
MODELS[_math.floor] = _math_int_fn("floor")


@model(_math.log10)
def m_log10(I, args, kwargs):
    from . import floats

    (v,) = args
    if isinstance(v, (SFloat, SInt, SBool)):
        return floats.log10(I, v)
    return _native(I, _math.log10, args, kwargs)


@model(_math.isnan, _math.isinf, _math.isfinite)
def m_isnan(I, args, kwargs):
    raise Unsupported("math.isnan/isinf/isfinite on symbolic float") if _sym(args) else None


# ----------------------------------------------------------------------------- socket (IPv4 text form)
import socket as _socket  # noqa: E402


@model(_socket.inet_ntoa)
def m_inet_ntoa(I, args, kwargs):
    """Contract: canonical dotted quad of 4 octets (kept structured: SStr 'ipv4' holding the octets);
    OSError for any other length."""
    (b,) = args
    if not _sym(b):
        return _native(I, _socket.inet_ntoa, args, kwargs)
    if not is_byteslike(b):
        I.raise_py(TypeError, "a bytes-like object is required")
    b = B.to_sbytes(b)
    n = b.fixed_len()
    if n is None:
        n = B.fix(I, b).fixed_len()
    if n is None:
        if not I.path.decide(iexpr(b.length()) == 4):
            I.raise_py(OSError, "packed IP wrong length for inet_ntoa")
        n = B.fix(I, b).fixed_len()
    if n != 4:
        I.raise_py(OSError, "packed IP wrong length for inet_ntoa")
    return SStr("ipv4", [SBytes(SBytes(b.segs).expand().segs)])


@model(_socket.inet_aton)
def m_inet_aton(I, args, kwargs):
    """Contract: inverse of inet_ntoa on canonical dotted quads."""
    (s,) = args
    if isinstance(s, SStr):
        if s.tag == "ipv4":
            return SBytes(list(s.parts[0].segs))
        raise Unsupported("inet_aton of opaque string")
    if isinstance(s, SVal) or not isinstance(s, str):
        I.raise_py(TypeError, "inet_aton() argument 1 must be str")
    return _native(I, _socket.inet_aton, args, kwargs)


# ----------------------------------------------------------------------------- logging etc.

for _name in ("debug", "info", "warning", "error", "exception", "critical", "log", "isEnabledFor"):
    MODELS[getattr(logging.Logger, _name)] = _noop


def _log_exception(I, args, kwargs):
    I.path.ghost.setdefault("g:log.exception", []).append(1)
    return None


MODELS[logging.Logger.exception] = _log_exception
MODELS[logging.getLogger] = lambda I, a, k: logging.getLogger(*a, **k) if not _sym(a) else Opaque("logger")


from .stdlib2 import *  # noqa: E402,F401,F403
