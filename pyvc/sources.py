"""
Source access: the verified text is the text on disk in /repo, re-read on every run.

`Sources.func_ast(fn)` maps a live function object of an imported module to the
`ast.FunctionDef` found under the same qualified name in the module's file as it is on disk
*now*.  Optional in-memory mutations (canaries) replace text before parsing; nothing is written.
"""

from __future__ import annotations

import ast
import hashlib
import os
import sys

from .core import Unsupported


class _Indexer(ast.NodeVisitor):
    def __init__(self):
        self.stack = []
        self.funcs = {}
        self.lambdas = {}
        self.classes = {}

    def _q(self, name):
        return ".".join(self.stack + [name])

    def visit_ClassDef(self, node):
        self.classes[self._q(node.name)] = node
        self.stack.append(node.name)
        self.generic_visit(node)
        self.stack.pop()

    def _fn(self, node):
        q = self._q(node.name)
        # property setters / overloads share a name: keep a list, resolve by line number
        self.funcs.setdefault(q, []).append(node)
        self.stack.append(node.name)
        self.stack.append("<locals>")
        self.generic_visit(node)
        self.stack.pop()
        self.stack.pop()

    visit_FunctionDef = _fn
    visit_AsyncFunctionDef = _fn

    def visit_Lambda(self, node):
        self.lambdas.setdefault(node.lineno, []).append(node)
        self.generic_visit(node)


class ModuleSource:
    def __init__(self, filename, text):
        self.filename = filename
        self.text = text
        self.tree = ast.parse(text, filename)
        ix = _Indexer()
        ix.visit(self.tree)
        self.funcs = ix.funcs
        self.lambdas = ix.lambdas
        self.classes = ix.classes
        self.lines = text.splitlines()


# parsed files, shared by all instances run in this process (and inherited by forked workers);
# the key includes the in-memory mutations that apply to the file
_GLOBAL_CACHE = {}


def prewarm(mutations=None):
    """Parse every module of the repo package once in the parent process before forking workers."""
    import xknx

    root = os.path.dirname(xknx.__file__)
    s = Sources(mutations)
    for d, _, files in os.walk(root):
        for f in files:
            if f.endswith(".py"):
                try:
                    s.module_source(os.path.join(d, f))
                except Unsupported:
                    pass


class Sources:
    def __init__(self, mutations=None):
        # mutations: list of (path suffix, old text, new text)
        self.mutations = list(mutations or [])
        self.used_mutations = set()
        self.cache = {}
        self.used = {}  # (filename, qualname) -> sha256 of extracted source

    def module_source(self, filename):
        ms = self.cache.get(filename)
        if ms is None:
            applicable = tuple(m for m in self.mutations if filename.endswith(m[0]))
            gkey = (filename, applicable)
            ms = _GLOBAL_CACHE.get(gkey)
            if ms is not None:
                for i, m in enumerate(self.mutations):
                    if filename.endswith(m[0]):
                        self.used_mutations.add(i)
                self.cache[filename] = ms
                return ms
            with open(filename, encoding="utf-8") as fh:
                text = fh.read()
            for i, (suffix, old, new) in enumerate(self.mutations):
                if filename.endswith(suffix):
                    if text.count(old) != 1:
                        raise Unsupported(f"mutation {i}: text to replace occurs {text.count(old)} times in {filename}")
                    text = text.replace(old, new)
                    self.used_mutations.add(i)
            ms = ModuleSource(filename, text)
            self.cache[filename] = ms
            _GLOBAL_CACHE[gkey] = ms
        return ms

    def func_ast(self, fn):
        """(node, ModuleSource) for a python function object."""
        code = fn.__code__
        filename = code.co_filename
        if not os.path.exists(filename):
            raise Unsupported(f"no source file for {fn!r}")
        ms = self.module_source(filename)
        q = fn.__qualname__
        if code.co_name == "<lambda>":
            cands = ms.lambdas.get(code.co_firstlineno, [])
            if len(cands) > 1:
                want = list(code.co_varnames[: code.co_argcount])
                same = [l for l in cands if [a.arg for a in l.args.args] == want]
                if len(same) == 1:
                    cands = same
            if len(cands) != 1:
                # mutated files may shift lines: fall back to unique lambda with the same arg names
                allc = [l for ls in ms.lambdas.values() for l in ls if [a.arg for a in l.args.args] == list(code.co_varnames[: code.co_argcount])]
                cands = [l for l in allc if abs(l.lineno - code.co_firstlineno) <= 3]
            if len(cands) != 1:
                raise Unsupported(f"cannot locate lambda {q} at {filename}:{code.co_firstlineno}")
            node = cands[0]
        else:
            cands = ms.funcs.get(q)
            if not cands:
                raise Unsupported(f"function {q} not found in {filename}")
            if len(cands) == 1:
                node = cands[0]
            else:
                # same name defined several times (property getter/setter): nearest first line
                def key(n):
                    first = n.decorator_list[0].lineno if n.decorator_list else n.lineno
                    return abs(first - code.co_firstlineno)

                node = min(cands, key=key)
        self._record(ms, filename, q, node)
        return node, ms

    def _record(self, ms, filename, q, node):
        k = (filename, q, node.lineno)
        if k not in self.used:
            seg = "\n".join(ms.lines[node.lineno - 1 : node.end_lineno])
            self.used[k] = hashlib.sha256(seg.encode()).hexdigest()[:16]

    def functions_used(self):
        out = []
        for (filename, q, line), h in sorted(self.used.items()):
            out.append({"function": q, "file": filename, "line": line, "sha256_16": h})
        return out
