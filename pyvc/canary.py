"""
Canaries: registered property-breaking source edits (in-memory text replacement, nothing written).
A check is only valid if each canary makes at least one obligation of the property fail.
/verif/canaries/<PROP>.json : [{"id":..., "file": path suffix, "old": text, "new": text, "why": ...}]
"""

from __future__ import annotations

import json
import os

VERIF = os.path.dirname(os.path.dirname(os.path.abspath(__file__)))


def load(prop):
    p = os.path.join(VERIF, "canaries", f"{prop}.json")
    if not os.path.exists(p):
        return []
    with open(p) as fh:
        return json.load(fh)


def run_canaries(prop, tier, jobs=None):
    from .driver import run_property

    cans = load(prop)
    if tier == "quick":
        cans = cans[:1]
    info = {"registered": len(load(prop)), "run": 0, "detected": 0, "missed": []}
    code = 0
    for c in cans:
        rc, ev = run_property(prop, tier, [(c["file"], c["old"], c["new"])], jobs, c.get("only"), quiet=True, instances=c.get("instances"))
        msgs = (ev or {}).get("coverage", {}).get("messages", [])
        if rc == 3 and any("text to replace occurs" in m for m in msgs):
            # the tree was edited where the canary applies: the canary says nothing about this tree
            info.setdefault("not_applicable", []).append(c["id"])
            continue
        info["run"] += 1
        refuted = ((ev or {}).get("coverage", {}).get("refuted") or 0) > 0
        if rc == 1 or (rc == 3 and refuted):
            # (an obligation failed; a second lemma instance that also ran into an error does not undo that)
            info["detected"] += 1
        else:
            info["missed"].append({"id": c["id"], "exit": rc, "messages": (ev or {}).get("coverage", {}).get("messages", [])[:5]})
            print(f"ERROR canary {c['id']} not detected (exit {rc})")
            code = 3
    print(f"canaries: run={info['run']} detected={info['detected']} registered={info['registered']}")
    return code, info
