"""
Check driver: ./check <property> [--tier quick|thorough] [--replay FILE] [--mutate SUFFIX::OLD::NEW]

exit 0  every obligation discharged (KNOWN-FINDING lines allowed)
exit 1  an obligation refuted: VIOLATION property=<id> replay=<path> [no-failing-input-found]
exit 2  undecided (solver unknown / timeout)
exit 3  checker could not run (outside subset, zero obligations, engine/CPython mismatch, canary missed)
"""

from __future__ import annotations

import argparse
import base64
import concurrent.futures as cf
import glob
import importlib
import inspect
import json
import multiprocessing
import os
import types
import pickle
import sys
import time
import traceback

import z3

VERIF = os.path.dirname(os.path.dirname(os.path.abspath(__file__)))
sys.path.insert(0, VERIF)

from . import api  # noqa: E402
from .core import Explorer, PathAbort, PyRaise, SBool, SVal, Unsupported  # noqa: E402
from .core import has_fp as core_has_fp  # noqa: E402
from .interp import Interp  # noqa: E402
from .registry import Registry  # noqa: E402
from .sources import Sources  # noqa: E402

TIERS = {
    "quick": dict(goal_timeout_ms=20000, fp_probe_ms=5000, fp_probe_total_s=15, fp_timeout_ms=150000, branch_timeout_ms=5000, diff_paths=40, max_paths=4000),
    "thorough": dict(goal_timeout_ms=300000, fp_probe_ms=30000, fp_probe_total_s=120, fp_timeout_ms=600000, branch_timeout_ms=20000, diff_paths=400, max_paths=40000),
}


def load_property_modules(prop):
    mods = []
    for p in sorted(glob.glob(os.path.join(VERIF, "contracts", f"{prop.lower()}_*.py")) + glob.glob(os.path.join(VERIF, "contracts", f"{prop.lower()}.py"))):
        name = "contracts." + os.path.basename(p)[:-3]
        mods.append(importlib.import_module(name))
    return mods


def load_known_findings():
    p = os.path.join(VERIF, "known_findings.json")
    if not os.path.exists(p):
        return {"open": [], "fixed": []}
    with open(p) as fh:
        return json.load(fh)


# ----------------------------------------------------------------------------- one lemma instance


_MISSING = object()


def _static_attr(owner, attr):
    if not isinstance(owner, type):
        return owner.__dict__[attr]  # module attribute
    for k in owner.__mro__:
        if attr in k.__dict__:
            return k.__dict__[attr]
    raise KeyError(attr)


def _native_run(lem, kwargs):
    """Run the lemma natively. -> ('return', None) | ('assert', msg) | ('raise', 'ExcName: msg')"""
    kwargs = dict(kwargs)
    api._NATIVE_GHOST.clear()
    api._install_native_log_probe()
    api._NATIVE_LOG["exception"] = 0
    api._NATIVE_ORACLE[:] = list(kwargs.pop("__oracle__", []))
    saved = []
    for owner, attr, repl in lem.cfg.get("stubs", []):
        saved.append((owner, attr, owner.__dict__.get(attr, _MISSING)))
        setattr(owner, attr, repl)
    try:
        return _native_run_inner(lem, kwargs)
    finally:
        for owner, attr, orig in saved:
            if orig is _MISSING:
                delattr(owner, attr)
            else:
                setattr(owner, attr, orig)


class _NativeTimeout(BaseException):
    pass


NATIVE_TIMEOUT_S = 2.0  # processor time of the replay (a busy machine must not turn a replay into a "hang")
NATIVE_WALL_TIMEOUT_S = 30.0  # wall clock: a replay that blocks (waits for something that never comes)


def _native_run_inner(lem, kwargs):
    import signal

    def _alarm(signum, frame):
        raise _NativeTimeout()

    old = signal.signal(signal.SIGALRM, _alarm)
    old_prof = signal.signal(signal.SIGPROF, _alarm)
    signal.setitimer(signal.ITIMER_REAL, NATIVE_WALL_TIMEOUT_S)
    signal.setitimer(signal.ITIMER_PROF, NATIVE_TIMEOUT_S)
    try:
        return _native_run_inner2(lem, kwargs)
    except _NativeTimeout:
        return ("hang", f"no result within {NATIVE_TIMEOUT_S} s of processor time / {NATIVE_WALL_TIMEOUT_S} s (does not terminate?)")
    finally:
        signal.setitimer(signal.ITIMER_PROF, 0)
        signal.setitimer(signal.ITIMER_REAL, 0)
        signal.signal(signal.SIGALRM, old)
        signal.signal(signal.SIGPROF, old_prof)


def _native_run_inner2(lem, kwargs):
    try:
        lem.fn(**kwargs)
        return ("return", None)
    except api._AssumptionFailed:
        return ("return", "assumption not met")
    except AssertionError as e:
        tb = traceback.extract_tb(e.__traceback__)
        own = [fr for fr in tb if fr.filename == inspect.getsourcefile(lem.fn)]
        if own and len(tb) and tb[-1].filename == own[-1].filename:
            return ("assert", f"line {own[-1].lineno}: {own[-1].line}")
        return ("raise", f"AssertionError: {e}")
    except _NativeTimeout:
        raise
    except BaseException as e:  # noqa: BLE001
        return ("raise", f"{type(e).__name__}: {e}")


def _safe_repr(v):
    try:
        r = repr(v)
    except Exception as e:  # noqa: BLE001
        r = f"<unrepresentable {type(v).__name__}: {e}>"
    return r if len(r) < 2000 else r[:2000] + "..."


def run_standin(job):
    """Worker: run one stand-in natively over its cases."""
    (modname, name, label, tier, mutations, findings, float_mode) = job
    t0 = time.time()
    res = _err_result(job, None)
    res["standin"] = None
    try:
        importlib.import_module(modname)
        st = [s for s in api.STANDINS if "standin:" + s.name == name and s.fn.__module__ == modname][0]
        fixed = dict([i for i in st.instances() if i[0] == label][0][1])
        n = 0
        sample_cases = []
        for case in st.cases(tier, **fixed):
            n += 1
            case = tuple(case) if isinstance(case, (tuple, list)) else (case,)
            if n in (1, 2, 1000, 100000) or (n < 2000 and n % 577 == 0):
                sample_cases.append(_safe_repr(case)[:300])
            try:
                st.fn(*case)
            except BaseException as e:  # noqa: BLE001
                nat = ("assert" if isinstance(e, AssertionError) else "raise", f"{type(e).__name__}: {e}")
                res["vcs"].append({"kind": "stand-in", "site": st.name, "status": "refuted", "solver_s": 0.0, "detail": f"{st.kind}: native evaluation failed", "args": {"case": _safe_repr(case)}, "native": nat, "decisions": "", "_pickle": _pickle_args({"__case__": case})})
                break
        res["standin"] = {"name": st.name, "instance": label, "kind": st.kind, "cases": n, "bound": st.bound, "exhaustive": bool(st.exhaustive), "failed": bool(res["vcs"]), "samples": sample_cases[:6]}
    except Exception as e:  # noqa: BLE001
        res["error"] = f"CRASH {type(e).__name__}: {e}"
    res["wall_s"] = round(time.time() - t0, 3)
    return res


def _module_assumptions(modnames):
    """Assumptions a contract module declares (ASSUMPTIONS = [...]): trusted behaviour of what its stubs
    stand for, idealisations of its models - copied into the evidence of every run."""
    out = set()
    for m in modnames:
        try:
            mod = importlib.import_module(m)
        except Exception:  # noqa: BLE001
            continue
        out |= set(getattr(mod, "ASSUMPTIONS", []))
    return out


def run_instance(job):
    """Worker: explore all paths of one lemma instance."""
    (modname, lemma_name, label, tier, mutations, findings, float_mode) = job
    if lemma_name.startswith("standin:"):
        return run_standin(job)
    t0 = time.time()
    cfgt = TIERS[tier]
    res = {
        "lemma": lemma_name,
        "instance": label,
        "module": modname,
        "vcs": [],
        "paths": 0,
        "aborted": 0,
        "diff_checked": 0,
        "diff_mismatch": [],
        "error": None,
        "functions": [],
        "transparent": [],
        "contracts_used": [],
        "models_used": [],
        "known": [],
        "assumed_real": False,
        "solver_s": 0.0,
        "fp_probe_spent": 0.0,
    }
    try:
        mod = importlib.import_module(modname)
        lem = [l for l in api.LEMMAS if l.name == lemma_name and l.fn.__module__ == modname][0]
        fixed = dict([i for i in lem.instances() if i[0] == label][0][1])
        sources = Sources(mutations)
        registry = Registry(api.CONTRACTS, sources)
        ex = Explorer(branch_timeout_ms=cfgt["branch_timeout_ms"], max_paths=max(cfgt["max_paths"], lem.cfg.get("max_paths", 0)))
        ex.float_mode = lem.cfg.get("float_mode", float_mode)
        sig = inspect.signature(lem.fn)
        region_srcs = [f for f in findings if f.get("lemma") == lemma_name and f.get("module", modname) == modname and f.get("instance", label) == label]
        used = {"transparent": set(), "contracts": set(), "models": set()}
        lem_params = dict(lem.params)
        if lem.cfg.get("dynamic_params") is not None:
            lem_params.update(lem.cfg["dynamic_params"](fixed))

        def body(path):
            I = Interp(path, sources, registry, {**{k: v for k, v in lem.cfg.items() if k != 'dynamic_params'}, 'lemma_name': lem.fn.__name__})
            if lem.cfg.get("stubs"):
                sm = {}
                for owner, attr, repl in lem.cfg["stubs"]:
                    orig = _static_attr(owner, attr)
                    if isinstance(owner, types.ModuleType) and isinstance(orig, types.MethodType):
                        # module attribute that is a bound method (random.randbytes): replaced as a whole
                        sm[("bound", orig.__func__, id(orig.__self__))] = repl
                        continue
                    sm[getattr(orig, "__func__", orig)] = getattr(repl, "__func__", repl)
                I.cfg["stubs_map"] = sm
            I.float_mode = ex.float_mode
            args = {}
            concs = {}
            for pname in sig.parameters:
                if pname in fixed:
                    spec = api.Const(fixed[pname])
                elif pname in lem_params:
                    spec = lem_params[pname]
                    if not isinstance(spec, api.Spec):
                        spec = api.Const(spec)
                else:
                    raise Unsupported(f"lemma {lemma_name}: no spec for parameter {pname}")
                args[pname], concs[pname] = spec.make(path, pname)
            # known findings: exclude the listed failing region (a *different* failure is still reported)
            for f in region_srcs:
                r = registry.eval_region(I, f["region"], args, lem.fn)
                zb = I.as_z3_bool(r)
                path.assume(z3.Not(zb) if not isinstance(zb, bool) else (not zb))
            vcs = path.obligations

            def concretize():
                m = path.last_model

                def ev(e):
                    return m.eval(e, model_completion=True)

                ev.model = m
                out = {k: c(ev) for k, c in concs.items()}
                if path.ghost.get("__oracle__"):
                    out["__oracle__"] = [x(ev) if callable(x) else x for x in path.ghost["__oracle__"]]
                return out

            def record(kind, site, status, dt, detail=None, model_args=None, native=None):
                vcs.append({"kind": kind, "site": site, "status": status, "solver_s": round(dt, 4), "detail": detail, "args": model_args, "native": native, "decisions": "".join("T" if d else "F" for d in path.decisions)})

            def assert_hook(I_, s, frame, v):
                if not frame.filename.startswith(os.path.join(VERIF, "contracts")):
                    if not I_.truth(v):
                        msg = I_.eval(s.msg, frame) if s.msg is not None else None
                        I_.raise_py(AssertionError, *([msg] if msg is not None else []))
                    return
                site = f"{os.path.basename(frame.filename)}:{s.lineno}"
                zb = I_.as_z3_bool(v)
                prove("assert", site, zb)

            def prove(kind, site, zb):
                """Obligation: the path condition entails zb. Records the verdict; continues assuming zb."""
                t1 = time.time()
                if isinstance(zb, bool):
                    if zb:
                        record(kind, site, "discharged", 0.0, "by evaluation")
                        return
                    r = path.check_full(timeout_ms=cfgt["goal_timeout_ms"])
                    neg = None
                else:
                    neg = z3.Not(zb)
                    r = path.check(neg, timeout_ms=cfgt["goal_timeout_ms"]) if not core_has_fp(neg) else z3.unknown
                    if r != z3.unsat:
                        r = path.check_full(neg, timeout_ms=cfgt["fp_timeout_ms"] if (path.fp_pc or core_has_fp(neg)) else cfgt["goal_timeout_ms"])
                dt = time.time() - t1
                if r == z3.unsat:
                    record(kind, site, "discharged" if neg is not None else "unreachable", dt, "z3")
                    if neg is not None:
                        path.assume(zb)
                    else:
                        raise PathAbort()
                    return
                if r == z3.sat:
                    # model of pc & !goal
                    cargs = concretize()
                    native = _native_run(lem, cargs)
                    record(kind, site, "refuted", dt, "z3 sat", {k: _safe_repr(x) for k, x in cargs.items()}, native)
                    vcs[-1]["_pickle"] = _pickle_args(cargs)
                    if neg is None:
                        raise PathAbort()
                    path.assume(zb)
                    return
                record(kind, site, "undecided", dt, f"z3 {path.solver.reason_unknown()}")
                if neg is not None:
                    path.assume(zb)

            I.cfg["assert_hook"] = assert_hook
            I.cfg["prove"] = prove
            outcome = None
            try:
                I.call_function(lem.fn, [], args)
                outcome = ("return", None)
            except Unsupported as u:
                # a loop that could not be unrolled to its end and has no loop rule: termination is not proved
                # (checker limit, exit 3) - unless an input of this very path makes the real code run without
                # end: that replay is a refutation of termination and stands on its own
                if "loop needs an invariant" not in u.msg or path.fp_pc:
                    raise
                t1 = time.time()
                if path.check(timeout_ms=cfgt["goal_timeout_ms"]) != z3.sat:
                    raise
                cargs = concretize()
                native = _native_run(lem, cargs)
                if native[0] != "hang" and not mutations:
                    raise  # (a canary's mutated text is not what the native replay runs: there the refutation is kept, unconfirmed)
                record("termination", f"loop@{getattr(u, 'where', None) or '?'}", "refuted", time.time() - t1, "loop unrolled beyond max_unroll; the real code does not return on this path's input", {k: _safe_repr(x) for k, x in cargs.items()}, native)
                vcs[-1]["_pickle"] = _pickle_args(cargs)
                outcome = ("hang", None)
            except PyRaise as pr:
                outcome = ("raise", pr.exc.cls.__name__)
                t1 = time.time()
                native = None
                if path.fp_pc:
                    # floating point path: first try a model of the float-free part of the path condition
                    # and replay it natively - a reproduced failure is a violation whatever the solver says
                    r = path.check(timeout_ms=cfgt["goal_timeout_ms"])
                    if r == z3.sat:
                        cargs = concretize()
                        native = _native_run(lem, cargs)
                        if not (native[0] == "raise" and native[1].startswith(pr.exc.cls.__name__)):
                            native = None
                    if r != z3.unsat and native is None:
                        if res["fp_probe_spent"] < cfgt["fp_probe_total_s"]:
                            tq = time.time()
                            r = path.check_full(timeout_ms=cfgt["fp_probe_ms"])
                            res["fp_probe_spent"] += time.time() - tq
                        else:
                            r = z3.unknown
                            path.full_reason = "floating point probe budget of this instance used up"
                else:
                    r = path.check_full(timeout_ms=cfgt["goal_timeout_ms"])
                dt = time.time() - t1
                site = f"escape:{pr.exc.cls.__name__}@{pr.where or '?'}"
                if r == z3.sat:
                    if native is None:
                        cargs = concretize()
                        native = _native_run(lem, cargs)
                    record("no-escape", site, "refuted", dt, f"{pr.exc.cls.__name__}{_safe_repr(pr.exc.fields.get('args'))}", {k: _safe_repr(x) for k, x in cargs.items()}, native)
                    vcs[-1]["_pickle"] = _pickle_args(cargs)
                elif r == z3.unsat:
                    outcome = ("infeasible", None)
                else:
                    record("no-escape", site, "undecided", dt, f"z3 {getattr(path, 'full_reason', None) or path.solver.reason_unknown()}")
                    vcs[-1]["fp"] = bool(path.fp_pc)
            if outcome == ("return", None):
                record("no-escape", "end-of-lemma", "discharged", 0.0, "path ends in normal return")
            used["transparent"] |= I.transparent_used
            used["contracts"] |= I.contracts_used
            used["models"] |= I.models_used
            if path.assumed_real:
                res["assumed_real"] = True
            # differential check against CPython on paths that returned normally with all asserts discharged
            diff = None
            if outcome == ("return", None) and "havoc" not in path.notes and res["diff_checked"] < cfgt["diff_paths"] and all(v["status"] != "refuted" for v in vcs):
                if not path.fp_pc and path.check(timeout_ms=cfgt["goal_timeout_ms"]) == z3.sat:
                    try:
                        cargs = concretize()
                        native = _native_run(lem, cargs)
                        res["diff_checked"] += 1
                        if native[0] != "return":
                            res["diff_mismatch"].append({"args": {k: _safe_repr(x) for k, x in cargs.items()}, "symbolic": "return", "native": native, "decisions": "".join("T" if d else "F" for d in path.decisions)})
                    except Exception as e:  # noqa: BLE001
                        res["diff_mismatch"].append({"error": f"concretization failed: {type(e).__name__}: {e}"})
            return vcs

        results = ex.run(body)
        for path, _ in results:
            res["vcs"].extend(path.obligations)
        # undecided floating point obligations: look for a witness with the float code executed over
        # the reals (fast), and keep only what replays natively - the native run is the oracle
        if float_mode == "fp" and any(v["status"] == "undecided" and v.get("fp") for v in res["vcs"]):
            w = run_instance((modname, lemma_name, label, tier, mutations, findings, "real"))
            confirmed = [v for v in w["vcs"] if v["status"] == "refuted" and v["native"] and v["native"][0] in ("raise", "assert", "hang")]
            if confirmed:
                for v in confirmed:
                    v["detail"] = f"witness found in REAL mode, confirmed natively: {v['detail']}"
                res["vcs"] = [v for v in res["vcs"] if not (v["status"] == "undecided" and v.get("fp"))] + confirmed
            res["witness_search"] = {"mode": "real", "confirmed": len(confirmed)}
        if ex.unsupported:
            res["error"] = f"UNSUPPORTED {ex.unsupported[0]}" + (f" (+{len(ex.unsupported) - 1} more paths)" if len(ex.unsupported) > 1 else "")
        res["paths"] = ex.stats["paths"]
        res["aborted"] = ex.stats["aborted"]
        res["solver_calls"] = ex.stats["solver_calls"]
        res["functions"] = sources.functions_used()
        res["transparent"] = sorted(used["transparent"])
        res["contracts_used"] = sorted(used["contracts"])
        res["models_used"] = sorted(used["models"])
        res["mutations_used"] = sorted(sources.used_mutations)
        res["known"] = [f["id"] for f in region_srcs]
    except Unsupported as u:
        res["error"] = f"UNSUPPORTED {u}"
    except Exception as e:  # noqa: BLE001
        res["error"] = f"CRASH {type(e).__name__}: {e}\n{traceback.format_exc()}"
    res["wall_s"] = round(time.time() - t0, 3)
    res["solver_s"] = round(sum(v["solver_s"] for v in res["vcs"]), 3)
    return res


def _pickle_args(cargs):
    try:
        return base64.b64encode(pickle.dumps(cargs)).decode()
    except Exception:  # noqa: BLE001
        return None


# ----------------------------------------------------------------------------- property level


def run_property(prop, tier, mutations=None, jobs=None, only=None, float_mode="fp", quiet=False, instances=None):
    mods = load_property_modules(prop)
    if not mods:
        print(f"ERROR no contract module for {prop}")
        return 3, None
    findings_all = load_known_findings()
    # a lemma relied on from another property (api.rely_on) brings that property's known findings with it
    relied = {(getattr(l, "origin", l.prop), l.name) for l in api.LEMMAS if l.prop == prop and getattr(l, "origin", l.prop) != prop}
    findings = [f for f in findings_all.get("open", []) if f["property"] == prop or (f["property"], f.get("lemma")) in relied]
    work = []
    for lem in api.LEMMAS:
        if lem.prop != prop:
            continue
        if only and lem.name not in only:
            continue
        if lem.cfg.get("tier") == "thorough" and tier != "thorough" and not only:
            continue
        for label, _ in lem.instances():
            if instances and not any(s in label for s in instances):
                continue
            work.append((lem.fn.__module__, lem.name, label, tier, mutations or [], findings, float_mode))
    if not mutations:
        # stand-ins evaluate the real code natively: in-memory mutations (canaries) do not reach them
        for st in api.STANDINS:
            if st.prop == prop and (not only or st.name in only):
                for label, _ in st.instances():
                    if instances and not any(s in label for s in instances):
                        continue
                    work.append((st.fn.__module__, "standin:" + st.name, label, tier, [], findings, float_mode))
    if not work:
        print(f"ERROR no lemma for {prop}")
        return 3, None
    jobs = jobs or min(16, os.cpu_count() or 4)
    t0 = time.time()
    results = []
    if jobs == 1:
        for w in work:
            results.append(run_instance(w))
    else:
        if len(work) > 8:
            from .sources import prewarm

            prewarm(mutations or [])
        results = _run_pool(work, jobs, INSTANCE_DEADLINE_S[tier])
    wall = time.time() - t0
    return summarize(prop, tier, results, wall, findings, mutations, quiet)


INSTANCE_DEADLINE_S = {"quick": 900, "thorough": 5400}


def _err_result(job, why):
    return {"lemma": job[1], "instance": job[2], "module": job[0], "vcs": [], "paths": 0, "aborted": 0, "diff_checked": 0, "diff_mismatch": [], "error": why, "functions": [], "transparent": [], "contracts_used": [], "models_used": [], "known": [], "assumed_real": False, "solver_s": 0.0, "wall_s": 0.0}


def _child(conn, chunk):
    """Run a chunk of instances; every result is sent as soon as it is ready."""
    try:
        for i, job in chunk:
            try:
                r = run_instance(job)
            except BaseException as e:  # noqa: BLE001
                r = _err_result(job, f"CRASH {type(e).__name__}: {e}")
            conn.send((i, r))
    finally:
        conn.close()


def _run_pool(work, jobs, deadline_s):
    """Forked worker processes, each running a chunk of lemma instances, at most `jobs` at a time.
    A worker that dies (solver abort) or is silent for longer than the per-instance deadline turns its
    unfinished instances into ERROR results instead of hanging the check."""
    ctx = multiprocessing.get_context("fork")
    n = len(work)
    size = max(1, min(8, n // (jobs * 3) or 1))
    chunks = [list(enumerate(work))[k : k + size] for k in range(0, n, size)]
    running = []
    results = [None] * n
    while chunks or running:
        while chunks and len(running) < jobs:
            chunk = chunks.pop(0)
            parent, child = ctx.Pipe(duplex=False)
            p = ctx.Process(target=_child, args=(child, chunk), daemon=True)
            p.start()
            child.close()
            running.append({"p": p, "conn": parent, "todo": [i for i, _ in chunk], "last": time.time()})
        progressed = False
        for w in list(running):
            try:
                while w["conn"].poll(0):
                    i, r = w["conn"].recv()
                    results[i] = r
                    w["todo"].remove(i)
                    w["last"] = time.time()
                    progressed = True
            except (EOFError, OSError):
                pass
            dead = not w["p"].is_alive()
            late = time.time() - w["last"] > deadline_s
            if not w["todo"] or dead or late:
                if w["todo"]:
                    if late and not dead:
                        w["p"].kill()
                    # drain what may still be in the pipe
                    try:
                        while w["conn"].poll(0.2):
                            i, r = w["conn"].recv()
                            results[i] = r
                            w["todo"].remove(i)
                    except (EOFError, OSError):
                        pass
                    why = f"TIMEOUT no result within the deadline of {deadline_s} s" if late else f"CRASH worker process died with exit code {w['p'].exitcode} (solver abort?)"
                    for j, i in enumerate(w["todo"]):
                        results[i] = _err_result(work[i], why if j == 0 else "SKIPPED worker process of this chunk died before reaching this instance")
                w["conn"].close()
                w["p"].join(timeout=1)
                running.remove(w)
                progressed = True
        if not progressed:
            time.sleep(0.01)
    return results


def summarize(prop, tier, results, wall, findings, mutations, quiet=False):
    errors = [r for r in results if r["error"]]
    standins = [r["standin"] for r in results if r.get("standin")]
    vcs = [(r, v) for r in results for v in r["vcs"]]
    n_total = len([1 for r, v in vcs if v["kind"] != "stand-in"])
    refuted = [(r, v) for r, v in vcs if v["status"] == "refuted"]
    undecided = [(r, v) for r, v in vcs if v["status"] == "undecided"]
    discharged = [(r, v) for r, v in vcs if v["status"] in ("discharged", "unreachable")]
    # a universally quantified assert (forall_range) is split over several paths: a native failure at a
    # site that another path of the same instance refuted is that refutation, not an engine mismatch
    def _expected(r, m):
        nat = m.get("native")
        if not nat or nat[0] != "assert":
            return False
        line = nat[1].split(":")[0].replace("line ", "").strip()
        return any(v["status"] == "refuted" and v["site"].endswith(":" + line) for v in r["vcs"])

    mism = [(r, m) for r in results for m in r["diff_mismatch"] if not _expected(r, m)]
    sites = {}
    for r, v in vcs:
        k = (r["lemma"], v["site"] if v["kind"] == "assert" else v["kind"])
        sites.setdefault(k, {"vcs": 0, "instances": set()})
        sites[k]["vcs"] += 1
        sites[k]["instances"].add(r["instance"])
    code = 0
    lines = []
    if errors and not (refuted and all(str(r["error"]).startswith("UNSUPPORTED") for r in errors)):
        code = 3
    for r in errors:
        lines.append(f"ERROR {r['lemma']}[{r['instance']}]: {r['error'].splitlines()[0]}")
    if mism and code == 0:
        code = 3
        for r, m in mism[:10]:
            lines.append(f"ENGINE-MISMATCH {r['lemma']}[{r['instance']}]: {json.dumps(m)[:600]}")
    if n_total == 0 and code == 0 and not (standins and all(s["cases"] > 0 for s in standins)):
        code = 3
        lines.append("ERROR zero obligations generated")
    # non-vacuity: every lemma instance must have at least one path that returns normally
    for r in results:
        if r.get("standin") is not None or "standin" in r:
            continue
        if not r["error"] and not any(v["kind"] in ("no-escape", "loop-iteration-post") and v["status"] == "discharged" for v in r["vcs"]) and not any(v["status"] == "refuted" for v in r["vcs"]):
            if code == 0:
                code = 3
            lines.append(f"ERROR vacuous lemma instance {r['lemma']}[{r['instance']}]: no path reaches the end")
    replay_files = []
    # a refutation the real code confirms is a violation even when other paths fell outside the subset
    if refuted and (code == 0 or (code == 3 and any(v["native"] is not None and v["native"][0] in ("assert", "raise", "hang") for _, v in refuted))):
        code = 1
    if refuted:
        os.makedirs(os.path.join(VERIF, "replays", prop), exist_ok=True)
        seen = set()
        for r, v in refuted:
            key = (r["lemma"], r["instance"], v["site"])
            if key in seen:
                continue
            seen.add(key)
            fn = os.path.join(VERIF, "replays", prop, _slug(f"{r['lemma']}-{r['instance']}-{v['site']}") + ".json")
            confirmed = v["native"] is not None and v["native"][0] in ("assert", "raise", "hang")
            with open(fn, "w") as fh:
                json.dump(
                    {
                        "property": prop,
                        "obligation": f"{r['lemma']}[{r['instance']}] {v['kind']} {v['site']}",
                        "module": r["module"],
                        "lemma": r["lemma"],
                        "instance": r["instance"],
                        "solver": "z3",
                        "solver_output": v["detail"],
                        "path_decisions": v["decisions"],
                        "input": v["args"],
                        "input_pickle_b64": v.get("_pickle"),
                        "native_outcome": v["native"],
                        "confirmed_natively": confirmed,
                        "mutations": mutations or [],
                    },
                    fh,
                    indent=1,
                )
            replay_files.append((fn, confirmed, r, v))
            lines.append(f"REFUTED {r['lemma']}[{r['instance']}] {v['kind']} {v['site']}: input {json.dumps(v['args'])[:400]} native={v['native']}")
            if code == 1:
                lines.append(f"VIOLATION property={prop} replay={fn}" + ("" if confirmed else " no-failing-input-found"))
    if undecided and code == 0:
        code = 2
    for r, v in undecided[:20]:
        lines.append(f"UNDECIDED property={prop} obligation={r['lemma']}[{r['instance']}] {v['site']} ({v['detail']})")
    if code in (0,):
        for f in findings:
            lines.append(f"KNOWN-FINDING: property={f['property']} {f['what']}")
    functions = {}
    for r in results:
        for f in r["functions"]:
            functions[(f["file"], f["function"], f["line"])] = f
    samples = []
    for r, v in (discharged[:3] + refuted[:3]):
        samples.append({"lemma": r["lemma"], "instance": r["instance"], "kind": v["kind"], "site": v["site"], "status": v["status"], "path": v["decisions"], "backend": v["detail"]})
    evidence = {
        "property_id": prop,
        "tier": tier,
        "seed": int(os.environ.get("VERIF_SEED", "0") or 0),
        "level": "proof",
        "coverage": {
            "obligations": n_total,
            "discharged": len(discharged),
            "refuted": len(refuted),
            "undecided": len(undecided),
            "obligation_sites": len(sites),
            "lemma_instances": len(results),
            "paths_explored": sum(r["paths"] for r in results),
            "paths_infeasible": sum(r["aborted"] for r in results),
            "backend": {"z3": n_total},
            "solver_s": round(sum(r["solver_s"] for r in results), 3),
            "differential_paths_replayed_natively": sum(r["diff_checked"] for r in results),
            "differential_mismatches": len(mism),
            "checker_cmd": f"./check {prop} --tier {tier}",
            "trusted_base": sorted({m for r in results for m in r["models_used"]} | {"pyvc encoding of Python int/bytes/struct/enum/dataclass semantics (pyvc/intops.py, bytesops.py, stdlib.py, models.py)", "z3 5.1.0"}),
            "functions_under_contract": [functions[k] for k in sorted(functions)],
            "transparent_functions": sorted({t for r in results for t in r["transparent"]}),
            "callee_contracts_used": sorted({t for r in results for t in r["contracts_used"]}),
            "known_findings_excluded": [f["id"] for f in findings],
            "samples": samples,
            "stand_ins": standins,
            "stand_ins_note": "stand-ins are native evaluations over an enumerated domain; they are not counted in obligations/discharged",
            "exit_code": code,
            "messages": lines[:50],
        },
        "assumptions": sorted({"logging calls never raise (A-LOG)", "str()/repr()/f-string text used only in messages is opaque"} | ({"machine float arithmetic treated as mathematical (REAL encoding)"} if any(r["assumed_real"] for r in results) else set()) | _module_assumptions({r["module"] for r in results})),
        "wall_s": round(wall, 3),
        "violations": len({(r["lemma"], r["instance"], v["site"]) for r, v in refuted}) if code == 1 else 0,
    }
    if not quiet:
        print(f"{prop} tier={tier} instances={len(results)} obligations={n_total} discharged={len(discharged)} refuted={len(refuted)} undecided={len(undecided)} paths={evidence['coverage']['paths_explored']} diff={evidence['coverage']['differential_paths_replayed_natively']} wall={wall:.1f}s exit={code}")
        for l in lines:
            print(l)
    return code, evidence


def _slug(s):
    return "".join(c if c.isalnum() or c in "-_." else "_" for c in s)[:150]


def write_evidence(prop, evidence):
    os.makedirs(os.path.join(VERIF, "evidence"), exist_ok=True)
    p = os.path.join(VERIF, "evidence", f"{prop}.json")
    cov = evidence["coverage"]
    if cov["obligations"] == 0 and cov.get("stand_ins") and cov.get("exit_code") in (0, 1):
        # a property decided only by labelled stand-ins: bounded native enumeration, not a proof
        evidence["level"] = "exploration"
        n = sum(s["cases"] for s in cov["stand_ins"])
        cov["evaluations"] = n
        cov["distinct_nontrivial"] = n
        cov["rule"] = "cases are enumerated without repetition by the stand-in's generator (" + "; ".join(s["bound"] for s in cov["stand_ins"]) + "); every case drives the real code and is compared with the reference"
        cov["samples"] = [x for s in cov["stand_ins"] for x in s.get("samples", [])][:8] or ["(no sample recorded)"]
        cov["exhaustive"] = all(s["exhaustive"] for s in cov["stand_ins"])
    elif cov["obligations"] == 0 or cov["discharged"] == 0:
        evidence["level"] = "other"
        cov["explanation"] = "checker error, nothing was decided on this run: " + "; ".join(cov.get("messages", [])[:3])
    with open(p, "w") as fh:
        json.dump(evidence, fh, indent=1, default=str)
    try:
        import jsonschema

        with open("/root/.vp/EVIDENCE.schema.json") as fh:
            jsonschema.validate(evidence, json.load(fh))
    except FileNotFoundError:
        pass


def replay(path):
    with open(path) as fh:
        r = json.load(fh)
    print(f"replay of {r['obligation']}")
    print(f"  solver: {r['solver']} {r['solver_output']}")
    print(f"  input: {json.dumps(r['input'])}")
    if not r.get("input_pickle_b64"):
        print("  no concrete input recorded (no-failing-input-found)")
        return 1
    importlib.import_module(r["module"])
    cargs = pickle.loads(base64.b64decode(r["input_pickle_b64"]))
    if r["lemma"].startswith("standin:"):
        st = [s for s in api.STANDINS if "standin:" + s.name == r["lemma"]][0]
        try:
            st.fn(*cargs["__case__"])
            print("  native outcome on the current tree: returned normally")
            return 0
        except BaseException as e:  # noqa: BLE001
            print(f"  native outcome on the current tree: {type(e).__name__}: {e}")
            return 1
    lem = [l for l in api.LEMMAS if l.name == r["lemma"] and l.fn.__module__ == r["module"]][0]
    out = _native_run(lem, cargs)
    print(f"  native outcome on the current tree: {out}")
    return 1 if out[0] != "return" else 0


def main(argv=None):
    ap = argparse.ArgumentParser()
    ap.add_argument("prop")
    ap.add_argument("--tier", default=os.environ.get("VERIF_TIER", "quick"), choices=["quick", "thorough"])
    ap.add_argument("--replay")
    ap.add_argument("--mutate", action="append", default=[], help="SUFFIX::OLD::NEW in-memory source mutation (canary)")
    ap.add_argument("--jobs", type=int)
    ap.add_argument("--only", action="append")
    ap.add_argument("--instances", action="append", help="substring filter on instance labels")
    ap.add_argument("--no-evidence", action="store_true")
    ap.add_argument("--no-canaries", action="store_true")
    a = ap.parse_args(argv)
    if a.replay:
        sys.exit(replay(a.replay))
    muts = []
    for m in a.mutate:
        suffix, old, new = m.split("::")
        muts.append((suffix, old.encode().decode("unicode_escape"), new.encode().decode("unicode_escape")))
    code, ev = run_property(a.prop, a.tier, muts, a.jobs, a.only, instances=a.instances)
    if ev is not None and not muts and not a.only and not a.instances and not a.no_canaries and code == 0:
        from .canary import run_canaries

        ccode, cinfo = run_canaries(a.prop, a.tier, a.jobs)
        ev["coverage"]["canaries"] = cinfo
        if ccode != 0:
            code = 3
            ev["coverage"]["exit_code"] = 3
    if ev is not None and not a.no_evidence and not muts and not a.only and not a.instances:
        write_evidence(a.prop, ev)
    sys.exit(code)


if __name__ == "__main__":
    try:
        main()
    except SystemExit:
        raise
    except BaseException as e:  # noqa: BLE001
        # a crash of the checker (or of importing the tree under test) is never a verdict: exit 3
        traceback.print_exc()
        print(f"ERROR checker crashed: {type(e).__name__}: {str(e)[:300]}")
        sys.exit(3)
