"""
PyVC symbolic interpreter: executes the ast of real functions on symbolic values, one path at a
time (paths are enumerated by core.Explorer through PathState.decide).

Anything not recognised raises core.Unsupported -> exit 3 ("outside verified subset"), never a verdict.
"""

from __future__ import annotations

import ast
import builtins
import dataclasses
import enum
import inspect
import operator
import types

import z3

from .core import (
    BSeg,
    CSeg,
    Opaque,
    PathAbort,
    PyRaise,
    SBool,
    SBytes,
    SEnum,
    SFloat,
    SInt,
    SObj,
    SStr,
    SVal,
    Unsupported,
    _clip,
    iexpr,
)

INTERP_PREFIXES = ("xknx", "contracts", "spec")


class _Return(Exception):
    def __init__(self, value):
        self.value = value


class _Break(Exception):
    pass


class _Continue(Exception):
    pass


class IFunc:
    """Function defined inside interpreted code (nested def / lambda)."""

    def __init__(self, node, frame, defaults, kwdefaults, name, ms):
        self.node = node
        self.frame = frame
        self.defaults = defaults
        self.kwdefaults = kwdefaults
        self.name = name
        self.ms = ms


class BoundMethod:
    def __init__(self, self_val, func, defcls=None):
        self.self_val = self_val
        self.func = func  # python function object, IFunc or model callable
        self.defcls = defcls


class PartialVal:
    """functools.partial(func, *args, **kwargs) over interpreter values."""

    def __init__(self, func, args, kwargs):
        self.func, self.args, self.kwargs = func, list(args), dict(kwargs)


class ModelMethod:
    """Method of a symbolic builtin value (bytes.hex, int.to_bytes...)."""

    def __init__(self, recv, name):
        self.recv = recv
        self.name = name


class SuperProxy:
    def __init__(self, self_val, after_cls, objcls):
        self.self_val = self_val
        self.after_cls = after_cls
        self.objcls = objcls


class Coro:
    """Un-awaited call of an async function."""

    def __init__(self, func, args, kwargs, defcls=None):
        self.func = func
        self.args = args
        self.kwargs = kwargs
        self.defcls = defcls


class CtxGen:
    """Call of a @contextmanager / @asynccontextmanager function, inlined at the `with`."""

    def __init__(self, func, args, kwargs, defcls=None, self_val=None):
        self.func = func
        self.args = args
        self.kwargs = kwargs
        self.defcls = defcls


class Frame:
    def __init__(self, fn_globals, qualname, filename, defcls=None, parent=None, ms=None):
        self.locals = {}
        self.globals = fn_globals
        self.qualname = qualname
        self.filename = filename
        self.defcls = defcls
        self.parent = parent  # enclosing Frame for closures
        self.ms = ms
        self.closure_cells = None  # dict for real closures
        self.inline_body = None  # (stmts, caller_frame, optional_vars) for contextmanager inlining
        self.pending_ctrl = None
        self.yielded = None  # list when running a generator eagerly
        self.loop_ordinal = 0
        self.nonlocals = set()
        self.globals_decl = set()


def is_symbolic(v, depth=0):
    if isinstance(v, (SVal, IFunc, BoundMethod, ModelMethod, Coro, CtxGen, SuperProxy)):
        return True
    if depth > 6:
        return False
    if isinstance(v, (tuple, list, set, frozenset)):
        return any(is_symbolic(x, depth + 1) for x in v)
    if isinstance(v, dict):
        return any(is_symbolic(k, depth + 1) or is_symbolic(x, depth + 1) for k, x in v.items())
    return False


def tz(c):
    if c == 0:
        return 10**6
    return (c & -c).bit_length() - 1


def mk_int(v):
    """python int -> itself; z3 expr -> SInt."""
    return v


def sint_const_bits(c):
    return (tz(c), c.bit_length()) if c >= 0 else (tz(c), None)


def bits_of(v):
    """(lz, nb) for an int-like value."""
    if isinstance(v, bool):
        return sint_const_bits(int(v))
    if isinstance(v, int):
        return sint_const_bits(v)
    if isinstance(v, SInt):
        return (v.lz, v.nb)
    if isinstance(v, SBool):
        return (0, 1)
    return (0, None)


def is_intlike(v):
    return isinstance(v, (int, SInt, SBool)) and not isinstance(v, float)


_CMP = {
    ast.Lt: operator.lt,
    ast.LtE: operator.le,
    ast.Gt: operator.gt,
    ast.GtE: operator.ge,
}

_BIN = {
    ast.Add: operator.add,
    ast.Sub: operator.sub,
    ast.Mult: operator.mul,
    ast.Div: operator.truediv,
    ast.FloorDiv: operator.floordiv,
    ast.Mod: operator.mod,
    ast.Pow: operator.pow,
    ast.LShift: operator.lshift,
    ast.RShift: operator.rshift,
    ast.BitOr: operator.or_,
    ast.BitAnd: operator.and_,
    ast.BitXor: operator.xor,
    ast.MatMult: operator.matmul,
}



_NO_LITERAL = object()


def _literal_default(d):
    """Value of a default written as a literal (number, string, bytes, bool, None, signed number)."""
    if isinstance(d, ast.Constant):
        return d.value
    if isinstance(d, ast.UnaryOp) and isinstance(d.op, ast.USub) and isinstance(d.operand, ast.Constant) and isinstance(d.operand.value, (int, float)) and not isinstance(d.operand.value, bool):
        return -d.operand.value
    return _NO_LITERAL


class Interp:
    def __init__(self, path, sources, registry=None, config=None):
        self.path = path
        self.sources = sources
        self.registry = registry
        self.cfg = config or {}
        self.depth = 0
        self.max_depth = self.cfg.get("max_depth", 80)
        self.max_steps = self.cfg.get("max_steps", 400000)
        self.trace = []  # call trace for diagnostics
        self.float_mode = self.cfg.get("float_mode", "fp")
        self.transparent_used = set()
        self.contracts_used = set()
        self.models_used = set()
        from . import models

        self.models = models

    # ------------------------------------------------------------------ utilities

    def where(self, frame, node):
        return f"{frame.filename}:{getattr(node, 'lineno', '?')} ({frame.qualname})"

    def unsupported(self, msg, frame=None, node=None):
        raise Unsupported(msg, node, self.where(frame, node) if frame is not None and node is not None else None)

    def mkexc(self, cls, *args):
        return SObj(cls, {"args": tuple(args)})

    def raise_py(self, cls, *args):
        raise PyRaise(self.mkexc(cls, *args))

    def sint(self, e, lz=0, nb=None):
        if z3.is_int_value(e):
            return e.as_long()
        return SInt(e, lz, nb)

    def sbool(self, e):
        if isinstance(e, bool):
            return e
        e = z3.simplify(e)
        if z3.is_true(e):
            return True
        if z3.is_false(e):
            return False
        return SBool(e)

    # ------------------------------------------------------------------ truth / decide

    def truth(self, v):
        """Python truthiness as python bool (forks on symbolic)."""
        if isinstance(v, SBool):
            return self.path.decide(v.e)
        if isinstance(v, SInt):
            return self.path.decide(v.e != 0)
        if isinstance(v, SFloat):
            return self.path.decide(self.models.float_nonzero(self, v))
        if isinstance(v, SBytes):
            n = v.length()
            if isinstance(n, int):
                return n > 0
            return self.path.decide(n > 0)
        if isinstance(v, SObj):
            f = self.lookup_class_attr(v.cls, "__bool__")
            if f is not None and self.is_interp_func(f[0]):
                return self.truth(self.call_function(f[0], [v], {}, defcls=f[1]))
            f = self.lookup_class_attr(v.cls, "__len__")
            if f is not None and self.is_interp_func(f[0]):
                return self.truth(self.call_function(f[0], [v], {}, defcls=f[1]))
            return True
        if isinstance(v, (SEnum, Opaque, IFunc, BoundMethod, ModelMethod, Coro)):
            return True
        if isinstance(v, self.models.STuple):
            return self.truth(v.b)
        if type(v).__name__ == "SymList":
            return self.path.decide(v.n0 + len(v.tail) > 0)
        if isinstance(v, SStr):
            raise Unsupported("truth value of opaque string")
        if isinstance(v, SVal):
            raise Unsupported(f"truth of {v!r}")
        return bool(v)

    def as_z3_bool(self, v):
        """Value -> z3 Bool / python bool without forking where possible."""
        if isinstance(v, bool):
            return v
        if isinstance(v, SBool):
            return v.e
        if isinstance(v, SInt):
            return v.e != 0
        if isinstance(v, SBytes):
            n = v.length()
            return n > 0 if isinstance(n, int) else n > 0
        return self.truth(v)

    # ------------------------------------------------------------------ function / class helpers

    def is_interp_func(self, f):
        if isinstance(f, IFunc):
            return True
        if isinstance(f, types.FunctionType):
            mod = f.__module__ or ""
            return mod.split(".")[0] in INTERP_PREFIXES
        return False

    def is_interp_class(self, c):
        return isinstance(c, type) and (c.__module__ or "").split(".")[0] in INTERP_PREFIXES

    def lookup_class_attr(self, cls, name):
        """(raw attribute, defining class) through the MRO, or None."""
        for k in cls.__mro__:
            if name in k.__dict__:
                return (k.__dict__[name], k)
        return None

    # ------------------------------------------------------------------ attribute access

    def getattr(self, v, name, frame=None, node=None):
        if isinstance(v, SObj):
            return self.getattr_obj(v, name)
        if isinstance(v, SuperProxy):
            return self.getattr_super(v, name)
        if isinstance(v, SEnum):
            if name == "value":
                return self.models.enum_value(self, v)
            if name == "name":
                return SStr("enum_name", [v, ""])
            if name == "__class__":
                return v.cls
            r = self.lookup_class_attr(v.cls, name)
            if r is not None:
                return self.bind_class_attr(v, r[0], r[1], name)
            raise Unsupported(f"attribute {name} of symbolic enum {v.cls.__name__}")
        if isinstance(v, SBytes):
            if name == "__class__":
                return bytearray if v.mutable else bytes
            return ModelMethod(v, name)
        if isinstance(v, (SInt, SBool, SFloat, SStr)):
            if name == "__class__":
                return {SInt: int, SBool: bool, SFloat: float, SStr: str}[type(v)]
            if isinstance(v, (SInt, SBool)) and name in ("real", "numerator"):
                return v
            return ModelMethod(v, name)
        if isinstance(v, Opaque):
            if name in v.attrs:
                return v.attrs[name]
            return self.models.opaque_getattr(self, v, name)
        if isinstance(v, (IFunc,)):
            if name == "__name__":
                return v.name
            raise Unsupported(f"attribute {name} of interpreted function")
        if isinstance(v, BoundMethod):
            if name == "__self__":
                return v.self_val
            if name == "__func__":
                return v.func
            if name == "__name__":
                return getattr(v.func, "__name__", "method")
            raise Unsupported(f"attribute {name} of bound method")
        if isinstance(v, type) and self.is_interp_class(v):
            return self.getattr_class(v, name)
        # containers holding symbolic values: method access
        if isinstance(v, tuple) and hasattr(type(v), "_fields"):
            # NamedTuple instance (possibly holding symbolic fields)
            if name in type(v)._fields:
                return getattr(v, name)
            r = self.lookup_class_attr(type(v), name)
            if r is not None and self.is_interp_class(r[1]):
                return self.bind_class_attr(v, r[0], r[1], name)
            return ModelMethod(v, name)
        if isinstance(v, (list, dict, set, tuple)) or type(v).__name__ in ("SymList", "SymDict", "SMap"):
            return ModelMethod(v, name)
        # concrete python object
        if not isinstance(v, type) and self.is_interp_class(type(v)) and not isinstance(v, enum.Enum):
            # real instance of a repo class (module-level constants): methods are interpreted with self=real object
            r = self.lookup_class_attr(type(v), name)
            if name in getattr(v, "__dict__", {}):
                return getattr(v, name)
            if r is not None:
                return self.bind_class_attr(v, r[0], r[1], name)
        if isinstance(v, enum.Enum) and self.is_interp_class(type(v)) and name not in ("value", "name", "_value_", "_name_"):
            r = self.lookup_class_attr(type(v), name)
            if r is not None and not isinstance(r[0], enum.Enum):
                return self.bind_class_attr(v, r[0], r[1], name)
        try:
            return getattr(v, name)
        except AttributeError as e:
            self.raise_py(AttributeError, str(e))

    def bind_class_attr(self, inst, raw, defcls, name):
        """Descriptor protocol for an attribute found on the class of `inst`."""
        if isinstance(raw, types.FunctionType):
            return BoundMethod(inst, raw, defcls)
        if isinstance(raw, property):
            if raw.fget is None:
                self.raise_py(AttributeError, name)
            return self.call_function(raw.fget, [inst], {}, defcls=defcls)
        if isinstance(raw, classmethod):
            cls = inst.cls if isinstance(inst, (SObj, SEnum)) else type(inst)
            return BoundMethod(cls, raw.__func__, defcls)
        if isinstance(raw, staticmethod):
            return raw.__func__
        if isinstance(raw, (types.MemberDescriptorType, types.GetSetDescriptorType)):
            self.raise_py(AttributeError, name)
        if hasattr(raw, "__get__") and not isinstance(raw, (int, str, bytes, float, tuple, type(None), enum.Enum, type)):
            # functools.cached_property and friends
            import functools

            if isinstance(raw, functools.cached_property):
                val = self.call_function(raw.func, [inst], {}, defcls=defcls)
                if isinstance(inst, SObj):
                    inst.fields[name] = val
                return val
            if isinstance(raw, (types.WrapperDescriptorType, types.MethodDescriptorType, types.BuiltinFunctionType)):
                if isinstance(inst, SEnum) and issubclass(inst.cls, int) and defcls is int:
                    return ModelMethod(self.models.enum_value(self, inst), name)
                return BoundMethod(inst, raw, defcls)
            raise Unsupported(f"descriptor {type(raw).__name__} for attribute {name}")
        return raw

    def getattr_obj(self, o, name):
        if name in o.fields:
            return o.fields[name]
        if name == "__class__":
            return o.cls
        if name == "__dict__":
            return dict(o.fields)
        r = self.lookup_class_attr(o.cls, name)
        if r is None:
            ga = self.lookup_class_attr(o.cls, "__getattr__")
            if ga is not None and self.is_interp_func(ga[0]):
                return self.call_function(ga[0], [o, name], {}, defcls=ga[1])
            if getattr(o, "from_spec", False) and not self.cfg.get("_probing"):
                # the object was built from an Obj(...) specification that lists its fields: the code reads a
                # field the specification does not know (e.g. one added to the class later). That is a gap of
                # the specification - the check cannot decide - not an AttributeError of the code.
                raise Unsupported(f"the object specification of {o.cls.__name__} does not describe attribute '{name}' which the code reads")
            self.raise_py(AttributeError, f"'{o.cls.__name__}' object has no attribute '{name}'")
        return self.bind_class_attr(o, r[0], r[1], name)

    def getattr_class(self, cls, name):
        r = self.lookup_class_attr(cls, name)
        if r is None:
            try:
                return getattr(cls, name)  # metaclass attrs (__name__, __members__...)
            except AttributeError as e:
                self.raise_py(AttributeError, str(e))
        raw, defcls = r
        if isinstance(raw, classmethod):
            return BoundMethod(cls, raw.__func__, defcls)
        if isinstance(raw, staticmethod):
            return raw.__func__
        if isinstance(raw, types.FunctionType):
            return raw
        if isinstance(raw, property):
            return raw
        if issubclass(cls, enum.Enum):
            return getattr(cls, name)
        return raw

    def getattr_super(self, sp, name):
        mro = sp.objcls.__mro__
        idx = mro.index(sp.after_cls)
        for k in mro[idx + 1 :]:
            if name in k.__dict__:
                raw = k.__dict__[name]
                if isinstance(raw, types.FunctionType):
                    return BoundMethod(sp.self_val, raw, k)
                if isinstance(raw, classmethod):
                    return BoundMethod(sp.self_val if isinstance(sp.self_val, type) else sp.objcls, raw.__func__, k)
                if isinstance(raw, staticmethod):
                    return raw.__func__
                if isinstance(raw, property):
                    return self.call_function(raw.fget, [sp.self_val], {}, defcls=k)
                if isinstance(raw, (types.WrapperDescriptorType, types.MethodDescriptorType, types.BuiltinFunctionType, types.ClassMethodDescriptorType)):
                    return BoundMethod(sp.self_val, raw, k)
                return raw
        self.raise_py(AttributeError, name)

    def setattr(self, v, name, val):
        if isinstance(v, SObj):
            r = self.lookup_class_attr(v.cls, name)
            if r is not None and isinstance(r[0], property):
                if r[0].fset is None:
                    self.raise_py(AttributeError, f"can't set attribute {name}")
                self.call_function(r[0].fset, [v, val], {}, defcls=r[1])
                return
            if dataclasses.is_dataclass(v.cls) and v.cls.__dataclass_params__.frozen and not self.cfg.get("_in_init"):
                self.raise_py(dataclasses.FrozenInstanceError, name)
            fr = self.path.ghost.get("__frame_check__")
            if fr is not None:
                fr(v, name)
            v.fields[name] = val
            return
        if isinstance(v, Opaque):
            v.attrs[name] = val
            return
        if isinstance(v, type) and self.is_interp_class(v):
            # class-level state (e.g. GroupAddress.address_format): kept in path-local overlay
            self.path.ghost.setdefault("__class_attrs__", {})[(v, name)] = val
            return
        raise Unsupported(f"attribute assignment on {type(v).__name__}")

    # ------------------------------------------------------------------ calls

    def call(self, f, args, kwargs, frame=None, node=None):
        """Call any callable value."""
        self.path.steps += 1
        stubs = self.cfg.get("stubs_map")
        if stubs and isinstance(f, (types.FunctionType, types.BuiltinFunctionType, type)) and (isinstance(f, type) or not self.is_interp_func(f)):
            try:
                if f in stubs:
                    self.contracts_used.add(f"{getattr(f, '__module__', '')}:{getattr(f, '__qualname__', f)} -> stub")
                    f = stubs[f]
            except TypeError:
                pass
        if stubs and isinstance(f, types.MethodType) and ("bound", f.__func__, id(f.__self__)) in stubs:
            f = stubs[("bound", f.__func__, id(f.__self__))]
        if isinstance(f, BoundMethod):
            if isinstance(f.func, (types.FunctionType, IFunc)):
                return self.call_function(f.func, [f.self_val] + list(args), kwargs, defcls=f.defcls)
            # builtin slot wrapper reached through super() (object.__init__, Exception.__init__, ...)
            return self.models.call_builtin_method(self, f, args, kwargs)
        if isinstance(f, IFunc):
            return self.call_function(f, list(args), kwargs)
        if isinstance(f, PartialVal):
            return self.call(f.func, list(f.args) + list(args), dict(f.kwargs, **kwargs), frame, node)
        if isinstance(f, ModelMethod):
            return self.models.call_method(self, f.recv, f.name, args, kwargs)
        if type(f).__name__ == "_Unstubbed":
            return self.call_function(f.func, list(args), kwargs, nostub=True)
        if isinstance(f, Opaque):
            return self.models.call_opaque(self, f, args, kwargs)
        if type(f).__name__ == "_lru_cache_wrapper" and self.is_interp_func(getattr(f, "__wrapped__", None)):
            # functools.lru_cache / cache: a later call with equal (concrete, hashable) arguments returns the
            # *same object* as the earlier one - what matters when the result is mutable. Calls with symbolic
            # arguments run the function (their aliasing is not modelled).
            try:
                key = (id(f), tuple(args), tuple(sorted(kwargs.items())))
                concrete = not is_symbolic([list(args), list(kwargs.values())])
                hash(key)
            except TypeError:
                concrete = False
            if not concrete:
                return self.call_function(f.__wrapped__, list(args), kwargs)
            memo = self.path.__dict__.setdefault("lru_memo", {})
            if key not in memo:
                memo[key] = self.call_function(f.__wrapped__, list(args), kwargs)
            return memo[key]
        if isinstance(f, types.FunctionType):
            if self.is_interp_func(f):
                return self.call_function(f, list(args), kwargs)
            w = getattr(f, "__wrapped__", None)
            if w is not None and f.__code__.co_filename.endswith("contextlib.py") and self.is_interp_func(w):
                return CtxGen(w, list(args), kwargs)
            return self.call_native(f, args, kwargs)
        if isinstance(f, types.MethodType):
            # bound method of a real object
            if self.is_interp_func(f.__func__):
                return self.call_function(f.__func__, [f.__self__] + list(args), kwargs)
            w = getattr(f.__func__, "__wrapped__", None)
            if w is not None and f.__func__.__code__.co_filename.endswith("contextlib.py") and self.is_interp_func(w):
                return CtxGen(w, [f.__self__] + list(args), kwargs)
            return self.call_native(f, args, kwargs)
        if isinstance(f, type):
            return self.call_class(f, args, kwargs)
        if isinstance(f, SObj) or (self.is_interp_class(type(f)) and not isinstance(f, enum.Enum)):
            cls = f.cls if isinstance(f, SObj) else type(f)
            r = self.lookup_class_attr(cls, "__call__")
            if r is not None and isinstance(r[0], types.FunctionType) and self.is_interp_func(r[0]):
                return self.call_function(r[0], [f] + list(args), kwargs, defcls=r[1])
        return self.call_native(f, args, kwargs)

    def call_native(self, f, args, kwargs):
        m = self.models.lookup(f)
        if m is not None:
            self.models_used.add(getattr(f, "__qualname__", repr(f)))
            return m(self, list(args), dict(kwargs))
        if is_symbolic(list(args)) or is_symbolic(kwargs) or is_symbolic(getattr(f, "__self__", None)):
            raise Unsupported(f"no model for {getattr(f, '__module__', '')}.{getattr(f, '__qualname__', repr(f))} with symbolic arguments")
        try:
            return f(*args, **kwargs)
        except Exception as e:  # native exception of a builtin on concrete values
            raise PyRaise(self.mkexc(type(e), *e.args))

    def call_class(self, cls, args, kwargs):
        m = self.models.lookup(cls)
        if m is not None:
            return m(self, list(args), dict(kwargs))
        if isinstance(cls, type) and issubclass(cls, enum.Enum):
            return self.models.enum_lookup(self, cls, args, kwargs)
        if isinstance(cls, type) and issubclass(cls, BaseException):
            return self.construct_exception(cls, args, kwargs)
        if self.is_interp_class(cls):
            return self.construct(cls, args, kwargs)
        return self.call_native(cls, args, kwargs)

    def construct_exception(self, cls, args, kwargs):
        o = SObj(cls, {"args": tuple(args)})
        r = self.lookup_class_attr(cls, "__init__")
        if r is not None and isinstance(r[0], types.FunctionType) and self.is_interp_func(r[0]):
            self.call_function(r[0], [o] + list(args), kwargs, defcls=r[1])
        return o

    def construct(self, cls, args, kwargs):
        if inspect.isabstract(cls):
            self.raise_py(TypeError, f"Can't instantiate abstract class {cls.__name__}")
        if issubclass(cls, tuple) and hasattr(cls, "_fields"):
            try:
                return cls(*args, **kwargs)  # NamedTuple: a plain container, fields may be symbolic
            except TypeError as e:
                self.raise_py(TypeError, *e.args)
        rnew = self.lookup_class_attr(cls, "__new__")
        if rnew is not None and rnew[1] is not object and self.is_interp_class(rnew[1]):
            raise Unsupported(f"custom __new__ in {cls.__name__}")
        o = SObj(cls, {})
        r = self.lookup_class_attr(cls, "__init__")
        if r is None or r[1] is object:
            if args or kwargs:
                self.raise_py(TypeError, f"{cls.__name__}() takes no arguments")
            return o
        init = r[0]
        if dataclasses.is_dataclass(cls) and getattr(getattr(init, "__code__", None), "co_filename", "") == "<string>":
            self.dataclass_init(o, cls, args, kwargs)
            return o
        if isinstance(init, types.FunctionType) and self.is_interp_func(init):
            self.call_function(init, [o] + list(args), kwargs, defcls=r[1])
            return o
        if dataclasses.is_dataclass(cls):
            self.dataclass_init(o, cls, args, kwargs)
            return o
        raise Unsupported(f"cannot construct {cls.__name__}: __init__ {init!r}")

    def dataclass_init(self, o, cls, args, kwargs):
        flds = [f for f in dataclasses.fields(cls)]
        init_fields = [f for f in flds if f.init]
        pos = [f for f in init_fields if not f.kw_only]
        if len(args) > len(pos):
            self.raise_py(TypeError, f"{cls.__name__}.__init__() takes {len(pos)} positional arguments")
        vals = {}
        for f, a in zip(pos, args):
            vals[f.name] = a
        for k, v in kwargs.items():
            if k in vals:
                self.raise_py(TypeError, f"multiple values for argument {k}")
            if k not in [f.name for f in init_fields]:
                self.raise_py(TypeError, f"unexpected keyword argument {k}")
            vals[k] = v
        old = self.cfg.get("_in_init")
        self.cfg["_in_init"] = True
        try:
            for f in flds:
                if f.name in vals:
                    o.fields[f.name] = vals[f.name]
                elif f.default is not dataclasses.MISSING:
                    o.fields[f.name] = f.default
                elif f.default_factory is not dataclasses.MISSING:
                    o.fields[f.name] = self.call(f.default_factory, [], {})
                elif f.init:
                    self.raise_py(TypeError, f"{cls.__name__}.__init__() missing required argument: '{f.name}'")
            r = self.lookup_class_attr(cls, "__post_init__")
            if r is not None:
                self.call_function(r[0], [o], {}, defcls=r[1])
        finally:
            self.cfg["_in_init"] = old

    def bind_args(self, argspec, defaults, kwdefaults, args, kwargs, fname, frame):
        """Bind call arguments to parameter names per Python rules. defaults: list of values for last positional params."""
        a = argspec
        posparams = [p.arg for p in a.posonlyargs] + [p.arg for p in a.args]
        n = len(posparams)
        out = {}
        args = list(args)
        if len(args) > n and a.vararg is None:
            self.raise_py(TypeError, f"{fname}() takes {n} positional arguments but {len(args)} were given")
        for name, v in zip(posparams, args):
            out[name] = v
        if a.vararg is not None:
            out[a.vararg.arg] = tuple(args[n:])
        kw = dict(kwargs)
        for name in posparams[len(args) :] if len(args) < n else []:
            if name in kw:
                out[name] = kw.pop(name)
        for name in posparams[: len(args)]:
            if name in kw:
                self.raise_py(TypeError, f"{fname}() got multiple values for argument '{name}'")
        nd = len(defaults)
        for i, name in enumerate(posparams):
            if name not in out:
                j = i - (n - nd)
                if j >= 0:
                    out[name] = defaults[j]
                else:
                    self.raise_py(TypeError, f"{fname}() missing required positional argument: '{name}'")
        for p in a.kwonlyargs:
            if p.arg in kw:
                out[p.arg] = kw.pop(p.arg)
            elif p.arg in kwdefaults:
                out[p.arg] = kwdefaults[p.arg]
            else:
                self.raise_py(TypeError, f"{fname}() missing required keyword-only argument: '{p.arg}'")
        if a.kwarg is not None:
            out[a.kwarg.arg] = kw
        elif kw:
            self.raise_py(TypeError, f"{fname}() got an unexpected keyword argument '{next(iter(kw))}'")
        return out

    def call_function(self, f, args, kwargs, defcls=None, nostub=False):
        """Interpret a python function / IFunc of the repo (or of the sidecar contracts)."""
        stubs = self.cfg.get("stubs_map")
        if stubs and not nostub and not isinstance(f, IFunc) and f in stubs:
            # callee replaced by its executable contract (a function in /verif/contracts); the real
            # function is proved to satisfy that contract by its own lemmas
            self.contracts_used.add(f"{f.__module__}:{f.__qualname__} -> {stubs[f].__module__}:{stubs[f].__qualname__}")
            f = stubs[f]
        if not isinstance(f, IFunc):
            w = getattr(f, "__wrapped__", None)
            if w is not None and f.__code__.co_filename.endswith("contextlib.py") and self.is_interp_func(w):
                return CtxGen(w, list(args), kwargs, defcls)
        if self.registry is not None and not isinstance(f, IFunc):
            c = self.registry.contract_for(f, defcls)
            if c is not None and not self.registry.is_under_verification(f):
                self.contracts_used.add(c.name)
                return c.apply(self, args, kwargs)
        self.depth += 1
        if self.depth > self.max_depth:
            self.depth -= 1
            raise Unsupported(f"call depth > {self.max_depth} (recursion without contract?) in {getattr(f, '__qualname__', f)}")
        try:
            if isinstance(f, IFunc):
                node, ms = f.node, f.ms
                frame = Frame(f.frame.globals, f.frame.qualname + ".<locals>." + f.name, f.frame.filename, f.frame.defcls, parent=f.frame, ms=ms)
                defaults, kwdefaults = f.defaults, f.kwdefaults
                name = f.name
            else:
                node, ms = self.sources.func_ast(f)
                if defcls is None:
                    defcls = self.find_defcls(f)
                frame = Frame(f.__globals__, f.__qualname__, ms.filename, defcls, ms=ms)
                if f.__closure__:
                    frame.closure_cells = {}
                    for nm, cell in zip(f.__code__.co_freevars, f.__closure__):
                        try:
                            frame.closure_cells[nm] = cell.cell_contents
                        except ValueError:
                            pass
                defaults = list(f.__defaults__ or ())
                kwdefaults = dict(f.__kwdefaults__ or {})
                # literal defaults are read from the source text (the verified text), not from the imported
                # function object: a changed default in the file is then seen like any other change
                if not isinstance(node, ast.Lambda) and len(node.args.defaults) == len(defaults):
                    for i, d in enumerate(node.args.defaults):
                        lit = _literal_default(d)
                        if lit is not _NO_LITERAL and type(lit) is type(defaults[i]):
                            defaults[i] = lit
                    for a, d in zip(node.args.kwonlyargs, node.args.kw_defaults):
                        if d is not None and a.arg in kwdefaults:
                            lit = _literal_default(d)
                            if lit is not _NO_LITERAL and type(lit) is type(kwdefaults[a.arg]):
                                kwdefaults[a.arg] = lit
                name = f.__name__
                self.transparent_used.add(f"{f.__module__}:{f.__qualname__}")
            frame.locals.update(self.bind_args(node.args, defaults, kwdefaults, args, kwargs, name, frame))
            if isinstance(node, ast.Lambda):
                return self.eval(node.body, frame)
            is_async = isinstance(node, ast.AsyncFunctionDef)
            is_gen = self._is_generator(node)
            if is_async and not is_gen and not self.cfg.get("_awaiting"):
                # calling an async function creates a coroutine; it runs when awaited
                self.depth -= 1
                try:
                    return Coro(f, args, kwargs, defcls)
                finally:
                    self.depth += 1
            if is_gen:
                frame.yielded = []
            try:
                self.cfg["_awaiting"] = False
                self.exec_block(node.body, frame)
                result = None
            except _Return as r:
                result = r.value
            if is_gen:
                return list(frame.yielded)
            return result
        finally:
            self.depth -= 1

    _gen_cache = {}

    def _is_generator(self, node):
        k = id(node)
        r = self._gen_cache.get(k)
        if r is None:
            r = False
            for n in self._walk_own(node):
                if isinstance(n, (ast.Yield, ast.YieldFrom)):
                    r = True
                    break
            self._gen_cache[k] = (r, node)
            return r
        return r[0]

    def _walk_own(self, node):
        """Walk a function body without descending into nested functions/lambdas/classes."""
        todo = list(ast.iter_child_nodes(node)) if not isinstance(node, list) else list(node)
        while todo:
            n = todo.pop()
            yield n
            if isinstance(n, (ast.FunctionDef, ast.AsyncFunctionDef, ast.Lambda, ast.ClassDef)):
                continue
            todo.extend(ast.iter_child_nodes(n))

    def find_defcls(self, f):
        q = f.__qualname__.split(".")
        if len(q) < 2 or "<locals>" in q:
            return None
        obj = f.__globals__.get(q[0])
        for part in q[1:-1]:
            obj = getattr(obj, part, None) if obj is not None else None
        return obj if isinstance(obj, type) else None

    def run_coro(self, c):
        """await of a Coro: run the async function body now (sequential coroutine mode)."""
        self.cfg["_awaiting"] = True
        try:
            return self.call_function(c.func, c.args, c.kwargs, defcls=c.defcls)
        finally:
            self.cfg["_awaiting"] = False

    # ------------------------------------------------------------------ statements

    def exec_block(self, stmts, frame):
        for s in stmts:
            self.exec_stmt(s, frame)

    def exec_stmt(self, s, frame):
        self.path.steps += 1
        if self.path.steps > self.max_steps:
            raise Unsupported(f"more than {self.max_steps} interpreter steps on one path")
        m = getattr(self, "s_" + type(s).__name__, None)
        if m is None:
            self.unsupported(f"statement {type(s).__name__}", frame, s)
        try:
            m(s, frame)
        except Unsupported as u:
            if u.where is None:
                u.where = self.where(frame, s)
            raise

    def s_Pass(self, s, frame):
        pass

    def s_Expr(self, s, frame):
        if isinstance(s.value, ast.Constant):
            return
        if isinstance(s.value, ast.Yield) and frame.inline_body is not None:
            self.run_inline_body(s.value, frame)
            return
        self.eval(s.value, frame)

    def run_inline_body(self, ynode, frame):
        stmts, caller_frame, optional_vars = frame.inline_body
        val = self.eval(ynode.value, frame) if ynode.value is not None else None
        if optional_vars is not None:
            self.assign(optional_vars, val, caller_frame)
        try:
            self.exec_block(stmts, caller_frame)
        except (_Return, _Break, _Continue) as ctrl:
            frame.pending_ctrl = ctrl

    def s_Return(self, s, frame):
        raise _Return(self.eval(s.value, frame) if s.value is not None else None)

    def s_Break(self, s, frame):
        raise _Break()

    def s_Continue(self, s, frame):
        raise _Continue()

    def s_Global(self, s, frame):
        frame.globals_decl.update(s.names)

    def s_Nonlocal(self, s, frame):
        frame.nonlocals.update(s.names)

    def s_Import(self, s, frame):
        import importlib

        for a in s.names:
            mod = importlib.import_module(a.name)
            if a.asname:
                frame.locals[a.asname] = mod
            else:
                frame.locals[a.name.split(".")[0]] = importlib.import_module(a.name.split(".")[0])

    def s_ImportFrom(self, s, frame):
        import importlib

        pkg = frame.globals.get("__package__")
        mod = importlib.import_module("." * s.level + (s.module or ""), pkg) if s.level else importlib.import_module(s.module)
        for a in s.names:
            frame.locals[a.asname or a.name] = getattr(mod, a.name)

    def s_FunctionDef(self, s, frame):
        if s.decorator_list:
            self.unsupported("decorated nested function", frame, s)
        defaults = [self.eval(d, frame) for d in s.args.defaults]
        kwdefaults = {a.arg: self.eval(d, frame) for a, d in zip(s.args.kwonlyargs, s.args.kw_defaults) if d is not None}
        frame.locals[s.name] = IFunc(s, frame, defaults, kwdefaults, s.name, frame.ms)

    s_AsyncFunctionDef = s_FunctionDef

    def s_Assign(self, s, frame):
        v = self.eval(s.value, frame)
        for t in s.targets:
            self.assign(t, v, frame)

    def s_AnnAssign(self, s, frame):
        if s.value is not None:
            self.assign(s.target, self.eval(s.value, frame), frame)

    def s_AugAssign(self, s, frame):
        t = s.target
        if isinstance(t, ast.Name):
            cur = self.load_name(t.id, frame, t)
            new = self.binop(type(s.op), cur, self.eval(s.value, frame), frame, s, inplace=True)
            self.store_name(t.id, new, frame)
        elif isinstance(t, ast.Attribute):
            obj = self.eval(t.value, frame)
            name = self.mangle(t.attr, frame)
            cur = self.getattr(obj, name, frame, t)
            new = self.binop(type(s.op), cur, self.eval(s.value, frame), frame, s, inplace=True)
            self.setattr(obj, name, new)
        elif isinstance(t, ast.Subscript):
            obj = self.eval(t.value, frame)
            idx = self.eval_index(t.slice, frame)
            cur = self.subscript(obj, idx, frame, t)
            new = self.binop(type(s.op), cur, self.eval(s.value, frame), frame, s, inplace=True)
            self.store_subscript(obj, idx, new, frame, t)
        else:
            self.unsupported("augmented assignment target", frame, s)

    def s_Delete(self, s, frame):
        for t in s.targets:
            if isinstance(t, ast.Name):
                frame.locals.pop(t.id, None)
            elif isinstance(t, ast.Subscript):
                obj = self.eval(t.value, frame)
                idx = self.eval_index(t.slice, frame)
                self.models.del_item(self, obj, idx)
            elif isinstance(t, ast.Attribute):
                obj = self.eval(t.value, frame)
                if isinstance(obj, SObj):
                    obj.fields.pop(self.mangle(t.attr, frame), None)
                else:
                    self.unsupported("del attribute", frame, s)
            else:
                self.unsupported("del target", frame, s)

    def s_If(self, s, frame):
        if self.truth(self.eval(s.test, frame)):
            self.exec_block(s.body, frame)
        else:
            self.exec_block(s.orelse, frame)

    def s_Assert(self, s, frame):
        hook = self.cfg.get("assert_hook")
        v = self.eval(s.test, frame)
        if hook is not None:
            hook(self, s, frame, v)
            return
        if not self.truth(v):
            msg = self.eval(s.msg, frame) if s.msg is not None else None
            self.raise_py(AssertionError, *([msg] if msg is not None else []))

    def s_Raise(self, s, frame):
        if s.exc is None:
            cur = frame.locals.get("__current_exc__")
            f = frame
            while cur is None and f.parent is not None:
                f = f.parent
                cur = f.locals.get("__current_exc__")
            if cur is None:
                cur = self.cfg.get("_handling")
            if cur is None:
                self.raise_py(RuntimeError, "No active exception to reraise")
            raise PyRaise(cur, self.where(frame, s))
        e = self.eval(s.exc, frame)
        if isinstance(e, type) and issubclass(e, BaseException):
            e = self.call_class(e, [], {})
        if s.cause is not None:
            c = self.eval(s.cause, frame)
            if isinstance(e, SObj):
                e.fields["__cause__"] = c
        if not (isinstance(e, SObj) and issubclass(e.cls, BaseException)):
            if isinstance(e, BaseException):
                e = self.mkexc(type(e), *e.args)
            else:
                self.raise_py(TypeError, "exceptions must derive from BaseException")
        raise PyRaise(e, self.where(frame, s))

    def match_handler(self, h, exc, frame):
        if h.type is None:
            return True
        t = self.eval(h.type, frame)
        ts = t if isinstance(t, tuple) else (t,)
        for k in ts:
            if isinstance(k, type) and issubclass(exc.cls, k):
                return True
        return False

    def s_Try(self, s, frame):
        try:
            try:
                self.exec_block(s.body, frame)
            except PyRaise as pr:
                for h in s.handlers:
                    if self.match_handler(h, pr.exc, frame):
                        if h.name:
                            frame.locals[h.name] = pr.exc
                        saved = frame.locals.get("__current_exc__")
                        frame.locals["__current_exc__"] = pr.exc
                        try:
                            self.exec_block(h.body, frame)
                        finally:
                            if saved is None:
                                frame.locals.pop("__current_exc__", None)
                            else:
                                frame.locals["__current_exc__"] = saved
                            if h.name:
                                frame.locals.pop(h.name, None)
                        break
                else:
                    raise
            else:
                self.exec_block(s.orelse, frame)
        except (PyRaise, _Return, _Break, _Continue):
            if s.finalbody:
                self.exec_block(s.finalbody, frame)
            raise
        except (PathAbort, Unsupported):
            raise
        else:
            if s.finalbody:
                self.exec_block(s.finalbody, frame)

    def s_While(self, s, frame):
        ordinal = frame.loop_ordinal
        frame.loop_ordinal += 1
        spec = self.loop_spec(frame, ordinal)
        if spec is not None:
            return self.exec_loop_with_invariant(s, frame, spec, kind="while")
        n = 0
        while True:
            if not self.truth(self.eval(s.test, frame)):
                self.exec_block(s.orelse, frame)
                return
            n += 1
            if n > self.cfg.get("max_unroll", 300):
                self.unsupported("loop needs an invariant (unrolled > max_unroll times)", frame, s)
            try:
                self.exec_block(s.body, frame)
            except _Break:
                return
            except _Continue:
                continue

    def s_For(self, s, frame):
        ordinal = frame.loop_ordinal
        frame.loop_ordinal += 1
        spec = self.loop_spec(frame, ordinal)
        it = self.eval(s.iter, frame)
        if spec is not None and not isinstance(it, (list, tuple, set, frozenset, dict)):
            # (a concrete python container is simply iterated: exact, no loop rule needed)
            return self.exec_loop_with_invariant(s, frame, spec, kind="for", iterable=it)
        n = 0
        for item in self.iterate(it, frame, s):
            n += 1
            if n > self.cfg.get("max_unroll", 300):
                self.unsupported("loop needs an invariant (unrolled > max_unroll times)", frame, s)
            self.assign(s.target, item, frame)
            try:
                self.exec_block(s.body, frame)
            except _Break:
                return
            except _Continue:
                continue
        self.exec_block(s.orelse, frame)

    def s_AsyncFor(self, s, frame):
        return self.s_For(s, frame)

    def loop_spec(self, frame, ordinal):
        if self.registry is None:
            return None
        spec = self.registry.loop_spec(frame.qualname, frame.filename, ordinal)
        if spec is not None and getattr(spec, "only", None) is not None and self.cfg.get("lemma_name") not in spec.only:
            return None
        return spec

    def exec_loop_with_invariant(self, s, frame, spec, kind, iterable=None):
        return self.models.loop_with_invariant(self, s, frame, spec, kind, iterable)

    def iterate(self, it, frame, node):
        """Python-level iteration over a value, lazily (symbolic ranges decide per element)."""
        if isinstance(it, SBytes):
            n = it.length()
            if not isinstance(n, int):
                n = self.models.B.fix(self, it).length()
            if isinstance(n, int):
                it2 = SBytes(it.segs).expand()
                for i in range(n):
                    yield self.sint(it2.at(i), 0, 8)
                return
            i = 0
            while self.path.decide(n > i):
                yield self.sint(it.at(i), 0, 8)
                i += 1
            return
        if isinstance(it, self.models.STuple):
            yield from self.iterate(it.b, frame, node)
            return
        if isinstance(it, self.models.SRange):
            yield from it.iterate(self)
            return
        if isinstance(it, (SObj,)):
            r = self.lookup_class_attr(it.cls, "__iter__")
            if r is not None:
                res = self.call_function(r[0], [it], {}, defcls=r[1])
                yield from self.iterate(res, frame, node)
                return
        if isinstance(it, Opaque):
            yield from self.models.iterate_opaque(self, it)
            return
        if isinstance(it, SVal):
            self.unsupported(f"iteration over {it!r}", frame, node)
        try:
            iterator = iter(it)
        except TypeError as e:
            self.raise_py(TypeError, str(e))
        yield from iterator

    def s_With(self, s, frame):
        self.exec_with(s.items, s.body, frame, s)

    def s_AsyncWith(self, s, frame):
        self.exec_with(s.items, s.body, frame, s)

    def exec_with(self, items, body, frame, node):
        if not items:
            self.exec_block(body, frame)
            return
        item, rest = items[0], items[1:]
        cm = self.eval(item.context_expr, frame)
        inner = body if not rest else [ast.With(items=rest, body=body, lineno=node.lineno, col_offset=0)]
        if isinstance(cm, CtxGen):
            self.inline_ctxgen(cm, inner, frame, item.optional_vars)
            return
        self.models.with_context(self, cm, inner, frame, item.optional_vars, node)

    def inline_ctxgen(self, cm, body, caller_frame, optional_vars):
        f = cm.func
        node, ms = self.sources.func_ast(f)
        defcls = cm.defcls or self.find_defcls(f)
        gframe = Frame(f.__globals__, f.__qualname__, ms.filename, defcls, ms=ms)
        gframe.locals.update(self.bind_args(node.args, list(f.__defaults__ or ()), dict(f.__kwdefaults__ or {}), cm.args, cm.kwargs, f.__name__, gframe))
        gframe.inline_body = (body, caller_frame, optional_vars)
        self.transparent_used.add(f"{f.__module__}:{f.__qualname__}")
        self.depth += 1
        try:
            try:
                self.exec_block(node.body, gframe)
            except _Return:
                pass
        finally:
            self.depth -= 1
        if gframe.pending_ctrl is not None:
            raise gframe.pending_ctrl

    # ------------------------------------------------------------------ assignment

    def mangle(self, attr, frame):
        if attr.startswith("__") and not attr.endswith("__") and frame.defcls is not None:
            return "_" + frame.defcls.__name__.lstrip("_") + attr
        return attr

    def store_name(self, name, v, frame):
        if name in frame.nonlocals:
            f = frame.parent
            while f is not None:
                if name in f.locals:
                    f.locals[name] = v
                    return
                f = f.parent
        if name in frame.globals_decl:
            raise Unsupported(f"assignment to global {name}")
        frame.locals[name] = v

    def assign(self, t, v, frame):
        if isinstance(t, ast.Name):
            self.store_name(t.id, v, frame)
        elif isinstance(t, ast.Attribute):
            obj = self.eval(t.value, frame)
            self.setattr(obj, self.mangle(t.attr, frame), v)
        elif isinstance(t, (ast.Tuple, ast.List)):
            items = list(self.iterate(v, frame, t)) if not isinstance(v, (tuple, list)) else list(v)
            star = [i for i, e in enumerate(t.elts) if isinstance(e, ast.Starred)]
            if star:
                i = star[0]
                after = len(t.elts) - i - 1
                if len(items) < len(t.elts) - 1:
                    self.raise_py(ValueError, "not enough values to unpack")
                for e, x in zip(t.elts[:i], items[:i]):
                    self.assign(e, x, frame)
                self.assign(t.elts[i].value, list(items[i : len(items) - after]), frame)
                for e, x in zip(t.elts[i + 1 :], items[len(items) - after :]):
                    self.assign(e, x, frame)
                return
            if len(items) != len(t.elts):
                self.raise_py(ValueError, f"{'too many' if len(items) > len(t.elts) else 'not enough'} values to unpack (expected {len(t.elts)})")
            for e, x in zip(t.elts, items):
                self.assign(e, x, frame)
        elif isinstance(t, ast.Subscript):
            obj = self.eval(t.value, frame)
            idx = self.eval_index(t.slice, frame)
            self.store_subscript(obj, idx, v, frame, t)
        else:
            self.unsupported(f"assignment target {type(t).__name__}", frame, t)

    def store_subscript(self, obj, idx, v, frame, node):
        self.models.store_item(self, obj, idx, v)

    # ------------------------------------------------------------------ expressions

    def eval(self, e, frame):
        m = getattr(self, "e_" + type(e).__name__, None)
        if m is None:
            self.unsupported(f"expression {type(e).__name__}", frame, e)
        try:
            return m(e, frame)
        except Unsupported as u:
            if u.where is None:
                u.where = self.where(frame, e)
            raise

    def e_Constant(self, e, frame):
        return e.value

    def load_name(self, name, frame, node=None):
        f = frame
        while f is not None:
            if name in f.locals:
                return f.locals[name]
            if f.closure_cells is not None and name in f.closure_cells:
                return f.closure_cells[name]
            f = f.parent
        if name in frame.globals:
            return frame.globals[name]
        if hasattr(builtins, name):
            return getattr(builtins, name)
        # local variable referenced before assignment vs. unknown global
        if self._is_local_name(name, frame):
            self.raise_py(UnboundLocalError, f"cannot access local variable '{name}' where it is not associated with a value")
        self.raise_py(NameError, f"name '{name}' is not defined")

    _locals_cache = {}

    def _is_local_name(self, name, frame):
        return True

    def e_Name(self, e, frame):
        if e.id == "super":
            return "__super__"
        return self.load_name(e.id, frame, e)

    def e_Attribute(self, e, frame):
        v = self.eval(e.value, frame)
        name = self.mangle(e.attr, frame)
        if isinstance(v, type) and self.is_interp_class(v):
            ov = self.path.ghost.get("__class_attrs__")
            if ov:
                for k in v.__mro__:
                    if (k, name) in ov:
                        return ov[(k, name)]
        return self.getattr(v, name, frame, e)

    def e_NamedExpr(self, e, frame):
        v = self.eval(e.value, frame)
        self.assign(e.target, v, frame)
        return v

    def e_Tuple(self, e, frame):
        return tuple(self.eval_seq(e.elts, frame))

    def e_List(self, e, frame):
        return list(self.eval_seq(e.elts, frame))

    def e_Set(self, e, frame):
        items = self.eval_seq(e.elts, frame)
        if is_symbolic(items):
            self.unsupported("set of symbolic values", frame, e)
        return set(items)

    def eval_seq(self, elts, frame):
        out = []
        for x in elts:
            if isinstance(x, ast.Starred):
                out.extend(self.iterate(self.eval(x.value, frame), frame, x))
            else:
                out.append(self.eval(x, frame))
        return out

    def e_Dict(self, e, frame):
        d = {}
        for k, v in zip(e.keys, e.values):
            if k is None:
                src = self.eval(v, frame)
                if not isinstance(src, dict):
                    self.unsupported("** of non-dict", frame, e)
                d.update(src)
            else:
                kk = self.eval(k, frame)
                if isinstance(kk, SVal):
                    self.unsupported("dict display with symbolic key", frame, e)
                d[kk] = self.eval(v, frame)
        return d

    def _simple_pure(self, n):
        if isinstance(n, ast.Constant):
            return isinstance(n.value, (int, bool))
        if isinstance(n, ast.Name):
            return True
        if isinstance(n, ast.Attribute):
            return self._simple_pure(n.value) and isinstance(n.value, ast.Name)
        return False

    def e_IfExp(self, e, frame):
        c = self.eval(e.test, frame)
        if self.cfg.get("merge_ifexp") and isinstance(c, (SBool, SInt)) and self._simple_pure(e.body) and self._simple_pure(e.orelse):
            # `a if c else b` over plain integer operands: one value If(c, a, b) instead of two paths
            try:
                a = self.eval(e.body, frame)
                b = self.eval(e.orelse, frame)
            except PyRaise:
                a = b = None
            if a is not None and is_intlike(a) and is_intlike(b) and not isinstance(a, enum.Enum) and not isinstance(b, enum.Enum) and not isinstance(a, bool) and not isinstance(b, bool) and not isinstance(a, SBool) and not isinstance(b, SBool):
                zb = self.as_z3_bool(c)
                la, na = bits_of(a)
                lb, nb_ = bits_of(b)
                return self.sint(z3.If(zb, iexpr(a), iexpr(b)), min(la, lb), None if (na is None or nb_ is None) else max(na, nb_))
            if self.truth(c):
                return self.eval(e.body, frame)
            return self.eval(e.orelse, frame)
        if self.truth(c):
            return self.eval(e.body, frame)
        return self.eval(e.orelse, frame)

    def e_Lambda(self, e, frame):
        defaults = [self.eval(d, frame) for d in e.args.defaults]
        kwdefaults = {a.arg: self.eval(d, frame) for a, d in zip(e.args.kwonlyargs, e.args.kw_defaults) if d is not None}
        return IFunc(e, frame, defaults, kwdefaults, "<lambda>", frame.ms)

    def e_JoinedStr(self, e, frame):
        parts = []
        sym = False
        for v in e.values:
            if isinstance(v, ast.Constant):
                parts.append(v.value)
                continue
            val = self.eval(v.value, frame)
            spec = self.eval(v.format_spec, frame) if v.format_spec is not None else ""
            if is_symbolic(val) or isinstance(spec, SVal):
                sym = True
                self.models.format_value(self, val, v.conversion)
                parts.append(val if (spec == "" and v.conversion == -1) else SStr("formatted"))
                continue
            try:
                if v.conversion == 114:
                    val = repr(val)
                elif v.conversion == 115:
                    val = str(val)
                elif v.conversion == 97:
                    val = ascii(val)
                parts.append(format(val, spec))
            except Exception as ex:
                raise PyRaise(self.mkexc(type(ex), *ex.args))
        if sym:
            return SStr("fstring", parts)
        return "".join(parts)

    def e_FormattedValue(self, e, frame):
        return self.e_JoinedStr(ast.JoinedStr(values=[e]), frame)

    def e_Await(self, e, frame):
        v = self.eval(e.value, frame)
        return self.models.await_value(self, v, frame, e)

    def e_Yield(self, e, frame):
        if frame.yielded is None:
            self.unsupported("yield outside of an eagerly collected generator", frame, e)
        frame.yielded.append(self.eval(e.value, frame) if e.value is not None else None)
        return None

    def e_YieldFrom(self, e, frame):
        if frame.yielded is None:
            self.unsupported("yield from outside generator", frame, e)
        frame.yielded.extend(self.iterate(self.eval(e.value, frame), frame, e))
        return None

    def e_Starred(self, e, frame):
        self.unsupported("starred expression", frame, e)

    def e_Slice(self, e, frame):
        return slice(
            self.eval(e.lower, frame) if e.lower is not None else None,
            self.eval(e.upper, frame) if e.upper is not None else None,
            self.eval(e.step, frame) if e.step is not None else None,
        )

    def eval_index(self, sl, frame):
        return self.eval(sl, frame)

    def e_Subscript(self, e, frame):
        obj = self.eval(e.value, frame)
        idx = self.eval_index(e.slice, frame)
        return self.subscript(obj, idx, frame, e)

    def subscript(self, obj, idx, frame=None, node=None):
        return self.models.get_item(self, obj, idx)

    def e_Call(self, e, frame):
        # super()
        if isinstance(e.func, ast.Name) and e.func.id == "super" and "super" not in frame.locals:
            if e.args:
                c = self.eval(e.args[0], frame)
                inst = self.eval(e.args[1], frame)
            else:
                c = frame.defcls
                node = frame.ms and None
                # first positional parameter of the enclosing function
                first = None
                f = frame
                while f is not None and first is None:
                    if f.locals:
                        first = next(iter(f.locals.values()))
                    f = f.parent
                inst = first
            if c is None:
                self.unsupported("super() outside class", frame, e)
            objcls = inst if isinstance(inst, type) else (inst.cls if isinstance(inst, (SObj, SEnum)) else type(inst))
            return SuperProxy(inst, c, objcls)
        f = self.eval(e.func, frame)
        args = []
        for a in e.args:
            if isinstance(a, ast.Starred):
                args.extend(self.iterate(self.eval(a.value, frame), frame, a))
            else:
                args.append(self.eval(a, frame))
        kwargs = {}
        for k in e.keywords:
            if k.arg is None:
                d = self.eval(k.value, frame)
                if not isinstance(d, dict):
                    self.unsupported("** of non-dict in call", frame, e)
                kwargs.update(d)
            else:
                kwargs[k.arg] = self.eval(k.value, frame)
        return self.call(f, args, kwargs, frame, e)

    def e_BoolOp(self, e, frame):
        is_and = isinstance(e.op, ast.And)
        v = None
        for i, x in enumerate(e.values):
            v = self.eval(x, frame)
            if i == len(e.values) - 1:
                return v
            t = self.truth(v)
            if is_and and not t:
                return v
            if not is_and and t:
                return v
        return v

    def e_UnaryOp(self, e, frame):
        v = self.eval(e.operand, frame)
        if isinstance(e.op, ast.Not):
            if isinstance(v, (SBool, SInt, SBytes)):
                zb = self.as_z3_bool(v)
                return self.sbool(z3.Not(zb)) if not isinstance(zb, bool) else (not zb)
            return not self.truth(v)
        if isinstance(v, SVal):
            return self.models.unary(self, type(e.op), v)
        try:
            if isinstance(e.op, ast.USub):
                return -v
            if isinstance(e.op, ast.UAdd):
                return +v
            if isinstance(e.op, ast.Invert):
                return ~v
        except Exception as ex:
            raise PyRaise(self.mkexc(type(ex), *ex.args))
        self.unsupported("unary op", frame, e)

    def e_BinOp(self, e, frame):
        a = self.eval(e.left, frame)
        b = self.eval(e.right, frame)
        return self.binop(type(e.op), a, b, frame, e)

    def binop(self, op, a, b, frame=None, node=None, inplace=False):
        if not is_symbolic(a) and not is_symbolic(b):
            try:
                if inplace and isinstance(a, (list, bytearray, set, dict)):
                    iop = {ast.Add: operator.iadd, ast.BitOr: operator.ior, ast.BitAnd: operator.iand, ast.Sub: operator.isub, ast.Mult: operator.imul}.get(op)
                    if iop is not None:
                        return iop(a, b)
                return _BIN[op](a, b)
            except Exception as ex:
                raise PyRaise(self.mkexc(type(ex), *ex.args))
        return self.models.binop(self, op, a, b, inplace)

    def e_Compare(self, e, frame):
        left = self.eval(e.left, frame)
        result = None
        n = len(e.ops)
        for i, (op, rnode) in enumerate(zip(e.ops, e.comparators)):
            right = self.eval(rnode, frame)
            r = self.compare(type(op), left, right, frame, e)
            if n == 1:
                return r
            # chained: a < b < c
            rest_simple = all(isinstance(x, (ast.Constant, ast.Name)) for x in e.comparators[i + 1 :])
            if isinstance(r, SBool) and rest_simple:
                result = r if result is None else self.sbool(z3.And(iexpr_bool(result), r.e))
            elif isinstance(r, SBool):
                if not self.truth(r):
                    return False
            elif not self.truth(r):
                return r if result is None else False
            else:
                pass
            left = right
        if result is None:
            return True
        return result

    def compare(self, op, a, b, frame=None, node=None):
        if op is ast.Is:
            return self.identical(a, b)
        if op is ast.IsNot:
            return self.negate(self.identical(a, b))
        if op is ast.Eq:
            return self.eq(a, b)
        if op is ast.NotEq:
            return self.ne(a, b)
        if op is ast.In:
            return self.models.contains(self, b, a)
        if op is ast.NotIn:
            return self.negate(self.models.contains(self, b, a))
        if not is_symbolic(a) and not is_symbolic(b):
            try:
                return _CMP[op](a, b)
            except Exception as ex:
                raise PyRaise(self.mkexc(type(ex), *ex.args))
        return self.models.order(self, op, a, b)

    def negate(self, v):
        if isinstance(v, bool):
            return not v
        if isinstance(v, SBool):
            return self.sbool(z3.Not(v.e))
        return not self.truth(v)

    def identical(self, a, b):
        if isinstance(a, SEnum) or isinstance(b, SEnum):
            return self.eq(a, b)
        if isinstance(a, (SInt, SBool)) or isinstance(b, (SInt, SBool)):
            # `x is True` style tests on symbolic bool
            if isinstance(a, SBool) and isinstance(b, bool):
                return self.sbool(a.e if b else z3.Not(a.e))
            if isinstance(b, SBool) and isinstance(a, bool):
                return self.sbool(b.e if a else z3.Not(b.e))
            if a is None or b is None:
                return False
            raise Unsupported("identity test on symbolic int")
        if isinstance(a, SVal) or isinstance(b, SVal):
            return a is b
        return a is b

    def ne(self, a, b):
        if isinstance(a, SObj):
            r = self.lookup_class_attr(a.cls, "__ne__")
            if r is not None and r[1] is not object and isinstance(r[0], types.FunctionType) and self.is_interp_func(r[0]):
                return self.call_function(r[0], [a, b], {}, defcls=r[1])
        return self.negate(self.eq(a, b))

    def eq(self, a, b):
        """Python == ; returns python bool or SBool."""
        if a is b and not isinstance(a, SFloat):
            return True
        if not is_symbolic(a) and not is_symbolic(b):
            try:
                return a == b
            except Exception as ex:
                raise PyRaise(self.mkexc(type(ex), *ex.args))
        return self.models.eq(self, a, b)

    # comprehensions ---------------------------------------------------------------

    def _comp(self, e, frame, emit):
        cframe = Frame(frame.globals, frame.qualname, frame.filename, frame.defcls, parent=frame, ms=frame.ms)

        def rec(i):
            if i == len(e.generators):
                emit(cframe)
                return
            g = e.generators[i]
            it = self.eval(g.iter, cframe if i else frame)
            n = 0
            for item in self.iterate(it, frame, e):
                n += 1
                if n > self.cfg.get("max_unroll", 300):
                    self.unsupported("comprehension over unbounded symbolic iterable", frame, e)
                self.assign(g.target, item, cframe)
                if all(self.truth(self.eval(c, cframe)) for c in g.ifs):
                    rec(i + 1)

        rec(0)

    def e_ListComp(self, e, frame):
        out = []
        self._comp(e, frame, lambda cf: out.append(self.eval(e.elt, cf)))
        return out

    def e_GeneratorExp(self, e, frame):
        r = self._filtered_seq(e, frame)
        if r is not None:
            return r
        return self.e_ListComp(e, frame)

    def _filtered_seq(self, e, frame):
        """`(x for x in seq if cond(x))` over a fixed number of symbolic elements with a pure symbolic
        filter: kept as FilteredSeq (elements + keep-conditions) instead of 2**n paths."""
        if len(e.generators) != 1:
            return None
        g = e.generators[0]
        if len(g.ifs) != 1 or not isinstance(g.target, ast.Name) or not isinstance(e.elt, ast.Name) or e.elt.id != g.target.id or g.is_async:
            return None
        if not isinstance(g.ifs[0], ast.Compare):
            return None
        it = self.eval(g.iter, frame)
        if isinstance(it, self.models.STuple):
            it = it.b
        if isinstance(it, SBytes):
            if it.fixed_len() is None and self.models.B.fix(self, it).fixed_len() is None:
                return None
            items = list(self.iterate(it, frame, e))
        elif isinstance(it, (tuple, list)) and it and all(isinstance(x, (SInt, int)) for x in it) and any(isinstance(x, SInt) for x in it):
            items = list(it)
        else:
            # not the pattern: fall back (re-evaluates g.iter, which is pure here)
            return None
        if len(items) > 64:
            return None
        cframe = Frame(frame.globals, frame.qualname, frame.filename, frame.defcls, parent=frame, ms=frame.ms)
        conds = []
        for x in items:
            cframe.locals[g.target.id] = x
            c = self.eval(g.ifs[0], cframe)
            if isinstance(c, bool):
                conds.append(c)
            elif isinstance(c, SBool):
                conds.append(c.e)
            else:
                return None
        return self.models.FilteredSeq(items, conds)

    def e_SetComp(self, e, frame):
        out = self.e_ListComp(e, frame)
        if is_symbolic(out):
            self.unsupported("set comprehension of symbolic values", frame, e)
        return set(out)

    def e_DictComp(self, e, frame):
        out = {}

        def emit(cf):
            k = self.eval(e.key, cf)
            if isinstance(k, SVal):
                self.unsupported("dict comprehension with symbolic key", frame, e)
            out[k] = self.eval(e.value, cf)

        self._comp(e, frame, emit)
        return out


def iexpr_bool(v):
    if isinstance(v, bool):
        return z3.BoolVal(v)
    if isinstance(v, SBool):
        return v.e
    raise Unsupported(f"not a bool: {v!r}")
