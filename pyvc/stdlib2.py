"""Method models for symbolic receivers; with/await/loop-invariant machinery; opaque objects."""

from __future__ import annotations

import ast
import types

import z3

from . import bytesops as B
from .bytesops import STuple
from .core import (
    BSeg,
    CSeg,
    Opaque,
    PathAbort,
    PyRaise,
    SBool,
    SBytes,
    SEnum,
    SFloat,
    SInt,
    SObj,
    SStr,
    SVal,
    Unsupported,
    iexpr,
)


def _sym(v):
    from .interp import is_symbolic

    return is_symbolic(v)


def is_intlike(v):
    return isinstance(v, (int, SInt, SBool)) and not isinstance(v, float)


def float_nonzero(I, v):
    from . import floats

    return floats.nonzero(I, v)


# ----------------------------------------------------------------------------- methods


def call_method(I, recv, name, args, kwargs):
    args = list(args)
    if isinstance(recv, SBytes) or (isinstance(recv, (bytes, bytearray)) and (_sym(args) or _sym(kwargs))):
        return bytes_method(I, B.to_sbytes(recv) if not isinstance(recv, SBytes) else recv, name, args, kwargs)
    if isinstance(recv, (SInt, SBool)) or (isinstance(recv, int) and _sym(args)):
        return int_method(I, recv, name, args, kwargs)
    from .api import SymList

    if type(recv).__name__ == "SMap":
        if name == "get":
            h = recv.has(I, args[0])
            if h is False or not I.path.decide(h):
                return args[1] if len(args) > 1 else kwargs.get("default")
            return recv.value_at(I, recv.touched[-1])
        raise Unsupported(f"method {name} on a symbolic map")
    if isinstance(recv, SymList):
        if name == "append":
            recv.tail.append(args[0])
            return None
        raise Unsupported(f"method {name} on a havocked list")
    if isinstance(recv, list):
        return list_method(I, recv, name, args, kwargs)
    if isinstance(recv, dict):
        return dict_method(I, recv, name, args, kwargs)
    if isinstance(recv, tuple):
        return tuple_method(I, recv, name, args, kwargs)
    if isinstance(recv, STuple):
        if name == "index" or name == "count":
            raise Unsupported("tuple.index on symbolic-length tuple")
    if isinstance(recv, set):
        return set_method(I, recv, name, args, kwargs)
    if isinstance(recv, (SStr, str)):
        return str_method(I, recv, name, args, kwargs)
    if isinstance(recv, SFloat):
        from . import floats

        return floats.method(I, recv, name, args, kwargs)
    if isinstance(recv, type):
        # unbound method descriptor called through the class, e.g. bytes.hex(x), int.to_bytes(x, ...)
        return call_method(I, args[0], name, args[1:], kwargs)
    if not _sym(recv) and not _sym(args) and not _sym(kwargs):
        try:
            return getattr(recv, name)(*args, **kwargs)
        except Exception as ex:
            raise PyRaise(I.mkexc(type(ex), *ex.args))
    raise Unsupported(f"method {name} on {type(recv).__name__}")


def bytes_method(I, b, name, args, kwargs):
    if name == "hex":
        sep = args[0] if args else kwargs.get("sep", "")
        if isinstance(sep, SVal) or len(args) > 1 or "bytes_per_sep" in kwargs:
            return SStr("hex")
        return SStr("hex", [SBytes(list(b.segs)), sep])
    if name == "extend":
        if not b.mutable:
            I.raise_py(AttributeError, "'bytes' object has no attribute 'extend'")
        (x,) = args
        if isinstance(x, (bytes, bytearray, SBytes)):
            b.segs.extend(B.to_sbytes(x).segs)
        elif isinstance(x, STuple):
            b.segs.extend(x.b.segs)
        else:
            b.segs.extend(B.from_iterable(I, list(I.iterate(x, None, None))).segs)
        return None
    if name == "append":
        if not b.mutable:
            I.raise_py(AttributeError, "'bytes' object has no attribute 'append'")
        b.segs.extend(B.from_iterable(I, [args[0]]).segs)
        return None
    if name == "copy":
        return SBytes(list(b.segs), b.mutable)
    if name == "join":
        out = []
        items = list(I.iterate(args[0], None, None))
        for i, x in enumerate(items):
            if i:
                out.extend(b.segs)
            if not isinstance(x, (bytes, bytearray, SBytes)):
                I.raise_py(TypeError, "sequence item: expected a bytes-like object")
            out.extend(B.to_sbytes(x).segs)
        return SBytes(out, b.mutable)
    if name == "decode":
        return decode_bytes(I, b, args, kwargs)
    if name in ("startswith", "endswith"):
        p = args[0]
        if isinstance(p, tuple):
            rs = [bytes_method(I, b, name, [x], {}) for x in p]
            for r in rs:
                if r is True or (r is not False and I.truth(r)):
                    return True
            return False
        p = B.to_sbytes(p)
        n = p.fixed_len()
        if n is None:
            raise Unsupported("startswith with symbolic-length prefix")
        ln = b.length()
        if isinstance(ln, int):
            if ln < n:
                return False
        elif not I.path.decide(ln >= n):
            return False
        part = B.slice_(I, b, slice(0, n)) if name == "startswith" else B.slice_(I, b, slice(-n, None)) if n else SBytes([])
        return B.eq(I, part, p)
    if name == "ljust" and getattr(b, "_rstripped0", None) is not None and len(args) == 2 and args[1] == b"\0":
        full = b._rstripped0
        n = full.fixed_len()
        if n is not None and args[0] == n:
            return SBytes(list(full.segs), False)  # strip trailing NULs then pad with NULs to the same length
        raise Unsupported("ljust of NUL-stripped bytes to another length")
    if name in ("ljust", "rjust", "strip", "rstrip", "lstrip", "split", "find", "index", "count", "replace", "partition", "fromhex", "pop", "insert", "remove", "reverse", "clear", "zfill"):
        if b.fixed_len() is not None and not any(not isinstance(s.v, int) for s in SBytes(b.segs).expand().segs if isinstance(s, BSeg)):
            conc = bytes(s.v for s in SBytes(b.segs).expand().segs)
            if not _sym(args):
                r = getattr(bytearray(conc) if b.mutable else conc, name)(*args, **kwargs)
                return r
        if name == "rstrip" or name == "strip" or name == "lstrip":
            raise Unsupported(f"bytes.{name} on symbolic content")
    raise Unsupported(f"bytes method {name}")


def decode_bytes(I, b, args, kwargs):
    """latin-1 decoding is total and injective: kept structured as SStr('latin1', [octets])."""
    enc = args[0] if args else kwargs.get("encoding", "utf-8")
    errors = args[1] if len(args) > 1 else kwargs.get("errors", "strict")
    if isinstance(enc, str) and enc.lower().replace("-", "_") in ("latin_1", "latin1", "iso_8859_1", "iso8859_1", "l1"):
        return SStr("latin1", [SBytes(list(b.segs))])
    if isinstance(enc, str) and enc.lower() in ("ascii", "us-ascii") and errors == "replace":
        # one character per octet; octets >= 0x80 become U+FFFD (kept as the octets they came from)
        return SStr("ascii_replace", [SBytes(list(b.segs))])
    if isinstance(enc, str) and enc.lower() in ("ascii", "us-ascii") and errors == "strict":
        # strict ASCII: UnicodeDecodeError iff some octet is >= 0x80 (octets of a fixed number only)
        fb = B.fix(I, b)
        n = fb.fixed_len()
        if n is not None:
            bb = SBytes(fb.segs).expand()
            high = [bb.at(i) >= 128 for i in range(n)]
            if high and I.path.decide(z3.Or(*high)):
                I.raise_py(UnicodeDecodeError, "ascii", b"", 0, 1, "ordinal not in range(128)")
            return SStr("ascii_replace", [SBytes(list(b.segs))])
        src = getattr(b.segs[0], "filtered_from", None) if len(b.segs) == 1 else None
        if src is not None:
            high = [z3.And(c if not isinstance(c, bool) else z3.BoolVal(c), iexpr(x) >= 128) for x, c in zip(src.items, src.conds)]
            if high and I.path.decide(z3.Or(*high)):
                I.raise_py(UnicodeDecodeError, "ascii", b"", 0, 1, "ordinal not in range(128)")
            return SStr("ascii_replace", [SBytes(list(b.segs))])
    raise Unsupported(f"bytes.decode({enc!r}) on symbolic bytes")


def int_method(I, v, name, args, kwargs):
    if name == "to_bytes":
        length = args[0] if args else kwargs.get("length", 1)
        order = args[1] if len(args) > 1 else kwargs.get("byteorder", "big")
        if not isinstance(v, SVal):
            if _sym([length, order]):
                raise Unsupported("to_bytes with symbolic length")
        return B.int_to_bytes(I, v, length, order, kwargs.get("signed", False))
    if name == "bit_length":
        e = iexpr(v)
        raise Unsupported("bit_length of symbolic int")
    if name == "__index__" or name == "__int__":
        return v
    raise Unsupported(f"int method {name}")


def _find_index(I, seq, item):
    for i, x in enumerate(seq):
        r = True if x is item else I.eq(x, item)
        if r is True or (r is not False and I.truth(r)):
            return i
    return None


def list_method(I, lst, name, args, kwargs):
    if name in ("append", "extend", "insert", "copy", "clear", "reverse", "pop") or (not _sym(lst) and not _sym(args) and not _sym(kwargs)):
        if name == "extend":
            lst.extend(list(I.iterate(args[0], None, None)))
            return None
        if name == "pop" and args and isinstance(args[0], SVal):
            raise Unsupported("list.pop(symbolic index)")
        if name == "insert" and isinstance(args[0], SVal):
            raise Unsupported("list.insert(symbolic index)")
        try:
            return getattr(lst, name)(*args, **kwargs)
        except Exception as ex:
            raise PyRaise(I.mkexc(type(ex), *ex.args))
    if name == "remove":
        i = _find_index(I, lst, args[0])
        if i is None:
            I.raise_py(ValueError, "list.remove(x): x not in list")
        del lst[i]
        return None
    if name == "index":
        i = _find_index(I, lst, args[0])
        if i is None:
            I.raise_py(ValueError, "x is not in list")
        return i
    if name == "count":
        n = 0
        for x in lst:
            r = I.eq(x, args[0])
            if r is True or (r is not False and I.truth(r)):
                n += 1
        return n
    if name == "sort":
        res = I.models.lookup(sorted)(I, [lst], kwargs)
        lst[:] = res
        return None
    raise Unsupported(f"list method {name} with symbolic values")


def tuple_method(I, t, name, args, kwargs):
    if name == "index":
        i = _find_index(I, t, args[0])
        if i is None:
            I.raise_py(ValueError, "tuple.index(x): x not in tuple")
        return i
    if name == "count":
        return list_method(I, list(t), "count", args, kwargs)
    raise Unsupported(f"tuple method {name}")


def _dict_find(I, d, key):
    if not _sym(key):
        try:
            return key if key in d else _MISSING
        except TypeError as ex:
            I.raise_py(TypeError, *ex.args)
    for k in d:
        kk = k.v if isinstance(k, I.models._KeyWrap) else k
        r = True if kk is key else I.eq(kk, key)
        if r is True or (r is not False and I.truth(r)):
            return k
    return _MISSING


_MISSING = object()


def dict_method(I, d, name, args, kwargs):
    if name in ("items", "keys", "values", "copy", "clear", "popitem"):
        r = getattr(d, name)(*args, **kwargs)
        if name in ("items", "keys", "values"):
            return list(r)
        return r
    if name == "get":
        k = _dict_find(I, d, args[0])
        if k is _MISSING:
            return args[1] if len(args) > 1 else kwargs.get("default")
        return d[k]
    if name == "pop":
        k = _dict_find(I, d, args[0])
        if k is _MISSING:
            if len(args) > 1:
                return args[1]
            I.raise_py(KeyError, args[0])
        return d.pop(k)
    if name == "setdefault":
        k = _dict_find(I, d, args[0])
        if k is _MISSING:
            v = args[1] if len(args) > 1 else None
            I.models.store_item(I, d, args[0], v)
            return v
        return d[k]
    if name == "update":
        for a in args:
            if isinstance(a, dict):
                for k, v in a.items():
                    I.models.store_item(I, d, k, v)
            else:
                for k, v in I.iterate(a, None, None):
                    I.models.store_item(I, d, k, v)
        for k, v in kwargs.items():
            d[k] = v
        return None
    raise Unsupported(f"dict method {name}")


def set_method(I, s, name, args, kwargs):
    if _sym(args):
        # sets of objects: membership by the interpreted == (first equal element), stored by identity
        if name in ("add", "discard", "remove") and len(args) == 1:
            i = _find_index(I, list(s), args[0])
            if name == "add":
                if i is None:
                    s.add(args[0])
                return None
            if i is None:
                if name == "remove":
                    I.raise_py(KeyError, args[0])
                return None
            s.discard(list(s)[i])
            return None
        raise Unsupported(f"set method {name} with symbolic values")
    try:
        return getattr(s, name)(*args, **kwargs)
    except Exception as ex:
        raise PyRaise(I.mkexc(type(ex), *ex.args))


def str_method(I, s, name, args, kwargs):
    if isinstance(s, str) and not _sym(args) and not _sym(kwargs):
        try:
            return getattr(s, name)(*args, **kwargs)
        except Exception as ex:
            raise PyRaise(I.mkexc(type(ex), *ex.args))
    if isinstance(s, SStr) and s.tag == "enum_name" and name in ("lower", "upper") and not args:
        return SStr("enum_name", [s.parts[0], name])
    if isinstance(s, SStr) and s.tag == "hex" and s.parts and name == "replace" and len(args) == 2 and args[0] == s.parts[1] and args[1] == "" and args[0] != "":
        return SStr("hex", [s.parts[0], ""])
    if isinstance(s, SStr) and s.tag == "latin1" and name == "rstrip" and args == ["\0"]:
        return SStr("latin1_rstrip0", [s.parts[0]])
    if name in ("format", "join", "lower", "upper", "strip", "lstrip", "rstrip", "replace", "title", "capitalize", "ljust", "rjust", "zfill", "format_map", "casefold", "removeprefix", "removesuffix"):
        if name == "join":
            list(I.iterate(args[0], None, None))
        return SStr(name)
    raise Unsupported(f"str method {name} on opaque string")


def call_builtin_method(I, bm, args, kwargs):
    """Builtin slot reached via super(): object.__init__, Exception.__init__, object.__setattr__ ..."""
    f = bm.func
    name = getattr(f, "__name__", "")
    inst = bm.self_val
    if name == "__init__":
        if isinstance(inst, SObj) and issubclass(inst.cls, BaseException):
            inst.fields["args"] = tuple(args)
        return None
    if name == "__init_subclass__":
        return None
    if name == "__setattr__":
        inst.fields[args[0]] = args[1]
        return None
    if name == "__eq__":
        return inst is args[0]
    if name == "__hash__":
        return id(inst)
    if name in ("__repr__", "__str__"):
        return SStr(name)
    if name == "__post_init__":
        return None
    raise Unsupported(f"builtin method {name} via super()")


# ----------------------------------------------------------------------------- opaque objects


def opaque_getattr(I, v, name):
    h = I.cfg.get("opaque_getattr")
    if h is not None:
        r = h(I, v, name)
        if r is not NotImplemented:
            return r
    raise Unsupported(f"attribute {name} of opaque {v.tag}")


def call_opaque(I, f, args, kwargs):
    h = I.cfg.get("opaque_call")
    if h is not None:
        r = h(I, f, args, kwargs)
        if r is not NotImplemented:
            return r
    c = f.attrs.get("__call__")
    if c is not None:
        return c(I, args, kwargs)
    raise Unsupported(f"call of opaque {f.tag}")


def iterate_opaque(I, it):
    raise Unsupported(f"iteration over opaque {it.tag}")


# ----------------------------------------------------------------------------- with / await


def with_context(I, cm, body, frame, optional_vars, node):
    h = I.cfg.get("with_hook")
    if h is not None:
        r = h(I, cm, body, frame, optional_vars, node)
        if r is not NotImplemented:
            return r
    if isinstance(cm, Opaque):
        enter = cm.attrs.get("__enter__")
        val = enter(I) if enter else cm
        if optional_vars is not None:
            I.assign(optional_vars, val, frame)
        try:
            I.exec_block(body, frame)
        except PyRaise as pr:
            ex = cm.attrs.get("__exit__")
            if ex is not None and ex(I, pr.exc):
                return
            raise
        else:
            ex = cm.attrs.get("__exit__")
            if ex is not None:
                ex(I, None)
        finally:
            pass
        return
    if isinstance(cm, SObj):
        en = I.lookup_class_attr(cm.cls, "__enter__") or I.lookup_class_attr(cm.cls, "__aenter__")
        exi = I.lookup_class_attr(cm.cls, "__exit__") or I.lookup_class_attr(cm.cls, "__aexit__")
        if en is not None and exi is not None:
            from .interp import Coro, _Break, _Continue, _Return

            def run(r, a):
                v = I.call_function(r[0], a, {}, defcls=r[1])
                if isinstance(v, Coro):
                    v = I.run_coro(v)
                return v

            val = run(en, [cm])
            if optional_vars is not None:
                I.assign(optional_vars, val, frame)
            try:
                I.exec_block(body, frame)
            except PyRaise as pr:
                if I.truth(run(exi, [cm, pr.exc.cls, pr.exc, None])):
                    return
                raise
            except (_Return, _Break, _Continue):
                run(exi, [cm, None, None, None])
                raise
            else:
                run(exi, [cm, None, None, None])
            return
    import contextlib as _contextlib

    if isinstance(cm, _contextlib.suppress):
        # contextlib.suppress(*exceptions): the body's exception is swallowed iff it is an instance of one of them
        if optional_vars is not None:
            I.assign(optional_vars, None, frame)
        try:
            I.exec_block(body, frame)
        except PyRaise as pr:
            excs = tuple(cm._exceptions)
            if excs and isinstance(pr.exc.cls, type) and issubclass(pr.exc.cls, excs):
                return
            raise
        return
    raise Unsupported(f"with-statement over {cm!r}")


def await_value(I, v, frame, node):
    from .interp import Coro

    h = I.cfg.get("await_hook")
    if h is not None:
        r = h(I, v, frame, node)
        if r is not NotImplemented:
            return r
    if isinstance(v, Coro):
        return I.run_coro(v)
    cls = v.cls if isinstance(v, SObj) else type(v)
    r = I.lookup_class_attr(cls, "__pyvc_await__") if isinstance(cls, type) and I.is_interp_class(cls) else None
    if r is not None:
        # awaitable stand-in of a contract class: `async def __pyvc_await__(self)` says what awaiting it does
        return I.run_coro(I.call_function(r[0], [v], {}, defcls=r[1]))
    if isinstance(v, Opaque):
        aw = v.attrs.get("__await__")
        if aw is not None:
            return aw(I)
    raise Unsupported(f"await of {v!r}")


# ----------------------------------------------------------------------------- loops with invariants


def loop_with_invariant(I, s, frame, spec, kind, iterable):
    """
    Standard invariant rule, executed on the current path:
      1. assert invariant on entry (obligation)
      2. havoc every variable / field the loop may modify, assume invariant
      3. if the loop condition holds: run the body once, assert invariant (+ variant decreased,
         bounded below), then cut the path;  else: continue after the loop.
    """
    return spec.run(I, s, frame, kind, iterable)
