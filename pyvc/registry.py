"""Contracts at call sites, loop specifications, known-finding regions."""

from __future__ import annotations

import ast

import z3

from .core import PathAbort, PyRaise, SBool, SObj, Unsupported


class Registry:
    def __init__(self, contracts, sources):
        self.sources = sources
        self.by_func = {}
        for c in contracts:
            self.by_func[c.target] = _CallContract(c)
        from . import api

        self.loops = dict(api.LOOPS)
        self.verifying = set()
        for c in contracts:
            for (qual, ordinal), spec in getattr(c, "loops", {}).items():
                self.loops[(qual, ordinal)] = spec

    def contract_for(self, f, defcls):
        return self.by_func.get(f)

    def is_under_verification(self, f):
        return f in self.verifying

    def loop_spec(self, qualname, filename, ordinal):
        return self.loops.get((qualname, ordinal))

    def eval_region(self, I, src, args, fn):
        """Evaluate a python expression over the lemma parameters (known-finding region)."""
        from .interp import Frame

        node = ast.parse(src, mode="eval").body
        fr = Frame(fn.__globals__, "<known-finding-region>", "<known_findings.json>")
        fr.locals.update(args)
        return I.eval(node, fr)


class _CallContract:
    """Use of a contract at a call site: check requires, havoc result, assume ensures, fork raises."""

    def __init__(self, c):
        self.c = c
        self.name = c.name

    def apply(self, I, args, kwargs):
        import inspect

        c = self.c
        sig = inspect.signature(c.target)
        try:
            ba = sig.bind(*args, **kwargs)
        except TypeError as e:
            I.raise_py(TypeError, str(e))
        ba.apply_defaults()
        named = dict(ba.arguments)
        path = I.path
        if c.requires is not None:
            r = I.call(c.requires, [], _select(c.requires, named))
            zb = I.as_z3_bool(r)
            hook = I.cfg.get("requires_hook")
            if hook is not None:
                hook(I, c, zb)
            elif not (zb is True):
                if isinstance(zb, bool) or not path.implied(zb):
                    raise Unsupported(f"precondition of {c.name} not established at call site")
        # exceptional outcomes
        alts = list(c.raises.items())
        k = path.choose(len(alts) + 1, f"outcome!{c.target.__name__}")
        if k < len(alts):
            exc_cls, cond = alts[k]
            if cond is not None:
                r = I.call(cond, [], _select(cond, named))
                zb = I.as_z3_bool(r)
                path.assume(zb if not isinstance(zb, bool) else zb)
            raise PyRaise(I.mkexc(exc_cls, f"<{c.name} contract>"))
        res = None
        if c.result is not None:
            if callable(c.result) and not hasattr(c.result, "make"):
                res = c.result(I, named)
            else:
                res, _ = c.result.make(path, f"ret!{c.target.__name__}")
        if c.ensures is not None:
            kw = _select(c.ensures, dict(named, result=res))
            r = I.call(c.ensures, [], kw)
            zb = I.as_z3_bool(r)
            path.assume(zb if not isinstance(zb, bool) else zb)
        return res


def _select(fn, named):
    import inspect

    ps = inspect.signature(fn).parameters
    if any(p.kind == p.VAR_KEYWORD for p in ps.values()):
        return named
    return {k: v for k, v in named.items() if k in ps}
