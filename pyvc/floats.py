"""Float semantics: z3 Float64 (exact, RNE) or Real (assumption recorded). Filled in for the DPT properties."""

from __future__ import annotations

import ast

import z3

from .core import SBool, SFloat, SInt, SVal, Unsupported, iexpr

F64 = z3.Float64()
RNE = z3.RNE()
RTZ = z3.RTZ()


def mode_of(I):
    return I.float_mode


def fexpr(I, v):
    """z3 expr (FP or Real according to the interpreter's mode) of an int/float/SFloat/SInt."""
    m = mode_of(I)
    if isinstance(v, SFloat):
        return v.e
    if m == "fp":
        if isinstance(v, bool):
            v = int(v)
        if isinstance(v, int):
            if abs(v) > 2**53:
                return z3.fpToFP(RNE, z3.IntVal(v) * z3.RealVal(1), F64)
            return z3.FPVal(float(v), F64)
        if isinstance(v, float):
            return z3.FPVal(v, F64)
        if isinstance(v, (SInt, SBool)):
            return z3.fpToFP(RNE, z3.ToReal(iexpr(v)), F64)
    else:
        if isinstance(v, bool):
            v = int(v)
        if isinstance(v, int):
            return z3.RealVal(v)
        if isinstance(v, float):
            if v != v or v in (float("inf"), float("-inf")):
                raise Unsupported("non-finite float constant in REAL mode")
            from fractions import Fraction

            fr = Fraction(v)
            return z3.RealVal(fr.numerator) / z3.RealVal(fr.denominator)
        if isinstance(v, (SInt, SBool)):
            return z3.ToReal(iexpr(v))
    raise Unsupported(f"not a number: {v!r}")


def mk(I, e):
    return SFloat(e, mode_of(I))


def is_zero(I, e):
    if mode_of(I) == "fp":
        return z3.fpIsZero(e)
    return e == 0


def nonzero(I, v):
    e = v.e
    if v.mode == "fp":
        return z3.Not(z3.fpIsZero(e))
    return e != 0


def binop(I, op, a, b):
    m = mode_of(I)
    if m == "real":
        I.path.assumed_real = True
    ae, be = fexpr(I, a), fexpr(I, b)
    if op is ast.Add:
        return mk(I, z3.fpAdd(RNE, ae, be) if m == "fp" else ae + be)
    if op is ast.Sub:
        return mk(I, z3.fpSub(RNE, ae, be) if m == "fp" else ae - be)
    if op is ast.Mult:
        return mk(I, z3.fpMul(RNE, ae, be) if m == "fp" else ae * be)
    if op is ast.Div:
        if I.path.decide(is_zero(I, be)):
            I.raise_py(ZeroDivisionError, "float division by zero")
        return mk(I, z3.fpDiv(RNE, ae, be) if m == "fp" else ae / be)
    if op is ast.Pow:
        if isinstance(b, int) and 0 <= b <= 8:
            r = fexpr(I, 1)
            for _ in range(b):
                r = z3.fpMul(RNE, r, ae) if m == "fp" else r * ae
            return mk(I, r)
    raise Unsupported(f"float operator {op.__name__}")


def truediv(I, a, b):
    """int / int -> float."""
    return binop(I, ast.Div, a, b)


def unary(I, op, v):
    if op is ast.USub:
        return mk(I, z3.fpNeg(v.e) if v.mode == "fp" else -v.e)
    if op is ast.UAdd:
        return v
    raise Unsupported("unary op on float")


def fabs(I, v):
    return mk(I, z3.fpAbs(v.e) if v.mode == "fp" else z3.If(v.e < 0, -v.e, v.e))


def order(I, op, a, b):
    m = mode_of(I)
    ae, be = fexpr(I, a), fexpr(I, b)
    if m == "fp":
        e = {ast.Lt: z3.fpLT, ast.LtE: z3.fpLEQ, ast.Gt: z3.fpGT, ast.GtE: z3.fpGEQ}[op](ae, be)
    else:
        e = {ast.Lt: ae < be, ast.LtE: ae <= be, ast.Gt: ae > be, ast.GtE: ae >= be}[op]
    return I.sbool(e)


def eq(I, a, b):
    m = mode_of(I)
    ae, be = fexpr(I, a), fexpr(I, b)
    return I.sbool(z3.fpEQ(ae, be) if m == "fp" else ae == be)


def from_int(I, v):
    return mk(I, fexpr(I, v))


def to_int(I, v):
    """int(x): truncation toward zero; ValueError on NaN, OverflowError on inf."""
    if v.mode == "fp":
        if I.path.decide(z3.fpIsNaN(v.e)):
            I.raise_py(ValueError, "cannot convert float NaN to integer")
        if I.path.decide(z3.fpIsInf(v.e)):
            I.raise_py(OverflowError, "cannot convert float infinity to integer")
        r = z3.fpToReal(z3.fpRoundToIntegral(RTZ, v.e))
        return I.sint(z3.ToInt(r))
    e = v.e
    return I.sint(z3.If(e >= 0, z3.ToInt(e), -z3.ToInt(-e)))


def round_(I, v, nd):
    if nd is not None:
        raise Unsupported("round(x, ndigits) has no encoding")
    if v.mode == "fp":
        if I.path.decide(z3.fpIsNaN(v.e)):
            I.raise_py(ValueError, "cannot convert float NaN to integer")
        if I.path.decide(z3.fpIsInf(v.e)):
            I.raise_py(OverflowError, "cannot convert float infinity to integer")
        r = z3.fpToReal(z3.fpRoundToIntegral(RNE, v.e))
        return I.sint(z3.ToInt(r))
    e = v.e
    fl = z3.ToInt(e)
    frac = e - z3.ToReal(fl)
    r = z3.If(frac < z3.RealVal("1/2"), fl, z3.If(frac > z3.RealVal("1/2"), fl + 1, z3.If(fl % 2 == 0, fl, fl + 1)))
    return I.sint(r)


def method(I, v, name, args, kwargs):
    if name == "is_integer":
        if v.mode == "fp":
            return I.sbool(z3.And(z3.Not(z3.fpIsNaN(v.e)), z3.Not(z3.fpIsInf(v.e)), z3.fpEQ(z3.fpRoundToIntegral(RTZ, v.e), v.e)))
        return I.sbool(z3.ToReal(z3.ToInt(v.e)) == v.e)
    raise Unsupported(f"float method {name}")


def pack(I, code, v, order):
    raise Unsupported("struct.pack of float")


def unpack(I, code, chunk, order):
    raise Unsupported("struct.unpack of float")
