"""
Float semantics.

mode 'fp'   : z3 Float64, round-nearest-even: exact CPython semantics on IEEE-754 hardware.
mode 'real' : z3 Real; the evidence records "machine float arithmetic treated as mathematical".

Every SFloat additionally carries a conservative interval `iv = (lo, hi)` of python floats (or None =
may be anything, incl. NaN/inf) maintained by outward-rounded interval arithmetic, so that "can this be
NaN / inf / zero" questions are answered without a (slow) floating point solver query.
"""

from __future__ import annotations

import ast
import math

import z3

from .core import BSeg, SBool, SBytes, SFloat, SInt, SVal, Unsupported, iexpr

F64 = z3.Float64()
F32 = z3.Float32()
RNE = z3.RNE()
RTZ = z3.RTZ()
RTP = z3.RTP()
RTN = z3.RTN()


def mode_of(I):
    return I.float_mode


def _down(x):
    return math.nextafter(x, -math.inf) if math.isfinite(x) else x


def _up(x):
    return math.nextafter(x, math.inf) if math.isfinite(x) else x


def _widen(lo, hi):
    if lo != lo or hi != hi:
        return None
    return (_down(lo), _up(hi))


def iv_of(I, v):
    """Conservative interval of a number, or None."""
    if isinstance(v, SFloat):
        return getattr(v, "iv", None)
    if isinstance(v, bool):
        return (float(v), float(v))
    if isinstance(v, int):
        try:
            f = float(v)
        except OverflowError:
            return None
        return _widen(f, f) if float(int(f)) != v or abs(v) > 2**53 else (f, f)
    if isinstance(v, float):
        if v != v or math.isinf(v):
            return None
        return (v, v)
    if isinstance(v, SBool):
        return (0.0, 1.0)
    if isinstance(v, SInt):
        if v.nb is not None and v.nb <= 1000:
            return (0.0, float((1 << v.nb) - 1))
        e = v.e
        for bound in (1 << 8, 1 << 16, 1 << 32, 1 << 53, 1 << 64):
            if I.path.implied(z3.And(e >= -bound, e <= bound)):
                lo, hi = -float(bound), float(bound)
                if I.path.implied(e >= 0):
                    lo = 0.0
                return (lo, hi)
        return None
    return None


def _iv_binop(op, a, b):
    if a is None or b is None:
        return None
    (al, ah), (bl, bh) = a, b
    try:
        if op is ast.Add:
            return _widen(al + bl, ah + bh)
        if op is ast.Sub:
            return _widen(al - bh, ah - bl)
        if op is ast.Mult:
            c = [al * bl, al * bh, ah * bl, ah * bh]
            return _widen(min(c), max(c))
        if op is ast.Div:
            if bl <= 0.0 <= bh:
                return None
            c = [al / bl, al / bh, ah / bl, ah / bh]
            return _widen(min(c), max(c))
    except (OverflowError, ZeroDivisionError):
        return None
    return None


def _finite(iv):
    return iv is not None and math.isfinite(iv[0]) and math.isfinite(iv[1])


def fexpr(I, v):
    """z3 expr (FP or Real according to the interpreter's mode) of an int/float/SFloat/SInt."""
    m = mode_of(I)
    if isinstance(v, SFloat):
        return v.e
    if m == "fp":
        if isinstance(v, bool):
            v = int(v)
        if isinstance(v, int):
            if abs(v) > 2**53:
                return z3.fpToFP(RNE, z3.ToReal(z3.IntVal(v)), F64)
            return z3.FPVal(float(v), F64)
        if isinstance(v, float):
            return z3.FPVal(v, F64)
        if isinstance(v, (SInt, SBool)):
            return z3.fpToFP(RNE, z3.ToReal(iexpr(v)), F64)
    else:
        if isinstance(v, bool):
            v = int(v)
        if isinstance(v, int):
            return z3.RealVal(v)
        if isinstance(v, float):
            return fexpr_real(v)
        if isinstance(v, (SInt, SBool)):
            return z3.ToReal(iexpr(v))
    raise Unsupported(f"not a number: {v!r}")


def fexpr_real(v):
    if v != v or v in (float("inf"), float("-inf")):
        raise Unsupported("non-finite float constant in REAL mode")
    from fractions import Fraction

    fr = Fraction(v)
    return z3.RealVal(fr.numerator) / z3.RealVal(fr.denominator)


def mk(I, e, iv=None):
    f = SFloat(e, mode_of(I))
    f.iv = iv
    return f


def is_zero(I, e):
    if mode_of(I) == "fp":
        return z3.fpIsZero(e)
    return e == 0


def nonzero(I, v):
    e = v.e
    if v.mode == "fp":
        return z3.And(z3.Not(z3.fpIsZero(e)))
    return e != 0


def _fpcond(I, e):
    """SBool over floating point terms: branching on it does not ask the solver for feasibility."""
    b = I.sbool(e)
    return b


def binop(I, op, a, b):
    m = mode_of(I)
    if m == "real":
        I.path.assumed_real = True
    ae, be = fexpr(I, a), fexpr(I, b)
    ia, ib = iv_of(I, a), iv_of(I, b)
    if op is ast.Add:
        return mk(I, z3.fpAdd(RNE, ae, be) if m == "fp" else ae + be, _iv_binop(op, ia, ib))
    if op is ast.Sub:
        return mk(I, z3.fpSub(RNE, ae, be) if m == "fp" else ae - be, _iv_binop(op, ia, ib))
    if op is ast.Mult:
        return mk(I, z3.fpMul(RNE, ae, be) if m == "fp" else ae * be, _iv_binop(op, ia, ib))
    if op is ast.Div:
        if isinstance(b, (int, float)) and not isinstance(b, bool):
            if b == 0:
                I.raise_py(ZeroDivisionError, "float division by zero")
        elif ib is not None and not (ib[0] <= 0.0 <= ib[1]):
            pass
        else:
            zc = is_zero(I, be) if not isinstance(b, (SInt, SBool)) else (iexpr(b) == 0)
            if I.path.decide(zc):
                I.raise_py(ZeroDivisionError, "float division by zero")
        return mk(I, z3.fpDiv(RNE, ae, be) if m == "fp" else ae / be, _iv_binop(op, ia, ib))
    if op is ast.Pow:
        if isinstance(b, int) and 0 <= b <= 8:
            r = a
            if b == 0:
                return 1.0
            for _ in range(b - 1):
                r = binop(I, ast.Mult, r, a)
            return r
    if op is ast.FloorDiv or op is ast.Mod:
        raise Unsupported("float // and % have no encoding")
    raise Unsupported(f"float operator {op.__name__}")


def truediv(I, a, b):
    """int / int -> float."""
    return binop(I, ast.Div, a, b)


def unary(I, op, v):
    iv = getattr(v, "iv", None)
    if op is ast.USub:
        return mk(I, z3.fpNeg(v.e) if v.mode == "fp" else -v.e, None if iv is None else (-iv[1], -iv[0]))
    if op is ast.UAdd:
        return v
    raise Unsupported("unary op on float")


def fabs(I, v):
    iv = getattr(v, "iv", None)
    niv = None
    if iv is not None:
        lo, hi = iv
        niv = (0.0 if lo <= 0.0 <= hi else min(abs(lo), abs(hi)), max(abs(lo), abs(hi)))
    return mk(I, z3.fpAbs(v.e) if v.mode == "fp" else z3.If(v.e < 0, -v.e, v.e), niv)


def order(I, op, a, b):
    m = mode_of(I)
    ia, ib = iv_of(I, a), iv_of(I, b)
    if ia is not None and ib is not None:
        # decided by the intervals alone?
        if op in (ast.Lt, ast.LtE):
            if (ia[1] < ib[0]) or (op is ast.LtE and ia[1] <= ib[0]):
                return True
            if (ia[0] > ib[1]) or (op is ast.Lt and ia[0] >= ib[1]):
                return False
        else:
            if (ia[0] > ib[1]) or (op is ast.GtE and ia[0] >= ib[1]):
                return True
            if (ia[1] < ib[0]) or (op is ast.Gt and ia[1] <= ib[0]):
                return False
    ae, be = fexpr(I, a), fexpr(I, b)
    if m == "fp":
        e = {ast.Lt: z3.fpLT, ast.LtE: z3.fpLEQ, ast.Gt: z3.fpGT, ast.GtE: z3.fpGEQ}[op](ae, be)
    else:
        e = {ast.Lt: ae < be, ast.LtE: ae <= be, ast.Gt: ae > be, ast.GtE: ae >= be}[op]
    return _fpcond(I, e)


def eq(I, a, b):
    m = mode_of(I)
    ae, be = fexpr(I, a), fexpr(I, b)
    return _fpcond(I, z3.fpEQ(ae, be) if m == "fp" else ae == be)


def from_int(I, v):
    if isinstance(v, (SInt, SBool)) and mode_of(I) == "fp":
        iv = iv_of(I, v)
        if iv is None:
            # float(int) raises OverflowError beyond the double range
            raise Unsupported("float() of an integer of unknown magnitude")
    return mk(I, fexpr(I, v), iv_of(I, v))


def _check_special(I, v):
    """NaN/inf forks of int()/round()/ceil(): skipped when the interval proves the value finite."""
    if v.mode != "fp" or _finite(getattr(v, "iv", None)):
        return
    if I.path.decide(z3.fpIsNaN(v.e)):
        I.raise_py(ValueError, "cannot convert float NaN to integer")
    if I.path.decide(z3.fpIsInf(v.e)):
        I.raise_py(OverflowError, "cannot convert float infinity to integer")


def _int_result(I, v, rm_fp, real_fn):
    if v.mode == "fp":
        r = z3.fpToReal(z3.fpRoundToIntegral(rm_fp, v.e))
        return I.sint(z3.ToInt(r))
    return I.sint(real_fn(v.e))


def to_int(I, v):
    """int(x): truncation toward zero; ValueError on NaN, OverflowError on inf."""
    _check_special(I, v)
    return _int_result(I, v, RTZ, lambda e: z3.If(e >= 0, z3.ToInt(e), -z3.ToInt(-e)))


def _round_half_even_real(e):
    fl = z3.ToInt(e)
    frac = e - z3.ToReal(fl)
    half = z3.RealVal(1) / 2
    return z3.If(frac < half, fl, z3.If(frac > half, fl + 1, z3.If(fl % 2 == 0, fl, fl + 1)))


def round_(I, v, nd):
    if nd is not None:
        # round(x, ndigits) returns a float and never raises for float x, int ndigits: no encoding of the
        # decimal rounding -> an unconstrained float (sound for exception reasoning, useless for values)
        if not (isinstance(nd, (int, SInt, SBool))):
            I.raise_py(TypeError, "ndigits must be an integer")
        I.path.notes.append("opaque:round(x, ndigits)")
        return fresh_float(I, "round_nd", allow_special=True)
    _check_special(I, v)
    return _int_result(I, v, RNE, _round_half_even_real)


def ceil(I, v):
    _check_special(I, v)
    return _int_result(I, v, RTP, lambda e: -z3.ToInt(-e))


def floor(I, v):
    _check_special(I, v)
    return _int_result(I, v, RTN, lambda e: z3.ToInt(e))


def fresh_float(I, name, allow_special=False):
    if mode_of(I) == "fp":
        x = z3.FP(I.path.fresh_name(name), F64)
        if not allow_special:
            I.path.assume(z3.Not(z3.fpIsNaN(x)))
            I.path.assume(z3.Not(z3.fpIsInf(x)))
        return mk(I, x, None)
    return mk(I, z3.Real(I.path.fresh_name(name)), None)


def log10(I, v):
    """math.log10: ValueError for x <= 0 or NaN input domain errors; otherwise an unconstrained float
    (the value is not modelled)."""
    if not isinstance(v, SFloat):
        v = from_int(I, v)
    iv = getattr(v, "iv", None)
    positive = iv is not None and iv[0] > 0.0
    if not positive:
        if I.path.choose(2, "log10!domain") == 0:
            if v.mode == "fp":
                I.path.assume(z3.Or(z3.fpIsNaN(v.e), z3.fpLEQ(v.e, z3.FPVal(0.0, F64))))
                if I.path.check() == z3.unsat:
                    from .core import PathAbort

                    raise PathAbort()
            I.raise_py(ValueError, "math domain error")
        if v.mode == "fp":
            I.path.assume(z3.fpGT(v.e, z3.FPVal(0.0, F64)))
    I.path.notes.append("opaque:math.log10")
    r = fresh_float(I, "log10", allow_special=True)
    if v.mode == "fp":
        I.path.assume(z3.Not(z3.fpIsNaN(r.e)))
    return r


def method(I, v, name, args, kwargs):
    if name == "is_integer":
        if v.mode == "fp":
            return I.sbool(z3.And(z3.Not(z3.fpIsNaN(v.e)), z3.Not(z3.fpIsInf(v.e)), z3.fpEQ(z3.fpRoundToIntegral(RTZ, v.e), v.e)))
        return I.sbool(z3.ToReal(z3.ToInt(v.e)) == v.e)
    if name in ("__float__", "real", "conjugate"):
        return v
    raise Unsupported(f"float method {name}")


# ----------------------------------------------------------------------------- struct 'f' / 'd'

_F32_MAX = 3.4028234663852886e38


def pack(I, code, v, order):
    if mode_of(I) != "fp":
        raise Unsupported("struct.pack of float in REAL mode")
    if isinstance(v, (int, float)) and not isinstance(v, bool):
        import struct as _s

        try:
            return SBytes.from_concrete(_s.pack((">" if order == "big" else "<") + code, v))
        except (OverflowError, _s.error) as e:
            I.raise_py(type(e), *e.args)
    if isinstance(v, (SInt, SBool)):
        v = from_int(I, v)
    if not isinstance(v, SFloat):
        import struct as _s

        I.raise_py(_s.error, "required argument is not a float")
    if code == "d":
        bv = z3.fpToIEEEBV(v.e)
        n = 8
    elif code == "f":
        # CPython: finite doubles whose float32 rounding overflows raise OverflowError
        iv = getattr(v, "iv", None)
        if not (iv is not None and _finite(iv) and abs(iv[0]) < _F32_MAX and abs(iv[1]) < _F32_MAX):
            x32 = z3.fpToFP(RNE, v.e, F32)
            if I.path.decide(z3.And(z3.Not(z3.fpIsInf(v.e)), z3.fpIsInf(x32))):
                I.raise_py(OverflowError, "float too large to pack with f format")
        bv = z3.fpToIEEEBV(z3.fpToFP(RNE, v.e, F32))
        n = 4
    else:
        raise Unsupported("struct code e")
    segs = []
    for i in range(n):
        hi = 8 * (n - i) - 1
        segs.append(BSeg(z3.BV2Int(z3.Extract(hi, hi - 7, bv), False)))
    if order == "little":
        segs.reverse()
    return SBytes(segs, False)


def unpack(I, code, chunk, order):
    if mode_of(I) != "fp":
        raise Unsupported("struct.unpack of float in REAL mode")
    n = {"f": 4, "d": 8}.get(code)
    if n is None:
        raise Unsupported("struct code e")
    idx = list(range(n)) if order == "big" else list(range(n - 1, -1, -1))
    parts = [z3.Int2BV(chunk.at(i), 8) for i in idx]
    bv = z3.Concat(*parts) if len(parts) > 1 else parts[0]
    if code == "f":
        x = z3.fpToFP(RNE, z3.fpBVToFP(bv, F32), F64)
    else:
        x = z3.fpBVToFP(bv, F64)
    return mk(I, x, None)
