"""bytes / bytearray semantics on the segment normal form (core.SBytes)."""

from __future__ import annotations

import z3

from .core import BSeg, CSeg, SBool, SBytes, SInt, SVal, Unsupported, _clip, iexpr


class ZeroFun:
    """Byte source that is 0 everywhere (bytes(n))."""

    def __call__(self, i):
        return z3.IntVal(0)

    def name(self):
        return "zero"


ZERO = ZeroFun()


class STuple(SVal):
    """tuple(bytes) of symbolic length: a tuple whose elements are the octets of `b`."""

    __slots__ = ("b",)

    def __init__(self, b):
        self.b = b

    def __repr__(self):
        return f"STuple({self.b})"


def to_sbytes(v):
    if isinstance(v, SBytes):
        return v
    if isinstance(v, (bytes, bytearray)):
        return SBytes.from_concrete(v, isinstance(v, bytearray))
    raise Unsupported(f"not bytes: {v!r}")


def fresh_bytes(path, name, length=None, mutable=False):
    """Fresh symbolic bytes; length int, z3 expr, or None (fresh, >= 0)."""
    f = path.fresh_fun(name)
    if length is None:
        length = path.fresh_int(name + ".len")
        path.assume(length >= 0)
    return SBytes([CSeg(f, 0, length)], mutable)


def fix(I, b):
    """Replace symbolic segment lengths/offsets by constants where the path condition determines them."""
    for s in b.segs:
        if isinstance(s, CSeg):
            if not isinstance(s.n, int):
                c = I.path.const_value(s.n)
                if c is not None:
                    s.n = c
            if not isinstance(s.off, int):
                c = I.path.const_value(s.off)
                if c is not None:
                    s.off = c
    return b


def blen(I, b):
    n = b.length()
    return n if isinstance(n, int) else I.sint(n)


def concat(I, a, b, mutable=None):
    a = to_sbytes(a)
    b = to_sbytes(b)
    return SBytes(a.segs + b.segs, a.mutable if mutable is None else mutable)


def index(I, b, i):
    """b[i] with IndexError."""
    n = b.length()
    if isinstance(i, (SInt, SBool)):
        ie = iexpr(i)
        ne = iexpr(n)
        if I.path.decide(ie < 0):
            ie = ie + ne
        if not I.path.decide(z3.And(ie >= 0, ie < ne)):
            I.raise_py(IndexError, "index out of range")
        return I.sint(b.at(ie), 0, 8)
    if not isinstance(i, int):
        I.raise_py(TypeError, "byte indices must be integers or slices")
    if isinstance(n, int):
        if not -n <= i < n:
            I.raise_py(IndexError, "index out of range")
        if i < 0:
            i += n
        return I.sint(z3.simplify(SBytes(b.segs).expand().at(i)), 0, 8)
    if i >= 0:
        if not I.path.decide(n > i):
            I.raise_py(IndexError, "index out of range")
        # try positional access over leading fixed segments, else general
        return I.sint(z3.simplify(b.at(i)), 0, 8)
    if not I.path.decide(n >= -i):
        I.raise_py(IndexError, "index out of range")
    return I.sint(z3.simplify(b.at(n + i)), 0, 8)


def _norm_bound(I, v, n, default):
    """Slice bound -> python int or z3 expr clamped into [0, n] (forks)."""
    if v is None:
        return default
    if isinstance(v, (SInt, SBool)):
        e = iexpr(v)
        ne = iexpr(n)
        if I.path.decide(e < 0):
            e = e + ne
            if I.path.decide(e < 0):
                return 0
        if I.path.decide(e > ne):
            return n
        return z3.simplify(e)
    if not isinstance(v, int):
        I.raise_py(TypeError, "slice indices must be integers or None")
    if isinstance(n, int):
        if v < 0:
            v = max(v + n, 0)
        return min(v, n)
    if v >= 0:
        if I.path.decide(n >= v):
            return v
        return n
    # negative bound against symbolic length
    if I.path.decide(n + v >= 0):
        return z3.simplify(n + v)
    return 0


def take(I, b, lo, hi):
    """Octets [lo, hi) of b where 0 <= lo, hi <= len are python ints or z3 exprs; returns SBytes."""
    if isinstance(lo, int) and isinstance(hi, int):
        if hi <= lo:
            return SBytes([], False)
    else:
        if I.path.decide(iexpr(hi) <= iexpr(lo)):
            return SBytes([], False)
    segs = []
    pos = 0  # python int or z3 expr: start offset of current seg
    pos_sym = False
    out = []
    for idx, s in enumerate(b.segs):
        sl = 1 if isinstance(s, BSeg) else s.n
        end = pos + sl if isinstance(pos, int) and isinstance(sl, int) else z3.simplify(iexpr(pos) + iexpr(sl))
        # relation of [pos,end) with [lo,hi)
        # overlap start = max(pos, lo), overlap end = min(end, hi)
        a = _max(I, pos, lo)
        e = _min(I, end, hi)
        if _lt(I, a, e):
            if isinstance(s, BSeg):
                out.append(s)
            else:
                off = _sub(a, pos)
                cnt = _sub(e, a)
                out.append(CSeg(s.f, _add(s.off, off), cnt))
        pos = end
        if _le(I, hi, pos):
            break
    return SBytes(out, False)


def _simp(e):
    if isinstance(e, int):
        return e
    e = z3.simplify(e)
    if z3.is_int_value(e):
        return e.as_long()
    return e


def _add(a, b):
    if isinstance(a, int) and isinstance(b, int):
        return a + b
    return _simp(iexpr(a) + iexpr(b))


def _sub(a, b):
    if isinstance(a, int) and isinstance(b, int):
        return a - b
    return _simp(iexpr(a) - iexpr(b))


def _lt(I, a, b):
    if isinstance(a, int) and isinstance(b, int):
        return a < b
    return I.path.decide(iexpr(a) < iexpr(b))


def _le(I, a, b):
    if isinstance(a, int) and isinstance(b, int):
        return a <= b
    return I.path.decide(iexpr(a) <= iexpr(b))


def _max(I, a, b):
    if isinstance(a, int) and isinstance(b, int):
        return max(a, b)
    if isinstance(b, int):
        return b if I.path.decide(iexpr(b) >= iexpr(a)) else a
    return a if I.path.decide(iexpr(a) >= iexpr(b)) else b


def _min(I, a, b):
    if isinstance(a, int) and isinstance(b, int):
        return min(a, b)
    if isinstance(b, int):
        return b if I.path.decide(iexpr(b) <= iexpr(a)) else a
    return a if I.path.decide(iexpr(a) <= iexpr(b)) else b


def slice_(I, b, sl):
    if sl.step is not None and sl.step != 1:
        n = b.fixed_len()
        if n is None or isinstance(sl.start, SVal) or isinstance(sl.stop, SVal) or isinstance(sl.step, SVal):
            raise Unsupported("extended slice of symbolic-length bytes")
        bb = SBytes(b.segs).expand()
        return SBytes([bb.segs[i] for i in range(*sl.indices(n))], b.mutable)
    n = b.length()
    n = _simp(n)
    lo = _norm_bound(I, sl.start, n, 0)
    hi = _norm_bound(I, sl.stop, n, n)
    r = take(I, b, _simp(lo), _simp(hi))
    r.mutable = b.mutable
    return r


def eq(I, a, b):
    """z3 Bool (or python bool) for a == b."""
    a = to_sbytes(a)
    b = to_sbytes(b)
    na, nb = a.fixed_len(), b.fixed_len()
    if na is None:
        na = fix(I, a).fixed_len()
    if nb is None:
        nb = fix(I, b).fixed_len()
    if na is not None and nb is not None:
        if na != nb:
            return False
        aa, bb = SBytes(a.segs).expand(), SBytes(b.segs).expand()
        cs = [aa.at(i) == bb.at(i) for i in range(na)]
        return I.sbool(z3.And(*cs)) if cs else True
    if na is not None or nb is not None:
        if na is None:
            a, b, na, nb = b, a, nb, na
        aa = SBytes(a.segs).expand()
        lb = iexpr(b.length())
        cs = [lb == na] + [aa.at(i) == b.at(z3.IntVal(i)) for i in range(na)]
        return I.sbool(z3.And(*cs))
    la, lb = iexpr(a.length()), iexpr(b.length())
    k = z3.Int(I.path.fresh_name("k!eq"))
    body = z3.Implies(z3.And(k >= 0, k < la), a.at(k) == b.at(k))
    return I.sbool(z3.And(la == lb, z3.ForAll([k], body)))


def from_iterable(I, items, mutable=False):
    """bytes(iterable of ints): ValueError when out of range."""
    segs = []
    for x in items:
        if isinstance(x, (SInt, SBool)):
            e = iexpr(x)
            if not I.path.decide(z3.And(e >= 0, e <= 255)):
                I.raise_py(ValueError, "bytes must be in range(0, 256)")
            segs.append(BSeg(e))
        elif isinstance(x, bool) or isinstance(x, int):
            if not 0 <= int(x) <= 255:
                I.raise_py(ValueError, "bytes must be in range(0, 256)")
            segs.append(BSeg(int(x)))
        else:
            I.raise_py(TypeError, f"'{type(x).__name__}' object cannot be interpreted as an integer")
    return SBytes(segs, mutable)


def zeros(I, n, mutable=False):
    if isinstance(n, int):
        if n < 0:
            I.raise_py(ValueError, "negative count")
        return SBytes([BSeg(0)] * n, mutable)
    e = iexpr(n)
    if I.path.decide(e < 0):
        I.raise_py(ValueError, "negative count")
    return SBytes([CSeg(ZERO, 0, e)], mutable)


def int_to_bytes(I, x, length, byteorder="big", signed=False):
    if isinstance(length, SVal) or isinstance(byteorder, SVal) or signed:
        raise Unsupported("int.to_bytes with symbolic length / signed")
    e = iexpr(x)
    from .intops import be_of

    be = be_of(x) if not isinstance(x, int) else None
    if be is not None and len(be) <= length:
        segs = [BSeg(0)] * (length - len(be)) + [BSeg(v) for v in be]
        if byteorder == "little":
            segs.reverse()
        return SBytes(segs, False)
    if not I.path.decide(z3.And(e >= 0, e < (1 << (8 * length)))):
        I.raise_py(OverflowError, "int too big to convert" )
    segs = []
    if length > 2 and not isinstance(x, int):
        # base-256 digits as fresh octets o_i with x == sum o_i * 256^k (they exist and are unique for
        # 0 <= x < 256^length): linear, where div/mod chains time out for 4..8 octets
        octs = [I.path.fresh_int("oct") for _ in range(length)]
        tot = z3.IntVal(0)
        for o in octs:
            I.path.assume(z3.And(o >= 0, o <= 255))
            tot = tot * 256 + o
        I.path.assume(e == tot)
        segs = [BSeg(o) for o in octs]
    else:
        for i in range(length):
            sh = 8 * (length - 1 - i)
            t = e / (1 << sh) if sh else e
            if i > 0:
                t = t % 256
            segs.append(BSeg(z3.simplify(t)))
    if byteorder == "little":
        segs.reverse()
    return SBytes(segs, False)


def int_from_bytes(I, b, byteorder="big", signed=False):
    b = to_sbytes(b)
    n = b.fixed_len()
    if n is None:
        n = fix(I, b).fixed_len()
    if n is None and not signed and not isinstance(byteorder, SVal):
        # case split on the length up to 16 octets (one decision per candidate); longer stays outside the subset
        ln = b.length()
        for k in range(17):
            if I.path.decide(ln == k):
                n = fix(I, b).fixed_len()
                break
    if n is None or signed or isinstance(byteorder, SVal):
        raise Unsupported("int.from_bytes of symbolic-length bytes")
    bb = SBytes(b.segs).expand()
    idx = range(n) if byteorder == "big" else range(n - 1, -1, -1)
    e = z3.IntVal(0)
    for i in idx:
        e = e * 256 + bb.at(i)
    from .intops import from_be

    return from_be(I, [bb.at(i) for i in idx], nb=8 * n) if n else 0
