"""Syntactic frame checks over the current source tree (run natively, not interpreted)."""

import ast
import os


def readers_of_attribute(attr):
    """Relative paths of the library files that read `<expr>.<attr>` anywhere."""
    import xknx

    root = os.path.dirname(xknx.__file__)
    out = []
    for d, _, files in os.walk(root):
        for f in sorted(files):
            if not f.endswith(".py"):
                continue
            p = os.path.join(d, f)
            with open(p, encoding="utf-8") as fh:
                tree = ast.parse(fh.read(), p)
            for n in ast.walk(tree):
                if isinstance(n, ast.Attribute) and n.attr == attr and isinstance(n.ctx, ast.Load):
                    out.append(os.path.relpath(p, root))
                    break
    return sorted(out)
