"""Syntactic frame checks over the current source tree (run natively, not interpreted)."""

import ast
import os


def readers_of_attribute(attr):
    """Relative paths of the library files that read `<expr>.<attr>` anywhere."""
    import xknx

    root = os.path.dirname(xknx.__file__)
    out = []
    for d, _, files in os.walk(root):
        for f in sorted(files):
            if not f.endswith(".py"):
                continue
            p = os.path.join(d, f)
            with open(p, encoding="utf-8") as fh:
                tree = ast.parse(fh.read(), p)
            for n in ast.walk(tree):
                if isinstance(n, ast.Attribute) and n.attr == attr and isinstance(n.ctx, ast.Load):
                    out.append(os.path.relpath(p, root))
                    break
    return sorted(out)


def writers_of_attribute(attr, relpath):
    """Qualified names of the functions in one library file that assign `<expr>.<attr>`."""
    import xknx

    p = os.path.join(os.path.dirname(xknx.__file__), relpath)
    with open(p, encoding="utf-8") as fh:
        tree = ast.parse(fh.read(), p)
    out = set()

    def walk(node, qual):
        for ch in ast.iter_child_nodes(node):
            if isinstance(ch, (ast.FunctionDef, ast.AsyncFunctionDef, ast.ClassDef)):
                walk(ch, qual + [ch.name])
            else:
                for n in ast.walk(ch):
                    if isinstance(n, ast.Attribute) and n.attr == attr and isinstance(n.ctx, (ast.Store, ast.Del)):
                        out.add(".".join(qual))
                if not isinstance(ch, (ast.FunctionDef, ast.AsyncFunctionDef, ast.ClassDef)):
                    pass

    def visit(node, qual):
        for ch in ast.iter_child_nodes(node):
            if isinstance(ch, ast.ClassDef):
                visit(ch, qual + [ch.name])
            elif isinstance(ch, (ast.FunctionDef, ast.AsyncFunctionDef)):
                q = qual + [ch.name]
                for n in ast.walk(ch):
                    if isinstance(n, ast.Attribute) and n.attr == attr and isinstance(n.ctx, (ast.Store, ast.Del)):
                        out.add(".".join(q))

    visit(tree, [])
    return sorted(out)
