"""
Specification API used by the sidecar files in /verif/contracts.

* `@lemma(prop, params=..., family=...)`: a plain Python function that calls real repo functions and
  `assert`s the property.  PyVC executes it symbolically (real bodies from /repo's source text);
  the same function is the native replay oracle.  A lemma fails when an assert can fail or when
  any exception can escape it.
* parameter specs (`Int`, `Bool`, `Bytes`, `Obj`, `EnumOf`, `Const`, `Choice`): how to build a symbolic
  input and how to rebuild the concrete input from a solver model.
* `@contract(real_function)`: modular specification used at call sites instead of the body.
"""

from __future__ import annotations

import enum
import itertools

import z3

from . import bytesops as B
from .bytesops import STuple
from .core import BSeg, CSeg, Opaque, SBool, SBytes, SEnum, SFloat, SInt, SObj, SStr, SVal, Unsupported, iexpr

LEMMAS = []
CONTRACTS = []
STANDINS = []


class StandIn:
    """A labelled stand-in for an obligation PyVC cannot encode: the check function is executed natively
    on every case of `cases(tier)`.  Never counted as a discharged obligation; reported separately with
    its kind ('enum-native' = native evaluation over an enumerated domain), bound and whether the
    enumeration is exhaustive for the stated domain."""

    def __init__(self, fn, prop, cases, kind, bound, exhaustive, name, family=None):
        self.fn, self.prop, self.cases, self.kind, self.bound, self.exhaustive = fn, prop, cases, kind, bound, exhaustive
        self.name = name or fn.__name__
        self.family = family

    def instances(self):
        if not self.family:
            return [("", {})]
        fam = self.family() if callable(self.family) else self.family
        return [(",".join(f"{k}={_lbl(v)}" for k, v in item.items()), item) for item in fam]


def standin(prop, cases, kind="enum-native", bound="", exhaustive=False, name=None, family=None):
    """cases(tier, **fixed) yields argument tuples for the decorated check function."""

    def deco(fn):
        STANDINS.append(StandIn(fn, prop, cases, kind, bound, exhaustive, name, family))
        return fn

    return deco


class Lemma:
    def __init__(self, fn, prop, params, family, name, cfg):
        self.fn = fn
        self.prop = prop
        self.params = params or {}
        self.family = family
        self.name = name or fn.__name__
        self.cfg = cfg

    def instances(self):
        """[(instance label, {param: fixed value})]"""
        if not self.family:
            return [("", {})]
        fam = self.family() if callable(self.family) else self.family
        out = []
        for item in fam:
            if isinstance(item, dict):
                label = ",".join(f"{k}={_lbl(v)}" for k, v in item.items())
                out.append((label, item))
            else:
                raise TypeError("family items must be dicts of fixed parameters")
        return out


def _lbl(v):
    if isinstance(v, type):
        return v.__name__
    if isinstance(v, enum.Enum):
        return v.name
    r = repr(v)
    return r if len(r) < 40 else r[:37] + "..."


def lemma(prop, params=None, family=None, name=None, **cfg):
    def deco(fn):
        LEMMAS.append(Lemma(fn, prop, params, family, name, cfg))
        return fn

    return deco


def rely_on(prop, fn):
    """Make a lemma proved for one property an obligation of another property that relies on it (a callee
    contract used as a stub there): a change that breaks the lemma then fails the relying property too."""
    src = [l for l in LEMMAS if l.fn is fn][0]
    rel = Lemma(fn, prop, src.params, src.family, src.name, src.cfg)
    rel.origin = getattr(src, "origin", src.prop)  # known findings of the lemma's own property apply here too
    LEMMAS.append(rel)
    return fn


# ----------------------------------------------------------------------------- parameter specs


class Spec:
    def make(self, path, name):
        """-> (symbolic value, concretizer(model_eval) -> python value)"""
        raise NotImplementedError


class Const(Spec):
    def __init__(self, v):
        self.v = v

    def make(self, path, name):
        return self.v, lambda ev: self.v


class Int(Spec):
    def __init__(self, lo=None, hi=None):
        self.lo, self.hi = lo, hi

    def make(self, path, name):
        x = path.fresh_int(name)
        nb = None
        if self.lo is not None:
            path.assume(x >= self.lo)
        if self.hi is not None:
            path.assume(x <= self.hi)
        if self.lo is not None and self.lo >= 0 and self.hi is not None:
            nb = int(self.hi).bit_length()
        return SInt(x, 0, nb), lambda ev: ev(x).as_long()


class Bool(Spec):
    def make(self, path, name):
        b = path.fresh_bool(name)
        return SBool(b), lambda ev: z3.is_true(ev(b))


class Float(Spec):
    """Symbolic float (finite unless allow_special)."""

    def __init__(self, lo=None, hi=None, finite=True):
        self.lo, self.hi, self.finite = lo, hi, finite

    def make(self, path, name):
        from . import floats

        mode = path.ex.float_mode
        if mode == "fp":
            x = z3.FP(path.fresh_name(name), floats.F64)
            if self.finite:
                path.assume(z3.Not(z3.fpIsNaN(x)))
                path.assume(z3.Not(z3.fpIsInf(x)))
            if self.lo is not None:
                path.assume(z3.fpGEQ(x, z3.FPVal(self.lo, floats.F64)))
            if self.hi is not None:
                path.assume(z3.fpLEQ(x, z3.FPVal(self.hi, floats.F64)))

            def conc(ev):
                v = ev(x)
                return _fp_to_float(v)

            return SFloat(x, "fp"), conc
        x = z3.Real(path.fresh_name(name))
        if self.lo is not None:
            path.assume(x >= floats.fexpr_real(self.lo))
        if self.hi is not None:
            path.assume(x <= floats.fexpr_real(self.hi))

        def conc(ev):
            v = ev(x)
            return float(v.numerator_as_long()) / float(v.denominator_as_long())

        return SFloat(x, "real"), conc


def _fp_to_float(v):
    import struct

    v = z3.simplify(v)
    if z3.is_fp_value(v):
        if v.isNaN():
            return float("nan")
        if v.isInf():
            return float("-inf") if v.isNegative() else float("inf")
        if v.isZero():
            return -0.0 if v.isNegative() else 0.0
    bv = z3.simplify(z3.fpToIEEEBV(v))
    if not z3.is_bv_value(bv):
        r = z3.simplify(z3.fpToReal(v))
        return float(r.numerator_as_long()) / float(r.denominator_as_long())
    return struct.unpack(">d", bv.as_long().to_bytes(8, "big"))[0]


class Bytes(Spec):
    """bytes of any length (or given length / bounds)."""

    def __init__(self, length=None, min_len=0, max_len=None, mutable=False):
        self.length, self.min_len, self.max_len, self.mutable = length, min_len, max_len, mutable

    def make(self, path, name):
        f = path.fresh_fun(name)
        if self.length is not None:
            n = self.length
        else:
            n = path.fresh_int(name + ".len")
            path.assume(n >= self.min_len)
            if self.max_len is not None:
                path.assume(n <= self.max_len)
        mutable = self.mutable

        def conc(ev):
            ln = n if isinstance(n, int) else ev(n).as_long()
            ln = min(ln, 1 << 20)
            bs = _fun_bytes(ev, f, ln)
            return bytearray(bs) if mutable else bs

        return SBytes([CSeg(f, 0, n)], mutable), conc


def _fun_bytes(ev, f, ln):
    """Octets f(0..ln-1) under the model behind `ev` (function interpretation read once)."""
    model = getattr(ev, "model", None)
    if model is not None and ln > 64:
        try:
            fi = model[f]
            if fi is not None and not isinstance(fi, z3.ExprRef):
                table = {}
                for k in range(fi.num_entries()):
                    e = fi.entry(k)
                    a, v = e.arg_value(0), e.value()
                    if z3.is_int_value(a) and z3.is_int_value(v):
                        table[a.as_long()] = v.as_long()
                els = fi.else_value()
                if z3.is_int_value(els):
                    d = els.as_long()
                    return bytes(min(255, max(0, table.get(i, d))) for i in range(ln))
        except (z3.Z3Exception, AttributeError):
            pass
    return bytes(min(255, max(0, ev(f(z3.IntVal(i))).as_long())) for i in range(ln))


class ByteTuple(Spec):
    """tuple of octets of any length (what DPTArray.value holds after decoding)."""

    def __init__(self, length=None, min_len=0, max_len=None):
        self.b = Bytes(length, min_len, max_len)

    def make(self, path, name):
        v, c = self.b.make(path, name)
        if isinstance(self.b.length, int):
            b = SBytes(v.segs).expand()
            return tuple(SInt(s.v, 0, 8) for s in b.segs), lambda ev: tuple(c(ev))
        return STuple(v), lambda ev: tuple(c(ev))


class EnumOf(Spec):
    def __init__(self, cls, members=None):
        self.cls = cls
        self.members = list(members) if members is not None else list(cls)

    def make(self, path, name):
        ms = self.members
        vals = [m.value for m in ms]
        if all(isinstance(v, int) and not isinstance(v, bool) for v in vals) and len(set(vals)) == len(vals):
            x = path.fresh_int(name)
            path.assume(z3.Or(*[x == v for v in vals]))
            return SEnum(self.cls, x, "val", ms), lambda ev: self.cls(ev(x).as_long())
        x = path.fresh_int(name)
        path.assume(z3.And(x >= 0, x < len(ms)))
        return SEnum(self.cls, x, "idx", ms), lambda ev: ms[ev(x).as_long()]


class Choice(Spec):
    """One of several concrete values or specs (explored as separate paths)."""

    def __init__(self, *alts):
        self.alts = alts

    def make(self, path, name):
        i = path.choose(len(self.alts), name + "?")
        a = self.alts[i]
        if isinstance(a, Spec):
            return a.make(path, name)
        return a, lambda ev: a


class Obj(Spec):
    """Object of a repo class with the given field specs (the class invariant is whatever the specs say).
    Built without running __init__ (fields are set directly); natively object.__new__ + setattr."""

    def __init__(self, cls, **fields):
        self.cls = cls
        self.fields = fields

    def make(self, path, name):
        vals = {}
        concs = {}
        for k, s in self.fields.items():
            if not isinstance(s, Spec):
                s = Const(s)
            vals[k], concs[k] = s.make(path, f"{name}.{k}")
        cls = self.cls

        def conc(ev):
            o = object.__new__(cls)
            for k, c in concs.items():
                object.__setattr__(o, k, c(ev))
            return o

        o = SObj(cls, vals)
        object.__setattr__(o, "from_spec", True)  # (interp: a missing attribute is a gap of the specification)
        return o, conc


class New(Spec):
    """Object built by calling the real constructor with symbolic arguments (runs __init__ symbolically
    inside the lemma prologue; an exception there cuts the path = the constructor refused the values)."""

    def __init__(self, cls, *args, **kwargs):
        self.cls, self.args, self.kwargs = cls, args, kwargs


class TupleOf(Spec):
    def __init__(self, *specs):
        self.specs = specs

    def make(self, path, name):
        vs, cs = [], []
        for i, s in enumerate(self.specs):
            if not isinstance(s, Spec):
                s = Const(s)
            v, c = s.make(path, f"{name}[{i}]")
            vs.append(v)
            cs.append(c)
        return tuple(vs), lambda ev: tuple(c(ev) for c in cs)


class ListOf(TupleOf):
    def make(self, path, name):
        v, c = super().make(path, name)
        return list(v), lambda ev: list(c(ev))


class Optional(Spec):
    def __init__(self, spec):
        self.spec = spec

    def make(self, path, name):
        if path.choose(2, name + "?none") == 0:
            return None, lambda ev: None
        return self.spec.make(path, name)


# ----------------------------------------------------------------------------- spec helper functions
# usable inside lemmas; each has a native meaning (plain python) and a symbolic model (stdlib MODELS)


def implies(a, b):
    return (not a) or b


def forall_range(n, pred):
    """all(pred(i) for i in range(n)) -- symbolic: one fresh index, i.e. a universally quantified goal."""
    return all(pred(i) for i in range(n))


# ghost state and nondeterminism usable in executable contracts (stubs) and lemmas.
# natively they are plain python: the driver preloads the oracle with the choices of the path replayed.
_NATIVE_GHOST = {}
_NATIVE_ORACLE = []


def ghost(name):
    """Per-run ghost list (reset for every path / native run)."""
    return _NATIVE_GHOST.setdefault(name, [])


def nondet(n):
    """Nondeterministic choice in range(n): every alternative is explored."""
    if _NATIVE_ORACLE:
        v = _NATIVE_ORACLE.pop(0)
        return v % n if isinstance(v, int) else 0
    return 0


_NATIVE_LOG = {"exception": 0, "installed": False}


def exception_logged():
    """True when logger.exception(...) was called on an xknx logger since the run started
    (the 'last-resort guard' of receive handlers). Symbolic: recorded by the logging model."""
    return _NATIVE_LOG["exception"] > 0


def _install_native_log_probe():
    import logging

    if _NATIVE_LOG["installed"]:
        return

    class _H(logging.Handler):
        def emit(self, record):
            if record.exc_info:
                _NATIVE_LOG["exception"] += 1

    for name in ("xknx.log", "xknx.knx", "xknx.cemi", "xknx.telegram", "xknx.raw_socket", "xknx.data_secure", "xknx.ip_secure", "xknx.state_updater"):
        lg = logging.getLogger(name)
        lg.addHandler(_H())
    logging.getLogger("xknx").addHandler(_H())
    _NATIVE_LOG["installed"] = True


def run(coro):
    """Run a coroutine to completion (sequential coroutine mode: awaits run their callee at once)."""
    import asyncio

    return asyncio.run(coro)


def since_last(trace, marker):
    """The events recorded after the last occurrence of `marker` in a ghost trace (the marker's own
    entry excluded). After a loop havoc the trace is 'unknown prefix + what this iteration recorded'."""
    idx = max(i for i, x in enumerate(trace) if (x == marker or (isinstance(x, tuple) and x and x[0] == marker)))
    return list(trace[idx + 1 :])


def last_marker(trace, marker):
    """The last entry equal to `marker` or a tuple starting with it."""
    return [x for x in trace if (x == marker or (isinstance(x, tuple) and x and x[0] == marker))][-1]


def unstubbed(f):
    """The real function f even when a lemma installs a contract stub for it (used by recursive
    contracts: the outermost call runs the real body, nested calls go through the contract)."""
    return f


class _Unstubbed:
    def __init__(self, func):
        self.func = func


def nondet_bytes(max_len=None):
    """An arbitrary byte string (every value is explored symbolically; natively: replayed from the oracle)."""
    if _NATIVE_ORACLE:
        return _NATIVE_ORACLE.pop(0)
    return b""


def assume(cond):
    """Restrict the inputs considered (a precondition inside a lemma). Natively: skip the run."""
    if not cond:
        raise _AssumptionFailed()


class _AssumptionFailed(Exception):
    pass


def _register_helper_models():
    from . import stdlib

    def m_forall_range(I, args, kwargs):
        n, pred = args
        if isinstance(n, int):
            return all(I.truth(I.call(pred, [i], {})) for i in range(n))
        k = I.path.fresh_int("k!forall")
        # goal position only: fresh k stands for an arbitrary index
        I.path.assume(z3.And(k >= 0, k < iexpr(n)))
        return I.call(pred, [SInt(k)], {})

    stdlib.MODELS[forall_range] = m_forall_range

    def m_ghost(I, args, kwargs):
        return I.path.ghost.setdefault("g:" + args[0], [])

    def m_nondet(I, args, kwargs):
        k = I.path.choose(args[0], "nondet")
        I.path.ghost.setdefault("__oracle__", []).append(k)
        return k

    def m_assume(I, args, kwargs):
        zb = I.as_z3_bool(args[0])
        I.path.assume(zb)
        return None

    def m_exception_logged(I, args, kwargs):
        return len(I.path.ghost.get("g:log.exception", [])) > 0

    stdlib.MODELS[exception_logged] = m_exception_logged

    def m_run(I, args, kwargs):
        return I.models.await_value(I, args[0], None, None)

    def _tail_of(trace):
        if isinstance(trace, SymList):
            return trace.tail
        return trace

    def m_since_last(I, args, kwargs):
        trace, marker = args
        tail = _tail_of(trace)
        hits = [i for i, x in enumerate(tail) if (x == marker or (isinstance(x, tuple) and x and x[0] == marker))]
        if not hits:
            raise Unsupported("since_last: marker not in the known part of the trace")
        return list(tail[hits[-1] + 1 :])

    def m_last_marker(I, args, kwargs):
        trace, marker = args
        hits = [x for x in _tail_of(trace) if (x == marker or (isinstance(x, tuple) and x and x[0] == marker))]
        if not hits:
            raise Unsupported("last_marker: marker not in the known part of the trace")
        return hits[-1]

    stdlib.MODELS[run] = m_run
    stdlib.MODELS[since_last] = m_since_last
    stdlib.MODELS[last_marker] = m_last_marker
    stdlib.MODELS[unstubbed] = lambda I, a, k: _Unstubbed(getattr(a[0], "__func__", a[0]))
    def m_nondet_bytes(I, args, kwargs):
        max_len = args[0] if args else kwargs.get("max_len")
        f = I.path.fresh_fun("nondet_bytes")
        n = I.path.fresh_int("nondet_bytes.len")
        I.path.assume(n >= 0)
        if max_len is not None:
            from .intops import iexpr as _ie

            I.path.assume(n <= _ie(max_len))
        I.path.ghost.setdefault("__oracle__", []).append(lambda ev, f=f, n=n: _fun_bytes(ev, f, ev(n).as_long()))
        return SBytes([CSeg(f, 0, n)], False)

    stdlib.MODELS[nondet_bytes] = m_nondet_bytes
    stdlib.MODELS[ghost] = m_ghost
    stdlib.MODELS[nondet] = m_nondet
    stdlib.MODELS[assume] = m_assume


_register_helper_models()


# ----------------------------------------------------------------------------- contracts


class Contract:
    """
    Modular specification of a real function.  Used at call sites instead of the body (the caller
    learns only this), and verified against the body by a generated lemma.

      target   : the real function object (classmethod/staticmethod objects are unwrapped)
      params   : {name: Spec} inputs for verifying the body
      requires : python function(**args) -> bool   (checked at call sites, assumed for the body)
      result   : Spec or function(path, args) -> symbolic value returned at call sites
      ensures  : python function(**args, result=...) -> bool (assumed at call sites, checked on body)
      raises   : {ExcClass: python function(**args) -> bool or None}: allowed exceptions and when
    """

    def __init__(self, target, prop=None, params=None, requires=None, result=None, ensures=None, raises=None, name=None, modifies=None, family=None):
        f = target
        if isinstance(f, (classmethod, staticmethod)):
            f = f.__func__
        f = getattr(f, "__func__", f)
        self.target = f
        self.prop = prop
        self.params = params or {}
        self.requires = requires
        self.result = result
        self.ensures = ensures
        self.raises = raises or {}
        self.modifies = modifies
        self.family = family
        self.name = name or f"{f.__module__}:{f.__qualname__}"


def contract(target, **kw):
    c = Contract(target, **kw)
    CONTRACTS.append(c)
    return c


class DictOf(Spec):
    """dict with fixed keys and symbolic values (keyword arguments of a constructor)."""

    def __init__(self, **specs):
        self.specs = specs

    def make(self, path, name):
        vs, cs = {}, {}
        for k, s in self.specs.items():
            if not isinstance(s, Spec):
                s = Const(s)
            vs[k], cs[k] = s.make(path, f"{name}.{k}")
        return vs, lambda ev: {k: c(ev) for k, c in cs.items()}


# ----------------------------------------------------------------------------- loop specifications

LOOPS = {}


class SymList:
    """A list after havoc: `n0` unknown elements (n0 >= 0 symbolic) followed by the concrete `tail`
    appended since.  Supports append / len / truthiness; reading the unknown prefix is outside the subset."""

    def __init__(self, n0, tail=None, elem_spec=None):
        self.n0 = n0
        self.tail = list(tail or [])
        self.elem_spec = elem_spec  # Spec of an arbitrary element (lists of unknown length given as input)
        self.materialized = []  # (value, concretizer) of the elements a run looked at


class ListOfAny(Spec):
    """A list of any length whose elements are described by `elem_spec`. A loop over it needs a LoopSpec:
    its body is then checked for one arbitrary element (and the exit), i.e. for every list."""

    def __init__(self, elem_spec):
        self.elem_spec = elem_spec

    def make(self, path, name):
        n0 = path.fresh_int(name + ".len")
        path.assume(n0 >= 0)
        lst = SymList(n0, [], self.elem_spec)
        lst.name = name
        return lst, lambda ev: [c(ev) for _, c in lst.materialized]


class SymDict:
    """A dict after havoc: unknown entries plus the stores made since (reads are outside the subset)."""

    def __init__(self, n0):
        self.n0 = n0
        self.stores = []


class LoopSpec:
    """
    Invariant / variant of one loop of a real function, keyed by (function qualname, loop ordinal).

      modifies  : names the loop may assign: local names ("pos") or attributes of self ("self.dibs");
                  list-valued ones are havocked to a SymList
      invariant : python function over local names (parameters are looked up in the frame, `self` allowed)
      decreases : python function -> int; must strictly decrease and stay >= 0 while the loop runs
    Obligations: invariant on entry, invariant preserved by one arbitrary iteration, variant decreases.
    """

    def __init__(self, qualname, ordinal, modifies, invariant, decreases=None, int_ranges=None, post=None, only=None):
        self.qualname, self.ordinal = qualname, ordinal
        # only: names of the lemmas the loop rule is used in (elsewhere the loop is unrolled as usual)
        self.only = set(only) if only else None
        self.modifies = modifies
        self.invariant = invariant
        self.decreases = decreases
        self.post = post  # per-iteration postcondition (checked after the body of the arbitrary iteration)
        LOOPS[(qualname, ordinal)] = self

    def _call(self, I, fn, frame):
        import inspect

        kw = {}
        for p in inspect.signature(fn).parameters:
            if p == "yielded" and frame.yielded is not None:
                kw[p] = list(frame.yielded)  # generator bodies: values yielded since the iteration began
                continue
            kw[p] = I.load_name(p, frame)
        return I.call(fn, [], kw)

    def _assigned_in(self, stmts):
        """Names (and self.attributes) assigned anywhere in the loop: the loop rule is only sound if all
        of them are havocked, whatever the specification lists."""
        import ast as _ast

        names, attrs = set(), set()
        for st in stmts:
            for n in _ast.walk(st):
                if isinstance(n, _ast.Name) and isinstance(n.ctx, (_ast.Store, _ast.Del)):
                    names.add(n.id)
                elif isinstance(n, _ast.Attribute) and isinstance(n.ctx, _ast.Store) and isinstance(n.value, _ast.Name) and n.value.id == "self":
                    attrs.add("self." + n.attr)
                elif isinstance(n, _ast.ExceptHandler) and n.name:
                    names.add(n.name)
        return names, attrs

    def _havoc(self, I, frame, loop_stmt=None):
        from .core import SObj

        I.path.notes.append("havoc")  # from here on the state is an arbitrary one, not a real execution prefix

        mods = list(self.modifies)
        if loop_stmt is not None:
            names, attrs = self._assigned_in(list(loop_stmt.body) + list(getattr(loop_stmt, "orelse", [])))
            for a in sorted(attrs):
                if a not in mods:
                    mods.append(a)
            for nme in sorted(names):
                if nme in frame.locals and nme not in mods and not (isinstance(getattr(loop_stmt, "target", None), __import__("ast").Name) and loop_stmt.target.id == nme):
                    mods.append(nme)
                    I.path.notes.append("auto-havoc:" + nme)
        for m in mods:
            if m.startswith("ghost:"):
                key = "g:" + m[6:]
                n0 = I.path.fresh_int(f"havoc.{m}.len")
                I.path.assume(n0 >= 0)
                I.path.ghost[key] = SymList(n0)
                continue
            if m.startswith("self."):
                obj = frame.locals["self"]
                attr = m[5:]
                cur = obj.fields.get(attr) if isinstance(obj, SObj) else None
                if isinstance(cur, (list, SymList)):
                    n0 = I.path.fresh_int(f"havoc.{attr}.len")
                    I.path.assume(n0 >= 0)
                    obj.fields[attr] = SymList(n0)
                elif isinstance(cur, (dict, SymDict)):
                    n0 = I.path.fresh_int(f"havoc.{attr}.len")
                    I.path.assume(n0 >= 0)
                    obj.fields[attr] = SymDict(n0)
                else:
                    obj.fields[attr] = SInt(I.path.fresh_int(f"havoc.{attr}"))
            else:
                cur = frame.locals.get(m)
                if isinstance(cur, (list, SymList)):
                    n0 = I.path.fresh_int(f"havoc.{m}.len")
                    I.path.assume(n0 >= 0)
                    frame.locals[m] = SymList(n0)
                elif cur is None or isinstance(cur, (int, SInt, SBool)) and not isinstance(cur, bool):
                    frame.locals[m] = SInt(I.path.fresh_int(f"havoc.{m}"))
                elif isinstance(cur, (bool, SBool)):
                    frame.locals[m] = SBool(I.path.fresh_bool(f"havoc.{m}"))
                else:
                    # a local of another kind (object, tuple, string): unknown after an arbitrary number of
                    # iterations; the body re-assigns it before use or the run leaves the subset
                    frame.locals.pop(m, None)

    def run(self, I, s, frame, kind, iterable):
        from .core import PathAbort
        from .interp import _Break, _Continue

        if kind == "for" and isinstance(iterable, SymList):
            return self.run_for_list(I, s, frame, iterable)
        if kind == "for":
            return self.run_for_range(I, s, frame, iterable)
        prove = I.cfg["prove"]
        site = f"{self.qualname}#loop{self.ordinal}"
        prove("loop-invariant-entry", site, I.as_z3_bool(self._call(I, self.invariant, frame)))
        # the first iteration is additionally checked from the real entry state: refutations found
        # there come with an input that replays natively (the havocked state below may be unreachable)
        first = I.path.choose(2, "loop!first-or-arbitrary") == 0
        if not first:
            self._havoc(I, frame, s)
            I.path.assume(I.as_z3_bool(self._call(I, self.invariant, frame)))
        if not I.truth(I.eval(s.test, frame)):
            if first:
                raise PathAbort()  # exit is explored from the havocked state
            I.exec_block(s.orelse, frame)
            return
        v0 = self._call(I, self.decreases, frame) if self.decreases is not None else None
        if frame.yielded is not None:
            frame.yielded = []
        try:
            I.exec_block(s.body, frame)
        except _Break:
            return
        except _Continue:
            pass
        prove("loop-invariant-preserved", site, I.as_z3_bool(self._call(I, self.invariant, frame)))
        if self.post is not None:
            prove("loop-iteration-post", site, I.as_z3_bool(self._call(I, self.post, frame)))
        if v0 is not None:
            v1 = self._call(I, self.decreases, frame)
            prove("loop-variant-decreases", site, z3.And(iexpr(v0) >= 0, iexpr(v1) < iexpr(v0)))
        raise PathAbort()  # an arbitrary iteration has been checked; the exit path continues separately

    def run_for_list(self, I, s, frame, lst):
        """`for x in <list of unknown length>`: either the loop is over, or its body runs on one arbitrary
        element: invariant + per-iteration postcondition are proved for it (hence for every element)."""
        from .core import PathAbort
        from .interp import _Break, _Continue

        if lst.elem_spec is None or lst.tail:
            raise Unsupported("loop over a havocked list without element description")
        prove = I.cfg["prove"]
        site = f"{self.qualname}#loop{self.ordinal}"
        prove("loop-invariant-entry", site, I.as_z3_bool(self._call(I, self.invariant, frame)))
        self._havoc(I, frame, s)
        I.path.assume(I.as_z3_bool(self._call(I, self.invariant, frame)))
        if I.path.choose(2, "loop!iterate-or-exit") == 1:
            I.exec_block(s.orelse, frame)
            return
        I.path.assume(lst.n0 >= 1)
        elem, conc = lst.elem_spec.make(I.path, getattr(lst, "name", "list") + "[any]")
        lst.materialized.append((elem, conc))
        I.assign(s.target, elem, frame)
        try:
            I.exec_block(s.body, frame)
        except _Break:
            pass
        except _Continue:
            pass
        prove("loop-invariant-preserved", site, I.as_z3_bool(self._call(I, self.invariant, frame)))
        if self.post is not None:
            prove("loop-iteration-post", site, I.as_z3_bool(self._call(I, self.post, frame)))
        raise PathAbort()

    def run_for_range(self, I, s, frame, iterable):
        """`for x in range(a, b, step)` (step > 0 constant): the invariant speaks about the state only;
        termination is by construction (x strictly increases towards b)."""
        import ast as _ast

        from .core import PathAbort
        from .interp import _Break, _Continue

        if isinstance(iterable, range):
            start, stop, step = iterable.start, iterable.stop, iterable.step
        elif type(iterable).__name__ == "SRange":
            start, stop, step = iterable.start, iterable.stop, iterable.step
        else:
            raise Unsupported("loop specification on a for loop that is not over range()")
        if not isinstance(step, int) or step <= 0 or not isinstance(s.target, _ast.Name) or s.orelse:
            raise Unsupported("for-range loop specification needs a constant positive step and a simple target")
        prove = I.cfg["prove"]
        site = f"{self.qualname}#loop{self.ordinal}"
        prove("loop-invariant-entry", site, I.as_z3_bool(self._call(I, self.invariant, frame)))
        self._havoc(I, frame, s)
        I.path.assume(I.as_z3_bool(self._call(I, self.invariant, frame)))
        if I.path.choose(2, "loop!iterate-or-exit") == 1:
            return  # after the loop: havocked state satisfying the invariant
        x = I.path.fresh_int("loopvar." + s.target.id)
        I.path.assume(z3.And(x >= iexpr(start), x < iexpr(stop), (x - iexpr(start)) % step == 0))
        frame.locals[s.target.id] = SInt(x)
        try:
            I.exec_block(s.body, frame)
        except _Break:
            return
        except _Continue:
            pass
        prove("loop-invariant-preserved", site, I.as_z3_bool(self._call(I, self.invariant, frame)))
        raise PathAbort()


# ----------------------------------------------------------------------------- symbolic maps


class SMap(SVal):
    """A dict with an arbitrary (unbounded) set of keys: keys are objects identified by an integer
    attribute (`key_attr`, e.g. an address's `raw`), values are ints or fixed-length byte strings.
    Encoded as z3 arrays: dom: Int -> Bool, val: Int -> Int (or a two-argument function for bytes).
    Supports d[k], d[k] = v, k in d, d.get(k[, default]); iteration is outside the subset."""

    def __init__(self, key_cls, key_attr, dom, val, value_len, touched):
        self.key_cls, self.key_attr, self.dom, self.val, self.value_len, self.touched = key_cls, key_attr, dom, val, value_len, touched

    def key_int(self, I, k):
        if isinstance(k, SObj) and issubclass(k.cls, self.key_cls):
            ke = iexpr(k.fields[self.key_attr])
        elif isinstance(k, self.key_cls):
            ke = iexpr(getattr(k, self.key_attr))
        else:
            return None
        self.touched.append(ke)
        return ke

    def has(self, I, k):
        ke = self.key_int(I, k)
        if ke is None:
            return False
        return z3.Select(self.dom, ke)

    def value_at(self, I, ke):
        if self.value_len is None:
            return SInt(z3.Select(self.val, ke))
        f = self.val

        class _Row:
            def __call__(self, i, _ke=ke):
                return f(_ke, i)

            def name(self):
                return "row"

        return SBytes([CSeg(_Row(), 0, self.value_len)], False)

    def store(self, I, k, v):
        ke = self.key_int(I, k)
        if ke is None:
            raise Unsupported("SMap store with a key of another class")
        self.dom = z3.Store(self.dom, ke, z3.BoolVal(True))
        if self.value_len is None:
            self.val = z3.Store(self.val, ke, iexpr(v))
        else:
            raise Unsupported("store of byte values into an SMap")


class MapOf(Spec):
    """Any dict {key_cls(raw): value}: an unbounded table (values: Int() or Bytes(length=n))."""

    def __init__(self, key_cls, key_attr="raw", value=None, value_len=None):
        self.key_cls, self.key_attr, self.value_len = key_cls, key_attr, value_len

    def make(self, path, name):
        dom = z3.Array(path.fresh_name(name + ".dom"), z3.IntSort(), z3.BoolSort())
        touched = []
        if self.value_len is None:
            val = z3.Array(path.fresh_name(name + ".val"), z3.IntSort(), z3.IntSort())
        else:
            val = z3.Function(path.fresh_name(name + ".val"), z3.IntSort(), z3.IntSort(), z3.IntSort())
        m = SMap(self.key_cls, self.key_attr, dom, val, self.value_len, touched)
        dom0, val0 = dom, val
        key_cls, key_attr, vlen = self.key_cls, self.key_attr, self.value_len

        def conc(ev):
            out = {}
            for ke in touched:
                k = ev(ke)
                if not z3.is_int_value(k):
                    continue
                k = k.as_long()
                if z3.is_true(ev(z3.Select(dom0, z3.IntVal(k)))):
                    if vlen is None:
                        v = ev(z3.Select(val0, z3.IntVal(k))).as_long()
                    else:
                        v = bytes(min(255, max(0, ev(val0(z3.IntVal(k), z3.IntVal(i))).as_long())) for i in range(vlen))
                    try:
                        out[key_cls(k)] = v
                    except Exception:  # noqa: BLE001
                        pass
            return out

        return m, conc
